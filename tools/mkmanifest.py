#!/usr/bin/env python3
"""Regenerates /verif/MANIFEST.json from the table below (kept in one place so that it always validates)."""
import json, sys, os
ROOT = os.path.dirname(os.path.dirname(os.path.abspath(__file__)))

CHECKS = {
 # id: (engine, level, technique, text, note, design_ref)
 "C01": ("E1", "exploration", "property-based testing (proptest, seeded): generated (type expression, value) cases, round-trip oracle",
         "Generated-input search: hundreds of thousands of (type expression, value) pairs over the whole built-in codec vocabulary (every constructor forced at the root, nesting to depth 3/4, boundary pools) are round-tripped through the real codecs; a violation is shrunk to a minimal replay file. Exploration, not proof: it shows absence of failures on what was generated.",
         "Trusts the harness bridge `Live` (dispatches every node to the real desert impl of the concrete type) and chrono/bigdecimal value constructors; TZ=UTC pinned.", "5.1"),
 "C04": ("E1", "exploration", "property-based differential testing against an independent reference codec (vmodel::refcodec), both directions",
         "Every generated value is encoded by desert and by an independent reference encoder written from the format description (no shared code) and compared byte for byte; conversely reference encodings in forms the Rust writer never emits (unknown-length sequences) must decode to the denoted value. The reference is anchored to Scala-produced bytes (golden file).",
         "Trusts the reference model as the statement of the format (DESIGN section 4); anchors: golden/dataset1.bin and the pinned 14-byte Point vector.", "5.4"),
}

NOT_YET = {
}

def main():
    props = [json.loads(l)["id"] for l in open(os.path.join(ROOT, "properties.jsonl"))]
    checks = []
    for pid in props:
        if pid not in CHECKS: continue
        eng, level, tech, text, note, ref = CHECKS[pid]
        checks.append({
            "property_id": pid,
            "quick_cmd": f"./check {pid} quick",
            "thorough_cmd": f"./check {pid} thorough",
            "evidence_file": f"/verif/evidence/{pid}.json",
            "replay_cmd_template": f"./check {pid} --replay {{path}}",
            "engine": eng,
            "level_claimed": {"category": level, "text": text, "design_ref": f"DESIGN.md section {ref}"},
            "level_note": note,
            "technique": tech,
        })
    na = [{"property_id": p, "reason": NOT_YET.get(p, "check not built yet in this phase (see DESIGN.md section 11.1 build order); property-based testing applies and the check is planned")} for p in props if p not in CHECKS]
    m = {
        "version": 1,
        "setup_cmd": "./check --setup",
        "hooks": {
            "guard": "desert_verif",
            "enable": "none needed: every observation point is public API; checks build /repo as it is (RUSTFLAGS unchanged)",
            "baseline_off_cmd": "cd /repo && cargo test --workspace --no-fail-fast --offline",
            "source_commits": [],
            "add_only": True,
        },
        "engines": [
            {"name": "E1", "path": "harness/vcheck/src/props/builtin.rs", "serves_properties": ["C01", "C04"], "kind_free_text": "proptest strategies over (type expression, value), run by a seeded sharded driver with manual shrinking; oracle = round-trip / independent reference codec"},
        ],
        "checks": checks,
        "not_applicable": na,
        "notes": "All checks are property-based tests / fuzzers with explicit oracles (see DESIGN.md). ./check <ID> quick|thorough rebuilds the harness against /repo's working tree, runs, rewrites evidence/<ID>.json and prints VIOLATION / KNOWN-FINDING lines. known_findings.json lists repaired (fixed:) and recorded defects.",
    }
    json.dump(m, open(os.path.join(ROOT, "MANIFEST.json"), "w"), indent=1)
    print("MANIFEST.json:", len(checks), "checks,", len(na), "not_applicable")

main()
