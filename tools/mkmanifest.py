#!/usr/bin/env python3
"""Regenerates /verif/MANIFEST.json from the table below (kept in one place so that it always validates)."""
import json, sys, os
ROOT = os.path.dirname(os.path.dirname(os.path.abspath(__file__)))

CHECKS = {
 # id: (engine, level, technique, text, note, design_ref)
 "C01": ("E1", "exploration", "property-based testing (proptest, seeded): generated (type expression, value) cases, round-trip oracle",
         "Generated-input search: hundreds of thousands of (type expression, value) pairs over the whole built-in codec vocabulary (every constructor forced at the root, nesting to depth 3/4, boundary pools) are round-tripped through the real codecs; a violation is shrunk to a minimal replay file; forty concrete container types are also round-tripped at their real static types (what a codec does for one particular element or key type is only reached that way). Exploration, not proof: it shows absence of failures on what was generated.",
         "Trusts the harness bridge `Live` (dispatches every node to the real desert impl of the concrete type; containers are instantiated at the bridge's element type, hence the static-type table) and chrono/bigdecimal value constructors; TZ=UTC pinned.", "5.1"),
 "C02": ("E2+E3", "translation_validation", "translation validation of the derive macro: generated declarations compiled with the real macro, differential against an independent interpretation of the declaration (reference encoder / decoder) and against the run-time interpreter",
         "163 generated declarations (all versions of 36 evolution histories, 12 enum families, specials incl. recursion and the 254-step limit) are compiled with the real derive macro; for generated values the derived codec must round-trip, produce byte for byte what the documented field-by-field procedure produces (reference encoder interpreting the declaration), read reference encodings in other legal forms, and agree with the E3 interpreter. Programs are sampled (bounded shapes), values are generated: exploration of the program space, exact comparison per program.",
         "The model interprets the declaration; the compiled code is the macro's output; they share only the declaration. Declarations are bounded (<= 6 initial fields, <= 6 steps compiled; hand-written ones add 130/200-field records, names removed and added again, the 254-step limit). Known finding F24 (an alias of Option under FieldMadeOptional) is re-exhibited by a witness on every run.", "5.2"),
 "C03": ("E3", "exploration", "property-based testing over generated evolution histories (legal by construction) x all writer/reader version pairs, logical-level oracle",
         "Histories of evolution steps are generated from selector specs and built so that every one is legal; each (history, writer version, reader version, value, placement) case is executed through the real AdtSerializer/AdtDeserializer and compared with the documented outcome computed on the logical level (defaults, wrap/unwrap, absent-if-optional, the two specific errors with field names), including that sibling data after the record is intact.",
         "Trusts the run-time interpreter that drives AdtSerializer/AdtDeserializer like the derive expansion (validated against the real expansion by C02's compiled declarations) and DESIGN section 9 for the excluded combination. Known finding F17 (string ids of header names across versions) is recognised by an exact per-case criterion, counted and re-exhibited on every run.", "5.3"),
 "C04": ("E1", "exploration", "property-based differential testing against an independent reference codec (vmodel::refcodec), both directions",
         "Every generated value is encoded by desert and by an independent reference encoder written from the format description (no shared code) and compared byte for byte; conversely reference encodings in forms the Rust writer never emits (unknown-length sequences) must decode to the denoted value; the same byte comparison at forty real static container types.",
         "Trusts the reference model as the statement of the format (DESIGN section 4).", "5.4"),
 "C05": ("E4+E1+E6", "fault_enumeration", "exhaustive enumeration of short byte strings + random and structure-aware mutation fuzzing (proptest-driven) under a tracking allocator and a crash/hang supervisor, in two build profiles",
         "Totality of decoding is attacked with every byte string of length <= 2 (<= 3 thorough) for a fixed type list, random byte strings, site-aware tamperings of valid encodings and adversarial BinaryInput call sequences; the oracle is Ok-or-Err with no unwind, no process death, no hang and a heap bound measured by a tracking allocator. Finds crashes by search; says nothing about inputs it did not generate beyond the exhaustive sub-space.",
         "Known findings F12/F13 are excluded by construction and counted; allocation bound constants are the harness's reading of 'bounded multiple of the input length' (DESIGN section 5.5).", "5.5"),
 "C06": ("E1", "fault_enumeration", "structure-aware mutation fuzzing of valid encodings, differential against the strict reference decoder (implication oracle)",
         "Framing faults (chunk sizes, counts, lengths, tags, position and version bytes, splices, duplications) are injected into valid encodings at the sites of the reference encoder's site map; whenever desert accepts the result, the strict reference decoder must accept it with the same value.",
         "Trusts the reference decoder with exactly the leniencies of DESIGN section 4.5.", "5.6"),
 "C07": ("E1", "exploration", "property-based testing: generated values and suffixes, remaining-input oracle on the public DeserializationContext",
         "Values (one, or 2-5 back to back) followed by generated suffixes are decoded from one context which is then drained: the drained bytes must be exactly the suffix.",
         "Observation through the public BinaryInput impl of DeserializationContext; evolved records across versions are covered by C03's whole-buffer oracle.", "5.7"),
 "C08": ("E1", "fault_enumeration", "exhaustive truncation of generated valid encodings (every cut point per value)",
         "For every generated value every strict prefix of its encoding is decoded and must be rejected; cut points are enumerated exhaustively per value and classified by the site they land in.",
         "Soundness of the oracle rests on C07 (exact consumption).", "5.8"),
 "C09": ("E5", "exploration", "property-based testing over generated (dedup | plain) write sequences and dedup-bearing typed placements; byte-exact model of the string table; fault injection on back-references",
         "Write sequences over a six-string alphabet (repeats frequent) in flat streams, containers, version-0 records and evolved records with removed names in their headers (nested, repeated) are encoded and decoded with the same definition; the stream must be byte-identical to the model's (ids from 1 in first-occurrence order, header names first, repeats exactly zigzag(-id)), and corrupted back-references must be InvalidStringId.",
         "Cross-version deduplication is documented as unsupported and not exercised.", "5.9"),
 "C10": ("E4+E1", "exploration", "exhaustive enumeration of small rooted digraphs + random larger graphs through a safe user codec; byte-exact model, isomorphism oracle with pointer equality, fault injection on reference ids",
         "All rooted digraphs with <= 4 nodes and out-degree <= 2 (exhaustive) and random graphs up to 60 nodes are encoded through a harness codec that offers node addresses as identities; bytes must match the model, decoding must rebuild an isomorphic graph with sharing restored and distinct nodes distinct, corrupted ids must be InvalidRefId; flavours: embedded header objects, deduplicated tags, a zero-sized sentinel, edge lists through the library's marker-per-element sequence form, nodes that are evolved records (also several values through one context).",
         "The user codec is the harness's own (safe code, every node alive for the whole call).", "5.10"),
 "C11": ("E4", "exploration", "exhaustive enumeration (thorough: all 2^32 u32 and i32 values) / boundary neighbourhoods + seeded random values against an independent formula",
         "Thorough tier enumerates the complete domain in the release profile; quick tier covers +-4096 around every width boundary, a lattice and random values of every bit length, in both profiles. Oracle: bytes, minimal length, continuation bits, size calculator and read-back through all three inputs.",
         "Reference formula in vmodel::refcodec (LEB128 / zig-zag), independent of desert.", "5.11"),
 "C12": ("E1", "exploration", "property-based testing: generated element lists x source container x target container x size form",
         "What one container wrote is read as every other container of the family, in the writer's known-length form, the writer's unknown-length form and the reference encoder's unknown-length form; several text-keyed maps in one stream at their real static types.",
         "Hash containers are compared as sets/maps; the written order is taken from the very instance that was serialized.", "5.12"),
 "C13": ("E2+E3", "exploration", "property-based testing over generated enum families (compiled with the real macro and interpreted), cross-definition decode and constructor-index splicing",
         "Families E < E' < E'' are generated so that appended variants come last in index order (declaration or sorted); values written by each member are read by each member; constructor indices are spliced; oracles are the index formula, variant/payload identity across extensions and the specific errors (never a panic).",
         "12 compiled families + run-time families; enum-level #[evolution] is outside the stated domain.", "5.13"),
 "C14": ("E2+E3", "exploration", "metamorphic property-based testing: twin values differing only in transient fields; histories built to end in FieldMadeTransient",
         "For every compiled declaration with transient parts and for run-time histories ending in FieldMadeTransient(f) (f previously added / made optional / both / neither): twins encode identically, decoding restores declared defaults, encoding never fails, transient constructors give the dedicated error through every sink.",
         "That transient fields contribute no bytes is additionally pinned byte for byte by C02's reference encoding.", "5.14"),
 "C15": ("E5", "exploration", "property-based testing: one instance to six sinks + size calculator; generated primitive-read op sequences on the three inputs (differential)",
         "Sinks: byte-identical streams or identical errors, exact size. Inputs: op-by-op agreement of SliceInput, OwnedInput and DeserializationContext on generated read sequences with adversarial counts (also inside a chunk). Entry points at real static types (String, Vec<u8>, &str, Bytes, ...) around the empty value against the reference bytes.",
         "A user-defined BinaryOutput of the harness stands for 'any' custom output.", "5.15"),
 "C16": ("E1", "fault_enumeration", "property-based testing over generated contents x levels x sinks x sources with exhaustive truncation, bit flips and header rewrites under a tracking allocator",
         "Generated contents (empty, incompressible, repetitive, text-like, up to 256 KiB / 8 MiB) are framed at every level through three sinks, checked against an independent inflate, read back through three sources with a suffix; every truncation is Err; damaged frames never panic and never request more than a bounded multiple of what an independent streaming inflate produces (requests above 3 GiB trap).",
         "flate2 itself is trusted as the independent decoder.", "5.16"),
 "C17": ("E4+E1", "exploration", "exhaustive sweep of all Unicode scalar values + property-based testing of unsupported values (non-BMP chars, transient constructors, oversized and lying iterators, unknown field references) against the model's expected error",
         "Encoding is Ok(bytes == reference) or the documented error, identically through every sink, never an unwind.",
         "Known finding F14 is excluded by construction and re-exhibited on every run.", "5.17"),
 "C18": ("E5", "exploration", "stateful property-based testing: generated call histories executed in fresh child processes and compared call-by-call with solo executions; randomized 16-thread first-use stress compared with a single-threaded process",
         "Histories decide state leaking between calls (string / reference numbering, cached tables, first-use order); the stress half is a probabilistic detector for racy lazy initialisation: interleavings are sampled by the OS, not enumerated.",
         "Schedules are sampled, not enumerated (no control over std::sync::Once inside lazy_static).", "5.18"),
 "C19": ("E7+E1", "exploration", "generated safe-only client programs compiled with rustc against the built rlib (compiler verdict as oracle, control twin per witness) + differential fuzzing of the unsafe decode paths against the reference decoder",
         "A witness grammar (API path x death mode x referent type) produces programs under #![forbid(unsafe_code)]; each must be rejected by the borrow checker while its control compiles. Inputs reaching the unsafe blocks (arrays, byte vectors) are cross-checked against the reference decoder so that content not taken from the input is caught. The writing side runs under the same allocator oracle (fresh and freed memory pre-filled two ways): encodes that fail inside evolved records, and a safe serializer whose output grows from call to call.",
         "The space of client programs is explored through the grammar only; F15 (store_ref family) is a recorded known finding matched by API path.", "5.19"),
}

NOT_YET = {
}

def main():
    props = [json.loads(l)["id"] for l in open(os.path.join(ROOT, "properties.jsonl"))]
    checks = []
    for pid in props:
        if pid not in CHECKS: continue
        eng, level, tech, text, note, ref = CHECKS[pid]
        checks.append({
            "property_id": pid,
            "quick_cmd": f"./check {pid} quick",
            "thorough_cmd": f"./check {pid} thorough",
            "evidence_file": f"/verif/evidence/{pid}.json",
            "replay_cmd_template": f"./check {pid} --replay {{path}}",
            "engine": eng,
            "level_claimed": {"category": level, "text": text, "design_ref": f"DESIGN.md section {ref}"},
            "level_note": note,
            "technique": tech,
        })
    na = [{"property_id": p, "reason": NOT_YET.get(p, "check not built yet in this phase (see DESIGN.md section 11.1 build order); property-based testing applies and the check is planned")} for p in props if p not in CHECKS]
    m = {
        "version": 1,
        "setup_cmd": "./check --setup",
        "hooks": {
            "guard": "desert_verif",
            "enable": "none needed: every observation point is public API; checks build /repo as it is (RUSTFLAGS unchanged)",
            "baseline_off_cmd": "cd /repo && cargo test --workspace --no-fail-fast --offline",
            "source_commits": [],
            "add_only": True,
        },
        "engines": [
            {"name": "E1", "path": "harness/vcheck/src/props/", "serves_properties": ["C01", "C04", "C05", "C06", "C07", "C08", "C12"], "kind_free_text": "proptest strategies over (type expression, value, fault), run by a seeded sharded driver with manual shrinking; oracles: round-trip, independent reference codec, remaining input, truncation, allocation/time budget"},
            {"name": "E2", "path": "harness/vgen + harness/vcat/src/generated.rs + harness/vcheck/src/props/derived.rs", "serves_properties": ["C02", "C03", "C13", "C14", "C04", "C05", "C06", "C07", "C08"], "kind_free_text": "declarations generated by vgen from a seed, compiled with the real derive macro, each checked against the model interpreter"},
            {"name": "E3", "path": "harness/vcat/src/dynrec.rs", "serves_properties": ["C02", "C03", "C05", "C06", "C09", "C13", "C14"], "kind_free_text": "run-time interpreter of generated declarations driving AdtSerializer/AdtDeserializer like the derive expansion"},
            {"name": "E4", "path": "harness/vcheck/src/props/varint.rs", "serves_properties": ["C11", "C05"], "kind_free_text": "exhaustive enumerators (all 32-bit values; all short byte strings)"},
            {"name": "E7", "path": "harness/vcheck/src/props/safety.rs", "serves_properties": ["C19"], "kind_free_text": "witness-program generator; oracle = compiler verdict with a compiling control per witness"},
            {"name": "E5", "path": "harness/vcheck/src/props/sinks.rs, dedup.rs, isolation.rs", "serves_properties": ["C15", "C05", "C09", "C18"], "kind_free_text": "generated operation sequences on the BinaryInput implementations, differential"},
        ],
        "checks": checks,
        "not_applicable": na,
        "notes": "All checks are property-based tests / fuzzers with explicit oracles (see DESIGN.md). ./check <ID> quick|thorough rebuilds the harness against /repo's working tree, runs, rewrites evidence/<ID>.json and prints VIOLATION / KNOWN-FINDING lines. known_findings.json lists repaired (fixed:) and recorded defects.",
    }
    json.dump(m, open(os.path.join(ROOT, "MANIFEST.json"), "w"), indent=1)
    print("MANIFEST.json:", len(checks), "checks,", len(na), "not_applicable")

main()
