#!/usr/bin/env python3
"""Writes the prompts of one round of seeded-change production (one per property) to /tmp/agent_prompts<N>/<P>.txt.
A prompt holds the text of the property (statement and quantifier from properties.jsonl), one-line summaries of the
changes earlier rounds produced for it (so that a round looks elsewhere) and the task; nothing about the checks.
usage: seed_prompts.py <round>"""
import glob, json, os, sys

rnd = int(sys.argv[1])
root = os.path.dirname(os.path.dirname(os.path.abspath(__file__)))
props = [json.loads(l) for l in open(os.path.join(root, "properties.jsonl"))]
out = f"/tmp/agent_prompts{rnd}"
os.makedirs(out, exist_ok=True)

HEAD = """You are helping to evaluate a verification harness by producing realistic *seeded defects* for a Rust library. Work ONLY inside your own scratch git worktree `{wt}` (a checkout of the repository vigoo/desert-rust: crates desert_core, desert_macro, desert, desert_benchmarks) and write your results to `{res}/`. Do NOT read or touch `/verif` or `/repo` — your work must be independent of any existing checks. There is no network; build with `cargo ... --offline`.

The library is a Rust port of the 'desert' binary serialization library (derive-macro codecs with schema-evolution headers, varints, string deduplication, reference tracking). Start from the top-level layout and read whatever code you need.

PROPERTY ({id}: {title})
Statement: {statement}
Quantifier: {quant}

"""

TASK = """Look for breakages of a DIFFERENT kind: other code sites (the derive macro in desert_macro/src/lib.rs, desert_core/src/adt/*, evolution.rs, state.rs, the tuple codecs, the feature codecs for chrono / uuid / bigdecimal, binary_input.rs / binary_output.rs, lib.rs entry points), other type constructors, other boundary values, interactions between two features (e.g. transient + evolution, Option detection + defaults, dedup + nested records, unknown-length form + fixed-size targets, sorted constructors + transient variants), or damage that only shows for a particular nesting / container / version pair. Subtle and realistic is better than drastic.

TASK: produce TWO different, independent changes (mutants) to the library source (not to its tests), each of which BREAKS this property while
  (a) the workspace still compiles, and
  (b) the existing test suite still passes unchanged: `cd {wt} && cargo test --workspace --offline` (53 tests), and
  (c) the breakage needs something specific to manifest — a particular unusual input, boundary value, multi-step sequence of operations, a specific combination of types/attributes, a particular interleaving or fault point, or two cooperating sites that each look fine alone — NOT something that ordinary use would expose at once. Prefer subtle, realistic bugs a maintainer could plausibly introduce (off-by-one at a boundary, a wrong condition in a rarely taken branch, a missed case for one type constructor, a symmetric change on writer and reader sides that keeps round-trips working but changes the wire format, etc.).
The two mutants should use different mechanisms / different code sites.

For each mutant i in {{1,2}} write into `{res}/m<i>/`:
  - `patch.diff`: output of `git -C {wt} diff` for that mutant alone (relative to the worktree's HEAD; must apply with `git apply` on a clean checkout of the same commit);
  - a demonstration: a self-contained Rust integration test file `demo.rs` (to be dropped into `desert_macro/tests/` or `desert_core/tests/` — say which in meta.json; it may use the crates' existing dev-dependencies only) that FAILS with the mutant applied and PASSES on the unmodified tree. Verify both directions yourself by actually running it (`cargo test --offline -p <crate> --test demo`), and verify that the 53 existing tests pass with the mutant applied;
  - `meta.json`: {{"property": "{id}", "summary": "...what was changed...", "needs_to_manifest": "...the specific input/sequence/condition...", "demo_location": "desert_core/tests/demo.rs or desert_macro/tests/demo.rs", "commands_run": ["..."], "suite_passes_with_mutant": true, "demo_fails_with_mutant": true, "demo_passes_without_mutant": true}}.
After producing mutant 1, run `git -C {wt} checkout -- .` (and delete the demo test file from the worktree) before starting mutant 2, so that each patch is standalone. Leave the worktree clean at the end (no modified tracked files, no stray test files). Keep build output inside the worktree (`{wt}/target`).

If, while reading the code, you notice behaviour of the UNMODIFIED library that itself contradicts the property, add a short note `{res}/remarks.txt` describing the input and what happens (do not fix it).

Report back briefly: for each mutant, the one-line summary and whether all three verifications succeeded.
"""

for p in props:
    pid = p["id"]
    wt, res = f"/tmp/wt{rnd}-{pid}", f"/tmp/seed{rnd}-{pid}"
    s = HEAD.format(wt=wt, res=res, id=pid, title=p["title"], statement=p["statement"], quant=p["quantifier"]["text"])
    earlier = []
    for d in sorted(glob.glob(os.path.join(root, "seeded", pid + "-*"))):
        try:
            m = json.load(open(os.path.join(d, "meta.json")))
        except Exception:
            continue
        t = " ".join(str(m.get("summary", "")).split())
        if t:
            earlier.append(t[:300] + ("…" if len(t) > 300 else ""))
    if earlier:
        s += f"EARLIER ROUNDS: {len(earlier)} seeded changes already exist for this property; do NOT repeat them or close variants of them (same site and same mechanism):\n"
        s += "".join(f"  - {t}\n" for t in earlier)
    s += TASK.format(wt=wt, res=res, id=pid)
    open(os.path.join(out, pid + ".txt"), "w").write(s)
print("wrote", len(props), "prompts to", out)
