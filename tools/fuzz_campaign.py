#!/usr/bin/env python3
"""Thorough-tier libFuzzer campaign (ASan) for one property: builds the target, seeds a fresh corpus with valid
encodings, runs a fixed number of executions on 16 jobs, turns every saved artifact into a replay file of the property
and records what was done in the evidence file.   usage: fuzz_campaign.py <PROP> <target> <runs_per_job> [extra libFuzzer flags]"""
import glob, json, os, re, shutil, subprocess, sys, time
prop, target, runs = sys.argv[1], sys.argv[2], int(sys.argv[3])
extra = sys.argv[4:]
harness = os.environ["VERIF_HARNESS"]
out = os.environ["VERIF_OUT"]
seed = int(os.environ.get("VERIF_SEED", "0") or 0) or 1   # libFuzzer: -seed=0 means random
env = dict(os.environ, CARGO_NET_OFFLINE="true", ASAN_OPTIONS="detect_odr_violation=0:abort_on_error=0")
t0 = time.time()
p = subprocess.run(["cargo", "+nightly", "fuzz", "build", target], cwd=harness, env=env, capture_output=True, text=True)
if p.returncode != 0:
    print(p.stdout[-2000:], p.stderr[-3000:]); print("fuzz build failed: inconclusive"); sys.exit(2)
binary = f"{harness}/fuzz/target/x86_64-unknown-linux-gnu/release/{target}"
work = f"{out}/work/fuzz-{target}-{os.getpid()}"
corpus, art = f"{work}/corpus", f"{work}/artifacts"
os.makedirs(corpus, exist_ok=True); os.makedirs(art, exist_ok=True)
subprocess.run([f"{harness}/target/checked/vcheck", prop, "--seed", str(seed), "--export-corpus", target, corpus], env=env, check=True)
n_seed = len(os.listdir(corpus))
jobs = 16
cmd = [binary, corpus, f"-runs={runs}", f"-seed={seed}", "-len_control=0", "-max_len=2048", f"-jobs={jobs}", f"-workers={jobs}", f"-artifact_prefix={art}/", "-timeout=120", "-rss_limit_mb=6144", "-print_final_stats=1"] + extra
p = subprocess.run(cmd, cwd=work, env=env, capture_output=True, text=True)
execs = 0
for f in glob.glob(f"{work}/fuzz-*.log"):
    m = re.findall(r"stat::number_of_executed_units:\s*(\d+)", open(f, errors="replace").read())
    if m: execs += int(m[-1])
arts = sorted(glob.glob(f"{art}/*"))
rc = 0
# libFuzzer's own watchdogs (per-input timeout, memory limit, slow unit) are a matter of machine load: inconclusive, not a
# finding about the input; only inputs on which the target itself failed (crash-*, leak-*) are replayed and reported
watchdog = [a for a in arts if os.path.basename(a).split("-")[0] in ("timeout", "oom")]
# (slow-unit-* files are libFuzzer's report of inputs that took longer than its reporting threshold, not failures)
slow = [a for a in arts if os.path.basename(a).startswith("slow-unit-")]
arts = [a for a in arts if a not in watchdog and a not in slow]
if slow:
    print(f"{prop} [libfuzzer/{target}]: {len(slow)} input(s) reported as slow units (machine load; not failures)")
if watchdog:
    print(f"{prop} [libfuzzer/{target}]: {len(watchdog)} input(s) stopped by libFuzzer's timeout / memory watchdog: inconclusive")
    rc = 2
for a in arts[:5]:
    q = subprocess.run([f"{harness}/target/checked/vcheck", prop, "--artifact", target, a], env=env, capture_output=True, text=True)
    print(q.stdout, end="")
    rc = 1
ev_path = f"{out}/evidence/{prop}.json"
try:
    ev = json.load(open(ev_path))
    ev["coverage"].setdefault("fuzz_campaigns", []).append({"engine": "libFuzzer (cargo-fuzz, AddressSanitizer, debug assertions on)", "target": target, "seed": seed, "runs_per_job": runs, "jobs": jobs, "executions": execs, "seed_corpus_files": n_seed, "corpus_files_after": len(os.listdir(corpus)), "artifacts": len(arts), "wall_s": round(time.time() - t0, 1)})
    ev["coverage"]["evaluations"] += execs
    if arts: ev["violations"] = ev.get("violations", 0) + len(arts)
    json.dump(ev, open(ev_path, "w"), indent=1)
except Exception as e:
    print("could not update evidence:", e)
print(f"{prop} [libfuzzer/{target}] seed={seed}: {execs} executions on {jobs} jobs, {len(arts)} artifacts, {time.time()-t0:.1f}s")
shutil.rmtree(work, ignore_errors=True)
sys.exit(rc)
