#!/usr/bin/env python3
"""Markdown table of the seeded changes and which checks caught them (from /verif/seeded/*/meta.json)."""
import glob, json, os
rows = []
for d in sorted(glob.glob("/verif/seeded/*/")):
    m = json.load(open(d + "meta.json"))
    if "confirmed_by_me" in m:
        c = m["confirmed_by_me"]
        conf = all(v for k, v in c.items() if k != "demo_output_tail")
    else:
        conf = bool(m.get("applied") and m.get("suite_passes_with_mutant"))
        if not m.get("applied") or not m.get("suite_passes_with_mutant"):
            continue
    caught = [k for k, v in m.get("checks_run_against_it", {}).items() if v["exit"] == 1]
    missed = [k for k, v in m["checks_run_against_it"].items() if v["exit"] == 0]
    other = [f"{k} (exit {v['exit']})" for k, v in m["checks_run_against_it"].items() if v["exit"] not in (0, 1)]
    s = (m.get("summary") or "").replace("|", "/").replace("\n", " ")
    if len(s) > 230: s = s[:227] + "…"
    rows.append(f"| {os.path.basename(d[:-1])} | {s} | {'yes' if conf else 'NO'} | {', '.join(caught) or '—'} | {', '.join(missed + other) or '—'} |")
print("| seeded change | what it does | confirmed (suite green, demo red/green) | quick checks that report a VIOLATION | run and silent |")
print("|---|---|---|---|---|")
print("\n".join(rows))
