#!/usr/bin/env python3
"""Maps rustc errors located in harness/vcat/src/generated.rs to the generated declarations they fall in (markers
`// @decl NAME`) and appends `NAME<TAB>first error line` to the exclusion file. Exit 0 if at least one new declaration was
found, 1 otherwise.   usage: exclude_failing_decls.py <build.log> <generated.rs> <exclude.tsv>"""
import re, sys
log, gen, out = sys.argv[1:4]
lines = open(gen, errors="replace").read().split("\n")
marks = [(i + 1, l[len("// @decl "):].strip()) for i, l in enumerate(lines) if l.startswith("// @decl ")]
def decl_at(n):
    name = None
    for ln, nm in marks:
        if ln <= n: name = nm
        else: break
    return name
text = open(log, errors="replace").read()
have = set()
try:
    have = {l.split("\t")[0] for l in open(out)}
except FileNotFoundError:
    pass
found = {}
cur = None
for l in text.split("\n"):
    m = re.match(r"^error(\[E\d+\])?: (.*)", l)
    if m: cur = (m.group(1) or "") + " " + m.group(2)
    m = re.search(r"--> vcat/src/generated\.rs:(\d+):", l)
    if m and cur:
        d = decl_at(int(m.group(1)))
        if d and d not in have and d not in found:
            found[d] = cur.strip()[:200].replace("\t", " ")
with open(out, "a") as f:
    for d, why in found.items():
        f.write(f"{d}\t{why}\n")
print("declarations that do not compile:", ", ".join(found) or "none")
sys.exit(0 if found else 1)
