#!/usr/bin/env python3
"""Confirms a seeded mutant (suite passes, demo fails with / passes without it) in its scratch worktree, then runs the
given checks against the mutated worktree (VERIF_REPO) and records everything under /verif/seeded/<id>/.
usage: seed_eval.py <PROP> <m1|m2|...> [checks...]   (default checks: the property itself)"""
import json, os, shutil, subprocess, sys, time

prop, mut = sys.argv[1], sys.argv[2]
checks = sys.argv[3:] or [prop]
rnd = os.environ.get("ROUND", "")   # "" = first round, "2" = second round of independent changes
wt = f"/tmp/wt{rnd}-{prop}"
src = f"/tmp/seed{rnd}-{prop}/{mut}"
dst = f"/verif/seeded/{prop}-{mut}" + (f"-r{rnd}" if rnd else "")
env = dict(os.environ, CARGO_NET_OFFLINE="true", TZ="UTC")

def run(cmd, cwd=None, timeout=3600, extra_env=None):
    e = dict(env); e.update(extra_env or {})
    t0 = time.time()
    p = subprocess.run(cmd, cwd=cwd, shell=True, capture_output=True, text=True, timeout=timeout, env=e)
    return p.returncode, p.stdout + p.stderr, time.time() - t0

meta = json.load(open(f"{src}/meta.json"))
demo_loc = meta.get("demo_location", "desert_core/tests/demo.rs").split()[0]
crate = demo_loc.split("/")[0]
demo_path = os.path.join(wt, demo_loc)
res = {"agent_meta": meta, "confirmed": {}, "checks": {}}

def clean():
    run("git checkout -- . ", cwd=wt)
    if os.path.exists(demo_path): os.remove(demo_path)
    d = os.path.dirname(demo_path)
    if os.path.isdir(d) and not os.listdir(d): os.rmdir(d)

clean()
# 1. demo passes on the clean tree
os.makedirs(os.path.dirname(demo_path), exist_ok=True)
shutil.copy(f"{src}/demo.rs", demo_path)
rc, out, _ = run(f"cargo test --offline -p {crate} --test demo", cwd=wt)
res["confirmed"]["demo_passes_without_mutant"] = (rc == 0)
# 2. apply; demo fails
rc, out, _ = run(f"git apply {src}/patch.diff", cwd=wt)
res["confirmed"]["patch_applies"] = (rc == 0)
rc, out, _ = run(f"cargo test --offline -p {crate} --test demo", cwd=wt)
res["confirmed"]["demo_fails_with_mutant"] = (rc != 0 and "error: could not compile" not in out)
res["confirmed"]["demo_output_tail"] = out[-600:]
# 3. suite passes with the mutant (demo removed)
os.remove(demo_path)
d = os.path.dirname(demo_path)
if os.path.isdir(d) and not os.listdir(d): os.rmdir(d)
rc, out, _ = run("cargo test --workspace --offline --no-fail-fast", cwd=wt)
res["confirmed"]["suite_passes_with_mutant"] = (rc == 0)
# 4. the checks against the mutated worktree
for c in checks:
    rc, out, dt = run(f"{os.environ.get('VERIF_SNAP', '/verif')}/check {c} quick", cwd=os.environ.get("VERIF_SNAP", "/verif"), extra_env={"VERIF_REPO": wt, "VERIF_SEED": "1"})
    lines = [l for l in out.splitlines() if l.startswith("VIOLATION") or l.startswith("violation") or "seed=" in l or "inconclusive" in l]
    res["checks"][c] = {"exit": rc, "seconds": round(dt, 1), "lines": [l[:400] for l in lines[:6]]}
clean()
os.makedirs(dst, exist_ok=True)
shutil.copy(f"{src}/patch.diff", f"{dst}/patch.diff")
shutil.copy(f"{src}/demo.rs", f"{dst}/demo.rs")
out_meta = {"property": prop, "mutant": mut, "summary": meta.get("summary"), "needs_to_manifest": meta.get("needs_to_manifest"), "demo_location": demo_loc,
            "confirmed_by_me": res["confirmed"], "checks_run_against_it": res["checks"],
            "how": "tools/seed_eval.py: demo on clean worktree, git apply, demo again, full suite, then ./check <ID> quick with VERIF_REPO=<worktree>, then reverted"}
json.dump(out_meta, open(f"{dst}/meta.json", "w"), indent=1)
print(json.dumps({"id": f"{prop}-{mut}" + (f"-r{rnd}" if rnd else ""), "confirmed": {k: v for k, v in res["confirmed"].items() if k != "demo_output_tail"}, "checks": {c: (r["exit"], r["seconds"]) for c, r in res["checks"].items()}}))
