#!/usr/bin/env python3
"""Deliberate breakages from DESIGN section 8, applied one at a time in a scratch worktree of /repo; each must keep
the repository's suite green; the listed checks are then run against it (quick tier). Results: /verif/seeded/own-*/."""
import json, os, subprocess, sys, time
WT = "/tmp/wt-own"
SNAP = os.environ.get("VERIF_SNAP", "/verif")
env = dict(os.environ, CARGO_NET_OFFLINE="true", TZ="UTC")
def run(cmd, cwd=None, extra=None, timeout=7200):
    e = dict(env); e.update(extra or {})
    p = subprocess.run(cmd, cwd=cwd, shell=True, capture_output=True, text=True, env=e, timeout=timeout)
    return p.returncode, p.stdout + p.stderr

M = [
 ("rc-decodes-twice", "C01", "desert_core/src/deserializer/mod.rs", "        Ok(Rc::new(T::deserialize(context)?))", "        let first = T::deserialize(context)?;\n        Ok(Rc::new(T::deserialize(context).unwrap_or(first)))", ["C01", "C07"], "Rc<T> reader decodes T a second time when more input follows"),
 ("opt-since-le", "C03", "desert_core/src/adt/deserializer.rs", "let result = if self.stored_version < opt_since {", "let result = if self.stored_version <= opt_since {", ["C03", "C02"], "read_optional_field: stored_version <= opt_since (bare value assumed one version too long)"),
 ("default-although-chunk-exists", "C03", "desert_core/src/adt/deserializer.rs", "            let field_position = self.record_field_index(chunk);\n            if self.stored_version < chunk {", "            let field_position = self.record_field_index(chunk);\n            if self.stored_version <= chunk && chunk > 0 {", ["C03", "C02"], "read_field returns the default although the data has the field's chunk"),
 ("u128-little-endian-both-sides", "C04", None, None, None, ["C04", "C01"], "u128 written and read little-endian (round trips keep working)"),
 ("unknown-length-any-nonzero-flag", "C06", "desert_core/src/deserializer/mod.rs", "            } => match Option::<T>::deserialize(context) {\n                Ok(Some(item)) => Some(Ok(item)),\n                Ok(None) => None,\n                Err(err) => Some(Err(err)),\n            },", "            } => match context.read_u8() {\n                Ok(0) => None,\n                Ok(_) => Some(T::deserialize(context)),\n                Err(err) => Some(Err(err)),\n            },", ["C06", "C04"], "unknown-length item flag: any non-zero byte means 'item'"),
 ("read-bytes-returns-available-prefix", "C08", "desert_core/src/deserializer/mod.rs", "    fn read_bytes(&mut self, count: usize) -> Result<&[u8]> {\n        if count > self.current.end - (self.current.start + self.current.pos) {\n            Err(Error::InputEndedUnexpectedly)\n        } else {", "    fn read_bytes(&mut self, count: usize) -> Result<&[u8]> {\n        let available = self.current.end - (self.current.start + self.current.pos);\n        if count > available && (available == 0 || count <= 16) {\n            Err(Error::InputEndedUnexpectedly)\n        } else if count > available {\n            let start = self.current.start + self.current.pos;\n            self.current.pos += available;\n            Ok(&self.input[start..start + available])\n        } else {", ["C08", "C15", "C05"], "DeserializationContext::read_bytes hands out the available prefix for long reads that overrun"),
 ("string-ids-from-zero", "C09", "desert_core/src/state.rs", "            Entry::Vacant(entry) => {\n                self.last_string_id.next();\n                let id = self.last_string_id;\n                self.strings_by_id.insert(id, entry.key().clone());", "            Entry::Vacant(entry) => {\n                let id = self.last_string_id;\n                self.last_string_id.next();\n                self.strings_by_id.insert(id, entry.key().clone());", ["C09", "C02"], "string ids start at 0 on both sides"),
 ("varint-fifth-byte-continuation", "C11", "desert_core/src/binary_output.rs", "                ((value >> 21) | 0x80) as u8,\n                (value >> 28) as u8,", "                ((value >> 21) | 0x80) as u8,\n                ((value >> 28) | 0x80) as u8,", ["C11", "C04"], "5th varint byte keeps the continuation bit (readers ignore it)"),
 ("slice-count-as-var-u32", "C12", "desert_core/src/serializer/mod.rs", "            context.write_bytes(byte_slice);\n        } else {\n            context.write_var_i32(self.len().try_into()?);\n            for elem in self {\n                elem.serialize(context)?;\n            }\n        }\n        Ok(())\n    }\n}\n\nimpl<T: BinarySerializer, const L: usize>", "            context.write_bytes(byte_slice);\n        } else {\n            context.write_var_u32(self.len().try_into()?);\n            for elem in self {\n                elem.serialize(context)?;\n            }\n        }\n        Ok(())\n    }\n}\n\nimpl<T: BinarySerializer, const L: usize>", ["C12", "C04"], "[T] slices write their count as var-u32 instead of var-i32"),
 ("size-calculator-empty-slices", "C15", "desert_core/src/binary_output.rs", "    fn write_bytes(&mut self, bytes: &[u8]) {\n        self.size += bytes.len();\n    }", "    fn write_bytes(&mut self, bytes: &[u8]) {\n        self.size += bytes.len().max(1);\n    }", ["C15"], "SizeCalculator counts an empty write_bytes as one byte"),
 ("iterator-length-unwrap", "C17", "desert_core/src/serializer/mod.rs", "            context.write_var_i32(min.try_into()?);\n            for item in iter {", "            context.write_var_i32(min.try_into().unwrap());\n            for item in iter {", ["C17"], "serialize_iterator unwraps the usize -> i32 conversion of the length"),
 ("core-option-not-detected", "C02", "desert_macro/src/lib.rs", "                    || idents == vec![\"core\", \"option\", \"Option\"]\n", "", ["C02", "C03"], "macro no longer recognises core::option::Option as optional"),
 ("revert-F3", "C19", "REVERT:f735f47", None, None, ["C19", "C06", "C12"], "the [T; N] count fix reverted (uninitialised elements / unread items)"),
 ("revert-F5", "C06", "REVERT:aa980e5", None, None, ["C06", "C05"], "the region-bound fix reverted"),
 ("revert-F10", "C09", "REVERT:d5514cd", None, None, ["C09", "C02", "C04"], "the string-id order fix reverted"),
]

run(f"git -C /repo worktree remove --force {WT}; rm -rf {WT}; git -C /repo worktree add --detach {WT} HEAD")
only = sys.argv[1:]
for name, prop, path, old, new, checks, summary in M:
    if only and name not in only: continue
    run("git checkout -- .", cwd=WT)
    ok = True
    if path is None and name == "u128-little-endian-both-sides":
        for f, a, b in [("desert_core/src/binary_output.rs", "    fn write_u128(&mut self, value: u128) {\n        self.write_bytes(&value.to_be_bytes())", "    fn write_u128(&mut self, value: u128) {\n        self.write_bytes(&value.to_le_bytes())"), ("desert_core/src/binary_input.rs", "        Ok(u128::from_be_bytes(bytes.try_into()?))", "        Ok(u128::from_le_bytes(bytes.try_into()?))")]:
            s = open(f"{WT}/{f}").read(); ok &= s.count(a) == 1; open(f"{WT}/{f}", "w").write(s.replace(a, b))
    elif path.startswith("REVERT:"):
        rc, out = run(f"git revert --no-commit {path.split(':')[1]}", cwd=WT); ok = rc == 0
        run("git reset -q", cwd=WT)
    else:
        s = open(f"{WT}/{path}").read(); ok = s.count(old) == 1
        open(f"{WT}/{path}", "w").write(s.replace(old, new))
    res = {"property": prop, "mutant": name, "summary": summary, "origin": "DESIGN section 8 (written by the harness author, not by a sub-agent)", "applied": ok}
    if ok:
        rc, out = run("cargo test --workspace --offline --no-fail-fast", cwd=WT)
        res["suite_passes_with_mutant"] = rc == 0
        res["checks_run_against_it"] = {}
        if rc == 0:
            for c in checks:
                t0 = time.time()
                rc2, out2 = run(f"{SNAP}/check {c} quick", cwd=SNAP, extra={"VERIF_REPO": WT, "VERIF_SEED": "1"})
                lines = [l[:300] for l in out2.splitlines() if l.startswith("violation") or "seed=" in l][:4]
                res["checks_run_against_it"][c] = {"exit": rc2, "seconds": round(time.time() - t0, 1), "lines": lines}
    d = f"/verif/seeded/own-{name}"; os.makedirs(d, exist_ok=True)
    _, diff = run("git diff", cwd=WT); open(f"{d}/patch.diff", "w").write(diff)
    json.dump(res, open(f"{d}/meta.json", "w"), indent=1)
    print(json.dumps({"id": name, "applied": ok, "suite": res.get("suite_passes_with_mutant"), "checks": {c: v["exit"] for c, v in res.get("checks_run_against_it", {}).items()}}), flush=True)
run("git checkout -- .", cwd=WT)
run(f"git -C /repo worktree remove --force {WT}; rm -rf {WT}")
