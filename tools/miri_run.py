#!/usr/bin/env python3
"""Thorough tier of C19: the deterministic corpus of harness/miri_paths under `cargo +nightly miri run`.
Undefined behaviour reported by Miri is a violation; anything else that goes wrong is inconclusive (exit 2)."""
import json, os, re, subprocess, sys, time
prop = sys.argv[1]
harness = os.environ["VERIF_HARNESS"]; out = os.environ["VERIF_OUT"]
env = dict(os.environ, CARGO_NET_OFFLINE="true", MIRIFLAGS="-Zmiri-disable-isolation")
t0 = time.time()
p = subprocess.run(["cargo", "+nightly", "miri", "run"], cwd=f"{harness}/miri_paths", env=env, capture_output=True, text=True)
text = p.stdout + p.stderr
m = re.search(r"miri_paths: (\d+) decodes executed", text)
rc = 0
if "Undefined Behavior" in text:
    os.makedirs(f"{out}/replays/{prop}", exist_ok=True)
    path = f"{out}/replays/{prop}/miri.json"
    i = text.index("Undefined Behavior")
    json.dump({"property": prop, "engine": "miri", "what": text[max(0, i - 200): i + 1500], "case": {"miri": "cd harness/miri_paths && cargo +nightly miri run"}}, open(path, "w"), indent=1)
    print("violation (miri):", text[i:i + 300].replace("\n", " "))
    print(f"VIOLATION property={prop} replay={path}")
    rc = 1
elif p.returncode != 0 or not m:
    print(text[-1500:]); print("miri run failed: inconclusive"); rc = 2
try:
    ev_path = f"{out}/evidence/{prop}.json"
    ev = json.load(open(ev_path))
    ev["coverage"]["miri"] = {"cmd": "cargo +nightly miri run (harness/miri_paths)", "decodes_executed": int(m.group(1)) if m else 0, "undefined_behaviour_reports": 1 if rc == 1 else 0, "wall_s": round(time.time() - t0, 1)}
    if m: ev["coverage"]["evaluations"] += int(m.group(1))
    json.dump(ev, open(ev_path, "w"), indent=1)
except Exception as e:
    print("could not update evidence:", e)
print(f"{prop} [miri]: {m.group(1) if m else '?'} decodes, rc={rc}, {time.time()-t0:.1f}s")
sys.exit(rc)
