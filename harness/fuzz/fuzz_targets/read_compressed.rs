#![no_main]
use desert::{BinaryInput, DeserializationContext, OwnedInput, SliceInput};
use libfuzzer_sys::fuzz_target;

// C16: a damaged frame gives Ok or Err on all three sources, identically; no panic, no sanitizer report; the
// allocation bound is enforced by libFuzzer's -malloc_limit_mb
fuzz_target!(|data: &[u8]| {
    let a = SliceInput::new(data).read_compressed().map_err(|_| ());
    let b = OwnedInput::new(data.to_vec()).read_compressed().map_err(|_| ());
    let c = DeserializationContext::new(data).read_compressed().map_err(|_| ());
    assert_eq!(a, b);
    assert_eq!(a, c);
});
