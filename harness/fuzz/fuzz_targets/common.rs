// shared by the targets (included, not a crate): the C05 / C06 oracles inside the fuzz target
use vmodel::refcodec::{ref_decode, DecErr};
use vmodel::{canon, Ty};

/// decode `data` as `ty`: no unwind / sanitizer report (C05), and Ok(v) implies the reference decoder's Ok(v) (C06)
pub fn oracle(ty: &Ty, data: &[u8]) {
    let reference = ref_decode(ty, data);
    // known findings F12 / F13 are outside the quantifier
    if let Err(DecErr::ZeroWidthFlood(_)) | Err(DecErr::TooDeep) = &reference {
        return;
    }
    match vcat::decode(ty, data) {
        Ok(v) => match reference {
            Ok((rv, _)) => {
                if canon(ty, &v) != canon(ty, &rv) {
                    panic!("C06: {} decoded {} to {:?} but the format assigns {:?}", ty.render(), vmodel::hex(data), v, rv);
                }
            }
            Err(e) => panic!("C06: {} accepted {} as {:?} although the reference decoder rejects it: {e:?}", ty.render(), vmodel::hex(data), v),
        },
        Err(_) => {}
    }
}
