#![no_main]
use libfuzzer_sys::fuzz_target;
use std::sync::OnceLock;
include!("common.rs");

fn types() -> &'static Vec<Ty> {
    static T: OnceLock<Vec<Ty>> = OnceLock::new();
    T.get_or_init(|| vcat::fuzz_types("decode_any"))
}

fuzz_target!(|data: &[u8]| {
    if let Some((ty, rest)) = vcat::fuzz_select(types(), data) {
        oracle(ty, rest);
    }
});
