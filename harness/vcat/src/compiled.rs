//! Compiled (derive-macro) declarations. The list is produced by `vgen` into `generated.rs`.
include!("generated.rs");
