//! Compiled (derive-macro) declarations. The list is produced by `vgen` into `generated.rs`.
#[allow(unused_variables, non_camel_case_types, dead_code, clippy::all)]
mod generated {
    include!("generated.rs");
}
pub use generated::*;
