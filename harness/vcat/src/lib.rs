//! Bridge between the model (`vmodel`) and the code under test (`desert`, built from /repo).
pub mod compiled;
pub mod conv;
pub mod statics;
pub mod dynrec;
pub mod live;

pub use live::Live;
use vmodel::{ErrInfo, Ty, Val};

pub fn errinfo(e: &desert::Error) -> ErrInfo {
    use desert::Error::*;
    let kind = match e {
        UnsupportedCharacter(_) => "UnsupportedCharacter",
        FailedToDecodeCharacter(_) => "FailedToDecodeCharacter",
        LengthTooLarge => "LengthTooLarge",
        InvalidTimeZone(_) => "InvalidTimeZone",
        InputEndedUnexpectedly => "InputEndedUnexpectedly",
        CompressionFailure(_) => "CompressionFailure",
        DecompressionFailure(_) => "DecompressionFailure",
        FailedToDecodeString(_) => "FailedToDecodeString",
        InvalidStringId(_) => "InvalidStringId",
        DeserializationFailure(_) => "DeserializationFailure",
        UnknownFieldReferenceInEvolutionStep(_) => "UnknownFieldReferenceInEvolutionStep",
        InvalidConstructorName { .. } => "InvalidConstructorName",
        DeserializingNonExistingChunk(_) => "DeserializingNonExistingChunk",
        FieldRemovedInSerializedVersion(_) => "FieldRemovedInSerializedVersion",
        FieldWithoutDefaultValueIsMissing(_) => "FieldWithoutDefaultValueIsMissing",
        NonOptionalFieldSerializedAsNone(_) => "NonOptionalFieldSerializedAsNone",
        InvalidRefId(_) => "InvalidRefId",
        InvalidConstructorId { .. } => "InvalidConstructorId",
        DeserializingTransientConstructor { .. } => "DeserializingTransientConstructor",
        SerializingTransientConstructor { .. } => "SerializingTransientConstructor",
    };
    ErrInfo { kind: kind.to_string(), detail: format!("{e:?}") }
}

/// Builds the real value, serializes it with `serialize_to_byte_vec`, and reports the value *as that instance
/// presents it* (hash containers in this instance's iteration order — DESIGN §4.6).
pub fn encode(ty: &Ty, v: &Val) -> (Result<Vec<u8>, ErrInfo>, Val) {
    live::reset_tls();
    let l = Live::from_val(ty, v);
    let as_written = l.to_val();
    (desert::serialize_to_byte_vec(&l).map_err(|e| errinfo(&e)), as_written)
}

pub fn decode(ty: &Ty, bytes: &[u8]) -> Result<Val, ErrInfo> {
    live::decode(ty, bytes).map(|l| l.to_val()).map_err(|e| errinfo(&e))
}

/// as `encode`, through `serialize_to_bytes`
pub fn encode_via_bytes(ty: &Ty, v: &Val) -> (Result<Vec<u8>, ErrInfo>, Val) {
    live::reset_tls();
    let l = Live::from_val(ty, v);
    let as_written = l.to_val();
    (desert::serialize_to_bytes(&l).map(|b| b.to_vec()).map_err(|e| errinfo(&e)), as_written)
}

// ------------------------------------------------------------------------------------------------
// sinks (C15)

/// user-defined output: records the byte stream; `bytewise` forwards `write_bytes` as single-byte writes
pub struct Recording {
    pub bytes: Vec<u8>,
    pub calls: usize,
    pub bytewise: bool,
}
impl desert::BinaryOutput for Recording {
    fn write_u8(&mut self, value: u8) {
        self.calls += 1;
        self.bytes.push(value);
    }
    fn write_bytes(&mut self, bytes: &[u8]) {
        if self.bytewise {
            for b in bytes {
                self.write_u8(*b);
            }
        } else {
            self.calls += 1;
            self.bytes.extend_from_slice(bytes);
        }
    }
}

pub struct SinkReport {
    pub as_written: Val,
    /// (sink name, bytes or error)
    pub outputs: Vec<(&'static str, Result<Vec<u8>, ErrInfo>)>,
    pub size: Result<usize, ErrInfo>,
}

/// the *same instance* is serialized to every sink
pub fn encode_all_sinks(ty: &Ty, v: &Val) -> SinkReport {
    live::reset_tls();
    let l = Live::from_val(ty, v);
    let as_written = l.to_val();
    let e = |r: desert::Result<Vec<u8>>| r.map_err(|e| errinfo(&e));
    let mut outputs = Vec::new();
    outputs.push(("serialize(Vec<u8>)", e(desert::serialize(&l, Vec::new()))));
    outputs.push(("serialize(BytesMut)", e(desert::serialize(&l, bytes::BytesMut::new()).map(|b| b.to_vec()))));
    outputs.push(("serialize_to_bytes", e(desert::serialize_to_bytes(&l).map(|b| b.to_vec()))));
    outputs.push(("serialize_to_byte_vec", e(desert::serialize_to_byte_vec(&l))));
    outputs.push(("serialize(Recording)", e(desert::serialize(&l, Recording { bytes: vec![], calls: 0, bytewise: false }).map(|r| r.bytes))));
    outputs.push(("serialize(Recording bytewise)", e(desert::serialize(&l, Recording { bytes: vec![], calls: 0, bytewise: true }).map(|r| r.bytes))));
    let size = desert::serialize(&l, desert::SizeCalculator::new()).map(|s| s.size()).map_err(|e| errinfo(&e));
    SinkReport { as_written, outputs, size }
}

// ------------------------------------------------------------------------------------------------
// C07: what is left unread

fn drain(ctx: &mut desert::DeserializationContext<'_>) -> Vec<u8> {
    use desert::BinaryInput;
    let mut rest = Vec::new();
    while let Ok(b) = ctx.read_u8() {
        rest.push(b);
    }
    rest
}

/// decodes one value from the front of `bytes` through a caller-owned context and returns what is still readable
pub fn decode_with_rest(ty: &Ty, bytes: &[u8]) -> (Result<Val, ErrInfo>, Vec<u8>) {
    live::reset_tls();
    let mut ctx = desert::DeserializationContext::new(bytes);
    let r = live::decode_in(ty, &mut ctx).map(|l| l.to_val()).map_err(|e| errinfo(&e));
    let rest = drain(&mut ctx);
    (r, rest)
}

/// several values written back to back into one SerializationContext; also returns the values as the serialized
/// instances present them (hash / ordered containers in their own iteration order)
pub fn encode_many_written(items: &[(Ty, Val)]) -> (Result<Vec<u8>, ErrInfo>, Vec<Val>) {
    use desert::BinarySerializer;
    live::reset_tls();
    let mut ctx = desert::SerializationContext::new(Vec::new());
    let mut written = Vec::new();
    for (ty, v) in items {
        let l = Live::from_val(ty, v);
        written.push(l.to_val());
        if let Err(e) = l.serialize(&mut ctx) {
            return (Err(errinfo(&e)), written);
        }
    }
    (Ok(ctx.into_output()), written)
}

pub fn encode_many(items: &[(Ty, Val)]) -> Result<Vec<u8>, ErrInfo> {
    encode_many_written(items).0
}

pub fn decode_many(tys: &[Ty], bytes: &[u8]) -> (Vec<Result<Val, ErrInfo>>, Vec<u8>) {
    live::reset_tls();
    let mut ctx = desert::DeserializationContext::new(bytes);
    let mut out = Vec::new();
    for ty in tys {
        let r = live::decode_in(ty, &mut ctx).map(|l| l.to_val()).map_err(|e| errinfo(&e));
        let failed = r.is_err();
        out.push(r);
        if failed {
            break;
        }
    }
    let rest = drain(&mut ctx);
    (out, rest)
}

// ------------------------------------------------------------------------------------------------
// C12: the writer's own unknown-length form

/// `serialize_iterator` over an iterator whose size hint is inexact
pub fn encode_iter_unknown(elem: &Ty, xs: &[Val]) -> Result<Vec<u8>, ErrInfo> {
    encode_iter_hint(elem, xs, 0, None)
}

/// `serialize_iterator` over an iterator that reports the size hint `(lo, hi)` (inexact unless `hi == Some(lo)`)
pub fn encode_iter_hint(elem: &Ty, xs: &[Val], lo: usize, hi: Option<usize>) -> Result<Vec<u8>, ErrInfo> {
    live::reset_tls();
    let items: Vec<Live> = xs.iter().map(|x| Live::from_val(elem, x)).collect();
    let mut ctx = desert::SerializationContext::new(Vec::new());
    let mut it = Inexact(items.iter(), lo, hi);
    desert::serialize_iterator(&mut it, &mut ctx).map_err(|e| errinfo(&e))?;
    Ok(ctx.into_output())
}

/// as `encode_iter_hint`, also returning the items as the serialized instances present them
pub fn encode_iter_hint_written(elem: &Ty, xs: &[Val], lo: usize, hi: Option<usize>) -> (Result<Vec<u8>, ErrInfo>, Vec<Val>) {
    live::reset_tls();
    let items: Vec<Live> = xs.iter().map(|x| Live::from_val(elem, x)).collect();
    let written = items.iter().map(|l| l.to_val()).collect();
    let mut ctx = desert::SerializationContext::new(Vec::new());
    let mut it = Inexact(items.iter(), lo, hi);
    let r = desert::serialize_iterator(&mut it, &mut ctx).map_err(|e| errinfo(&e));
    (r.map(|_| ctx.into_output()), written)
}

/// deduplicated strings written one by one, then a run of them through `serialize_iterator` from an iterator with the
/// size hint (lo, hi), then more of them one by one: all through ONE context. Returns the bytes and what a reader gets
/// back from them (three groups), reading the middle group as Vec<DeduplicatedString>.
#[allow(clippy::type_complexity)]
pub fn dedup_around_iterator(before: &[String], inner: &[String], after: &[String], lo: usize, hi: Option<usize>) -> Result<(Vec<u8>, Result<(Vec<String>, Vec<String>, Vec<String>), ErrInfo>), ErrInfo> {
    use desert::{BinaryDeserializer, BinarySerializer, DeduplicatedString as DS};
    live::reset_tls();
    let mut ctx = desert::SerializationContext::new(Vec::new());
    let e = |x: desert::Error| errinfo(&x);
    for s in before {
        DS(s.clone()).serialize(&mut ctx).map_err(e)?;
    }
    let items: Vec<DS> = inner.iter().map(|s| DS(s.clone())).collect();
    let mut it = Inexact(items.iter(), lo, hi);
    desert::serialize_iterator(&mut it, &mut ctx).map_err(e)?;
    for s in after {
        DS(s.clone()).serialize(&mut ctx).map_err(e)?;
    }
    let bytes = ctx.into_output();
    let back = (|| {
        let mut dc = desert::DeserializationContext::new(&bytes);
        let mut b = Vec::new();
        for _ in before {
            b.push(DS::deserialize(&mut dc)?.0);
        }
        let m: Vec<String> = Vec::<DS>::deserialize(&mut dc)?.into_iter().map(|d| d.0).collect();
        let mut a = Vec::new();
        for _ in after {
            a.push(DS::deserialize(&mut dc)?.0);
        }
        Ok::<_, desert::Error>((b, m, a))
    })()
    .map_err(e);
    Ok((bytes, back))
}

/// iterator adaptor that admits it does not know its length
struct Inexact<I>(I, usize, Option<usize>);
impl<I: Iterator> Iterator for Inexact<I> {
    type Item = I::Item;
    fn next(&mut self) -> Option<I::Item> {
        self.0.next()
    }
    fn size_hint(&self) -> (usize, Option<usize>) {
        (self.1, self.2)
    }
}

/// size of the harness element type that every generic container is instantiated at (C05 allocation bound)
pub const LIVE_SIZE: usize = std::mem::size_of::<Live>();

/// decode only (no conversion to `Val`): what the allocation / time budget of C05 is measured around
pub fn prepare(ty: &Ty) {
    live::reset_tls();
    dynrec::prepare(ty);
}

pub fn decode_only(ty: &Ty, bytes: &[u8]) -> Result<Live, ErrInfo> {
    live::decode(ty, bytes).map_err(|e| errinfo(&e))
}

/// the type list a libFuzzer target selects from with its first two input bytes (shared with vcheck's replay)
pub fn fuzz_types(target: &str) -> Vec<Ty> {
    match target {
        "decode_unsafe_paths" => vmodel::typelists::unsafe_path_types(),
        _ => {
            let mut v = vmodel::typelists::exhaustive_types();
            // compiled (derive-macro) declarations, except the recursive ones (known finding F13: unbounded recursion)
            let (seed, nh, nf) = compiled::GENERATED_PARAMS;
            for d in vmodel::declgen::compiled_batch(seed, nh, nf).all() {
                let t = Ty::Adt(d);
                if compiled::is_compiled(match &t { Ty::Adt(d) => &d.name, _ => unreachable!() }) && !t.any(&|x| matches!(x, Ty::Rec(_))) {
                    v.push(t);
                }
            }
            v
        }
    }
}

pub fn fuzz_select<'a>(types: &'a [Ty], data: &'a [u8]) -> Option<(&'a Ty, &'a [u8])> {
    if data.len() < 2 {
        return None;
    }
    let sel = u16::from_le_bytes([data[0], data[1]]) as usize;
    Some((&types[sel % types.len()], &data[2..]))
}

/// see `dynrec::read_fields_tolerantly`
pub fn decode_tolerantly(ty: &Ty, bytes: &[u8]) -> Vec<String> {
    live::reset_tls();
    match ty {
        Ty::Adt(d) => {
            let _g = live::DeclGuard::push(d.clone());
            let mut ctx = desert::DeserializationContext::new(bytes);
            dynrec::read_fields_tolerantly(d, &mut ctx)
        }
        _ => vec!["not a declaration".into()],
    }
}

/// a sequence written through `serialize_iterator` (size hint `(lo, hi)`) followed by another value, in one stream
pub fn encode_iter_then(elem: &Ty, xs: &[Val], lo: usize, hi: Option<usize>, next: &(Ty, Val)) -> Result<Vec<u8>, ErrInfo> {
    use desert::BinarySerializer;
    live::reset_tls();
    let items: Vec<Live> = xs.iter().map(|x| Live::from_val(elem, x)).collect();
    let mut ctx = desert::SerializationContext::new(Vec::new());
    let mut it = Inexact(items.iter(), lo, hi);
    desert::serialize_iterator(&mut it, &mut ctx).map_err(|e| errinfo(&e))?;
    Live::from_val(&next.0, &next.1).serialize(&mut ctx).map_err(|e| errinfo(&e))?;
    Ok(ctx.into_output())
}
