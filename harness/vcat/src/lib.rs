//! Bridge between the model (`vmodel`) and the code under test (`desert`, built from /repo).
pub mod compiled;
pub mod dynrec;
pub mod live;

pub use live::Live;
use vmodel::{ErrInfo, Ty, Val};

pub fn errinfo(e: &desert::Error) -> ErrInfo {
    use desert::Error::*;
    let kind = match e {
        UnsupportedCharacter(_) => "UnsupportedCharacter",
        FailedToDecodeCharacter(_) => "FailedToDecodeCharacter",
        LengthTooLarge => "LengthTooLarge",
        InvalidTimeZone(_) => "InvalidTimeZone",
        InputEndedUnexpectedly => "InputEndedUnexpectedly",
        CompressionFailure(_) => "CompressionFailure",
        DecompressionFailure(_) => "DecompressionFailure",
        FailedToDecodeString(_) => "FailedToDecodeString",
        InvalidStringId(_) => "InvalidStringId",
        DeserializationFailure(_) => "DeserializationFailure",
        UnknownFieldReferenceInEvolutionStep(_) => "UnknownFieldReferenceInEvolutionStep",
        InvalidConstructorName { .. } => "InvalidConstructorName",
        DeserializingNonExistingChunk(_) => "DeserializingNonExistingChunk",
        FieldRemovedInSerializedVersion(_) => "FieldRemovedInSerializedVersion",
        FieldWithoutDefaultValueIsMissing(_) => "FieldWithoutDefaultValueIsMissing",
        NonOptionalFieldSerializedAsNone(_) => "NonOptionalFieldSerializedAsNone",
        InvalidRefId(_) => "InvalidRefId",
        InvalidConstructorId { .. } => "InvalidConstructorId",
        DeserializingTransientConstructor { .. } => "DeserializingTransientConstructor",
        SerializingTransientConstructor { .. } => "SerializingTransientConstructor",
    };
    ErrInfo { kind: kind.to_string(), detail: format!("{e:?}") }
}

/// Builds the real value, serializes it with `serialize_to_byte_vec`, and reports the value *as that instance
/// presents it* (hash containers in this instance's iteration order — DESIGN §4.6).
pub fn encode(ty: &Ty, v: &Val) -> (Result<Vec<u8>, ErrInfo>, Val) {
    live::reset_tls();
    let l = Live::from_val(ty, v);
    let as_written = l.to_val();
    (desert::serialize_to_byte_vec(&l).map_err(|e| errinfo(&e)), as_written)
}

pub fn decode(ty: &Ty, bytes: &[u8]) -> Result<Val, ErrInfo> {
    live::decode(ty, bytes).map(|l| l.to_val()).map_err(|e| errinfo(&e))
}

/// as `encode`, through `serialize_to_bytes`
pub fn encode_via_bytes(ty: &Ty, v: &Val) -> (Result<Vec<u8>, ErrInfo>, Val) {
    live::reset_tls();
    let l = Live::from_val(ty, v);
    let as_written = l.to_val();
    (desert::serialize_to_bytes(&l).map(|b| b.to_vec()).map_err(|e| errinfo(&e)), as_written)
}
