//! The built-in codecs at real static types (see vcheck props::builtin::check_static): a table of concrete Rust types,
//! each with its model type and a function that encodes and decodes a model value at that type.
use std::sync::Arc;
use vmodel::{Ty, Val};

fn hex(b: &[u8]) -> String {
    b.iter().map(|x| format!("{x:02x}")).collect()
}

pub type StaticFn = fn(&Val) -> Result<(Vec<u8>, Val), String>;

fn static_entry<T: crate::conv::Conv + desert::BinarySerializer + desert::BinaryDeserializer>(v: &Val) -> Result<(Vec<u8>, Val), String> {
    let x = T::from_val(v);
    let bytes = desert::serialize_to_byte_vec(&x).map_err(|e| format!("encode: {e:?}"))?;
    let back: T = desert::deserialize(&bytes).map_err(|e| format!("decode of {}: {e:?}", hex(&bytes)))?;
    Ok((bytes, back.to_val()))
}

/// every way of encoding one value: name of the way, bytes or error kind (the size calculator yields that many zeros)
pub type SinksFn = fn(&Val) -> Vec<(&'static str, Result<Vec<u8>, String>)>;

fn static_sinks<T: crate::conv::Conv + desert::BinarySerializer>(v: &Val) -> Vec<(&'static str, Result<Vec<u8>, String>)> {
    let x = T::from_val(v);
    let e = |r: desert::Result<Vec<u8>>| r.map_err(|e| crate::errinfo(&e).kind);
    vec![
        ("serialize(Vec<u8>)", e(desert::serialize(&x, Vec::new()))),
        ("serialize(BytesMut)", e(desert::serialize(&x, bytes::BytesMut::new()).map(|b| b.to_vec()))),
        ("serialize_to_bytes", e(desert::serialize_to_bytes(&x).map(|b| b.to_vec()))),
        ("serialize_to_byte_vec", e(desert::serialize_to_byte_vec(&x))),
        ("serialize(Recording)", e(desert::serialize(&x, crate::Recording { bytes: vec![], calls: 0, bytewise: false }).map(|r| r.bytes))),
        ("SizeCalculator (that many zero bytes)", e(desert::serialize(&x, desert::SizeCalculator::new()).map(|s| vec![0u8; s.size()]))),
    ]
}

/// the same table with the all-sinks function (C15)
pub fn static_sink_types() -> Vec<(&'static str, Ty, SinksFn)> {
    static_table().into_iter().map(|(n, t, _, s)| (n, t, s)).collect()
}

pub fn static_types() -> Vec<(&'static str, Ty, StaticFn)> {
    static_table().into_iter().map(|(n, t, f, _)| (n, t, f)).collect()
}

fn static_table() -> Vec<(&'static str, Ty, StaticFn, SinksFn)> {
    use std::collections::{BTreeMap, HashMap, HashSet, LinkedList};
    let a = |t: Ty| Arc::new(t);
    macro_rules! st {
        ($t:ty, $ty:expr) => {
            (stringify!($t), $ty, static_entry::<$t> as StaticFn, static_sinks::<$t> as SinksFn)
        };
    }
    vec![
        st!(String, Ty::Str),
        st!(Vec<String>, Ty::Vec(a(Ty::Str))),
        st!(Vec<u32>, Ty::Vec(a(Ty::U32))),
        st!(Vec<i8>, Ty::Vec(a(Ty::I8))),
        st!(Vec<u16>, Ty::Vec(a(Ty::U16))),
        st!(Vec<u64>, Ty::Vec(a(Ty::U64))),
        st!(Vec<bool>, Ty::Vec(a(Ty::Bool))),
        st!(Vec<char>, Ty::Vec(a(Ty::Char))),
        st!(Vec<f64>, Ty::Vec(a(Ty::F64))),
        st!(Vec<()>, Ty::Vec(a(Ty::Unit))),
        st!(Vec<Option<u8>>, Ty::Vec(a(Ty::Option(a(Ty::U8))))),
        st!(Vec<Vec<u8>>, Ty::Vec(a(Ty::Bytes))),
        st!(Vec<Vec<String>>, Ty::Vec(a(Ty::Vec(a(Ty::Str))))),
        st!(Vec<(String, u8)>, Ty::Vec(a(Ty::Tuple(vec![Ty::Str, Ty::U8])))),
        st!(Option<String>, Ty::Option(a(Ty::Str))),
        st!(Option<Vec<u8>>, Ty::Option(a(Ty::Bytes))),
        st!(Option<Option<u8>>, Ty::Option(a(Ty::Option(a(Ty::U8))))),
        st!((String, u8), Ty::Tuple(vec![Ty::Str, Ty::U8])),
        st!((u8, String), Ty::Tuple(vec![Ty::U8, Ty::Str])),
        st!(Result<u8, String>, Ty::Result(a(Ty::U8), a(Ty::Str))),
        st!(Box<String>, Ty::Box(a(Ty::Str))),
        st!(Box<Vec<u16>>, Ty::Box(a(Ty::Vec(a(Ty::U16))))),
        st!(LinkedList<String>, Ty::LinkedList(a(Ty::Str))),
        st!(LinkedList<f64>, Ty::LinkedList(a(Ty::F64))),
        st!(HashSet<String>, Ty::HashSet(a(Ty::Str))),
        st!(HashSet<u32>, Ty::HashSet(a(Ty::U32))),
        st!(BTreeMap<String, u8>, Ty::BTreeMap(a(Ty::Str), a(Ty::U8))),
        st!(BTreeMap<u8, String>, Ty::BTreeMap(a(Ty::U8), a(Ty::Str))),
        st!(BTreeMap<String, String>, Ty::BTreeMap(a(Ty::Str), a(Ty::Str))),
        st!(HashMap<String, u8>, Ty::HashMap(a(Ty::Str), a(Ty::U8))),
        st!(HashMap<u32, String>, Ty::HashMap(a(Ty::U32), a(Ty::Str))),
        st!(HashMap<String, Vec<String>>, Ty::HashMap(a(Ty::Str), a(Ty::Vec(a(Ty::Str))))),
        st!([u16; 3], Ty::Array(a(Ty::U16), 3)),
        st!([String; 2], Ty::Array(a(Ty::Str), 2)),
        st!([u8; 4], Ty::Array(a(Ty::U8), 4)),
        st!(std::time::Duration, Ty::Duration),
        st!(uuid::Uuid, Ty::Uuid),
        st!(Vec<uuid::Uuid>, Ty::Vec(a(Ty::Uuid))),
        st!(Vec<chrono::NaiveDate>, Ty::Vec(a(Ty::NaiveDate))),
        st!(Vec<bigdecimal::num_bigint::BigInt>, Ty::Vec(a(Ty::BigInt))),
        // types without any size in memory whose encoding is NOT empty, and the two whose encoding is
        st!(((),), Ty::Tuple(vec![Ty::Unit])),
        st!([u32; 0], Ty::Array(a(Ty::U32), 0)),
        st!([(); 3], Ty::Array(a(Ty::Unit), 3)),
        st!(Vec<((),)>, Ty::Vec(a(Ty::Tuple(vec![Ty::Unit])))),
        st!((), Ty::Unit),
        // sequences of every fixed-width primitive (a char is four bytes in memory and two on the wire)
        st!([char; 3], Ty::Array(a(Ty::Char), 3)),
        st!(Vec<i16>, Ty::Vec(a(Ty::I16))),
        st!(Vec<i32>, Ty::Vec(a(Ty::I32))),
        st!(Vec<i64>, Ty::Vec(a(Ty::I64))),
        st!(Vec<i128>, Ty::Vec(a(Ty::I128))),
        st!([bool; 2], Ty::Array(a(Ty::Bool), 2)),
        st!([f64; 2], Ty::Array(a(Ty::F64), 2)),
        st!(Vec<(char, char)>, Ty::Vec(a(Ty::Tuple(vec![Ty::Char, Ty::Char])))),
    ]
}


/// F26 witness (DESIGN §6), executed in a child process of its own: one BigDecimal with a huge exponent as the only
/// element of a hash set. Returns what the decoder answered (if the process is still there to tell).
pub fn f26_witness() -> String {
    let text = "1e9000000000000000000";
    let mut bytes = vec![2u8, (text.len() as u8) << 1];
    bytes.extend_from_slice(text.as_bytes());
    let plain = desert::deserialize::<Vec<bigdecimal::BigDecimal>>(&bytes).map(|v| v.len());
    let set = desert::deserialize::<std::collections::HashSet<bigdecimal::BigDecimal>>(&bytes).map(|v| v.len());
    format!("Vec: {plain:?}; HashSet: {set:?}")
}
