//! E3: run-time interpreter of declarations. It drives `AdtMetadata` / `AdtSerializer` /
//! `AdtDeserializer` through their public API in exactly the order the derive macro's expansion does
//! (desert_macro/src/lib.rs), so histories generated at run time need no compilation. E2 cross-checks
//! it against the real expansion on every compiled declaration.
use crate::live::{FrameGuard, Live};
use desert::adt::{AdtDeserializer, AdtMetadata, AdtSerializer};
use desert::{BinaryInput, BinaryOutput, DeserializationContext, Error, Evolution, Result, SerializationContext};
use std::cell::RefCell;
use std::collections::HashMap;
use std::sync::Arc;
use vmodel::{Decl, DeclBody, Record, Step, Val};

pub struct DynAdt {
    pub decl: Arc<Decl>,
    pub variant: Option<usize>,
    pub fields: Vec<Live>,
}

struct MetaSet {
    _keep: Arc<Decl>,
    top: Arc<AdtMetadata>,
    cases: Vec<Arc<AdtMetadata>>,
}

thread_local! {
    static META: RefCell<HashMap<usize, Arc<MetaSet>>> = RefCell::new(HashMap::new());
}

pub fn reset_tls() {
    META.with(|m| {
        let mut m = m.borrow_mut();
        if m.len() > 4096 {
            m.clear();
        }
    });
}

fn metadata_of(r: &Record) -> AdtMetadata {
    let mut steps = vec![Evolution::InitialVersion];
    for s in &r.steps {
        steps.push(match s {
            Step::Added { name, .. } => Evolution::FieldAdded { name: name.clone() },
            Step::MadeOptional { name } => Evolution::FieldMadeOptional { name: name.clone() },
            Step::Removed { name } => Evolution::FieldRemoved { name: name.clone() },
            Step::MadeTransient { name } => Evolution::FieldMadeTransient { name: name.clone() },
        });
    }
    AdtMetadata::new(steps)
}

/// builds (and caches) the metadata of every run-time declaration inside `ty`, so that a measured decode does
/// not include the harness's own cache fill
pub fn prepare(ty: &vmodel::Ty) {
    use vmodel::Ty::*;
    match ty {
        Adt(d) => {
            let _ = meta_for(d);
            match &d.body {
                DeclBody::Struct(r) => r.fields.iter().for_each(|f| prepare(&f.ty)),
                DeclBody::Enum { variants, .. } => variants.iter().flat_map(|v| v.record.fields.iter()).for_each(|f| prepare(&f.ty)),
            }
        }
        Option(a) | Vec(a) | Array(a, _) | LinkedList(a) | HashSet(a) | BTreeSet(a) | Box(a) | Rc(a) | Arc(a) | Slice(a) | Ref(a) | RcSlice(a) => prepare(a),
        Result(a, b) | HashMap(a, b) | BTreeMap(a, b) => {
            prepare(a);
            prepare(b)
        }
        Tuple(ts) => ts.iter().for_each(prepare),
        _ => {}
    }
}

fn meta_for(d: &Arc<Decl>) -> Arc<MetaSet> {
    let key = Arc::as_ptr(d) as usize;
    META.with(|m| {
        let mut m = m.borrow_mut();
        if let Some(x) = m.get(&key) {
            return x.clone();
        }
        let set = match &d.body {
            DeclBody::Struct(r) => MetaSet { _keep: d.clone(), top: Arc::new(metadata_of(r)), cases: vec![] },
            DeclBody::Enum { variants, steps, .. } => MetaSet {
                _keep: d.clone(),
                top: Arc::new(metadata_of(&Record { fields: vec![], steps: steps.clone() })),
                cases: variants.iter().map(|v| Arc::new(metadata_of(&v.record))).collect(),
            },
        };
        let set = Arc::new(set);
        m.insert(key, set.clone());
        set
    })
}

impl DynAdt {
    pub fn from_val(d: &Arc<Decl>, v: &Val) -> DynAdt {
        match (&d.body, v) {
            (DeclBody::Struct(r), Val::Rec(fs)) => DynAdt { decl: d.clone(), variant: None, fields: r.fields.iter().zip(fs).map(|(f, x)| Live::from_val(&f.ty, x)).collect() },
            (DeclBody::Enum { variants, .. }, Val::Variant(i, fs)) => {
                DynAdt { decl: d.clone(), variant: Some(*i), fields: variants[*i].record.fields.iter().zip(fs).map(|(f, x)| Live::from_val(&f.ty, x)).collect() }
            }
            _ => panic!("DynAdt::from_val {} vs {}", d.name, v.brief()),
        }
    }

    pub fn to_val(&self) -> Val {
        let fs = self.fields.iter().map(|f| f.to_val()).collect();
        match self.variant {
            None => Val::Rec(fs),
            Some(i) => Val::Variant(i, fs),
        }
    }

    pub fn serialize<O: BinaryOutput>(&self, ctx: &mut SerializationContext<O>) -> Result<()> {
        let meta = meta_for(&self.decl);
        match &self.decl.body {
            DeclBody::Struct(r) => ser_record(r, &meta.top, &self.fields, ctx),
            DeclBody::Enum { variants, steps, .. } => {
                let vi = self.variant.expect("enum value");
                let var = &variants[vi];
                let mut serializer = if steps.is_empty() { AdtSerializer::new_v0(&meta.top, ctx) } else { AdtSerializer::new(&meta.top, ctx) };
                if var.transient {
                    return Err(Error::SerializingTransientConstructor { type_name: self.decl.name.clone(), constructor_name: var.name.clone() });
                }
                let case_meta = meta.cases[vi].clone();
                let fields = &self.fields;
                serializer.write_constructor(self.decl.ctor_index(vi) as u32, |context| ser_record(&var.record, &case_meta, fields, context))?;
                serializer.finish()
            }
        }
    }

    pub fn deserialize(d: &Arc<Decl>, ctx: &mut DeserializationContext<'_>) -> Result<DynAdt> {
        let meta = meta_for(d);
        match &d.body {
            DeclBody::Struct(r) => Ok(DynAdt { decl: d.clone(), variant: None, fields: de_record(r, &meta.top, ctx)? }),
            DeclBody::Enum { variants, .. } => {
                let stored_version = ctx.read_u8()?;
                let mut deserializer = if stored_version == 0 { AdtDeserializer::new_v0(&meta.top, ctx)? } else { AdtDeserializer::new(&meta.top, ctx, stored_version)? };
                for case_idx in 0..variants.len() {
                    let vi = d.variant_by_ctor_index(case_idx).unwrap();
                    let var = &variants[vi];
                    if !var.transient {
                        let case_meta = meta.cases[vi].clone();
                        if let Some(fields) = deserializer.read_constructor(case_idx as u32, |context| de_record(&var.record, &case_meta, context))? {
                            return Ok(DynAdt { decl: d.clone(), variant: Some(vi), fields });
                        }
                    } else {
                        let _: Option<()> = deserializer
                            .read_constructor(case_idx as u32, |_| Err(Error::DeserializingTransientConstructor { type_name: d.name.clone(), constructor_name: var.name.clone() }))?;
                    }
                }
                // the expansion ends here for an index no case claimed
                Err(Error::InvalidConstructorId { constructor_id: u32::MAX, type_name: d.name.clone() })
            }
        }
    }
}

fn ser_record<O: BinaryOutput>(r: &Record, meta: &AdtMetadata, fields: &[Live], ctx: &mut SerializationContext<O>) -> Result<()> {
    let mut serializer = if r.steps.is_empty() { AdtSerializer::new_v0(meta, ctx) } else { AdtSerializer::new(meta, ctx) };
    for (i, f) in r.fields.iter().enumerate() {
        if f.transient.is_none() {
            serializer.write_field(&f.name, &fields[i])?;
        }
    }
    serializer.finish()
}

fn de_record(r: &Record, meta: &AdtMetadata, ctx: &mut DeserializationContext<'_>) -> Result<Vec<Live>> {
    let stored_version = ctx.read_u8()?;
    let mut deserializer = if stored_version == 0 { AdtDeserializer::new_v0(meta, ctx)? } else { AdtDeserializer::new(meta, ctx, stored_version)? };
    let mut out = Vec::with_capacity(r.fields.len());
    for f in &r.fields {
        if let Some(d) = &f.transient {
            out.push(Live::from_val(&f.ty, d));
            continue;
        }
        let default = r.default_of(&f.name);
        match &f.ty {
            vmodel::Ty::Option(inner) => {
                let dflt: Option<Option<Live>> = default.map(|d| match d {
                    Val::None => None,
                    Val::Some(x) => Some(Live::from_val(inner, x)),
                    other => panic!("default of optional field is {other:?}"),
                });
                let _g = FrameGuard::push(vec![(**inner).clone()]);
                let v: Option<Live> = deserializer.read_optional_field(&f.name, dflt)?;
                out.push(Live::Opt(v.map(Box::new)));
            }
            ty => {
                let dflt: Option<Live> = default.map(|d| Live::from_val(ty, d));
                let _g = FrameGuard::push(vec![ty.clone()]);
                out.push(deserializer.read_field(&f.name, dflt)?);
            }
        }
    }
    Ok(out)
}

/// A tolerant client: reads the fields of a struct declaration one by one with ONE AdtDeserializer and carries on
/// after a field fails (every call is safe public API). Returns a digest per field.
pub fn read_fields_tolerantly(d: &Arc<Decl>, ctx: &mut DeserializationContext<'_>) -> Vec<String> {
    let r = match &d.body {
        DeclBody::Struct(r) => r,
        _ => return vec!["not a struct".into()],
    };
    let meta = meta_for(d);
    let stored_version = match ctx.read_u8() {
        Ok(v) => v,
        Err(e) => return vec![format!("version: {e:?}")],
    };
    let mut deserializer = match if stored_version == 0 { AdtDeserializer::new_v0(&meta.top, ctx) } else { AdtDeserializer::new(&meta.top, ctx, stored_version) } {
        Ok(d) => d,
        Err(e) => return vec![format!("header: {e:?}")],
    };
    let mut out = Vec::new();
    for f in &r.fields {
        if f.transient.is_some() {
            continue;
        }
        let default = r.default_of(&f.name);
        let res: Result<Val> = match &f.ty {
            vmodel::Ty::Option(inner) => {
                let dflt: Option<Option<Live>> = default.map(|d| match d {
                    Val::None => None,
                    Val::Some(x) => Some(Live::from_val(inner, x)),
                    other => panic!("default of optional field is {other:?}"),
                });
                let _g = FrameGuard::push(vec![(**inner).clone()]);
                deserializer.read_optional_field::<Live>(&f.name, dflt).map(|v| match v {
                    Some(x) => Val::some(x.to_val()),
                    None => Val::None,
                })
            }
            ty => {
                let dflt: Option<Live> = default.map(|d| Live::from_val(ty, d));
                let _g = FrameGuard::push(vec![ty.clone()]);
                deserializer.read_field::<Live>(&f.name, dflt).map(|v| v.to_val())
            }
        };
        out.push(match res {
            // hash containers iterate in a per-instance order: digest the canonical form
            Ok(v) => format!("{}=Ok {:?}", f.name, vmodel::canon(&f.ty, &v)),
            Err(e) => format!("{}=Err {e:?}", f.name),
        });
    }
    out
}
