//! `Live`: a run-time bridge from model values to the *real* desert codecs (DESIGN §2.2, dynamic form).
//! Every container node is the real std/bytes container instantiated at `Live`, every leaf the real
//! concrete type, so `Live::serialize` / `Live::deserialize` execute exactly the generic impls of
//! desert_core. The expected type of a value being decoded travels in a thread-local frame stack.
use crate::compiled::Compiled;
use crate::dynrec;
use bigdecimal::num_bigint::BigInt;
use bigdecimal::BigDecimal;
use chrono::{DateTime, FixedOffset, Local, Month, NaiveDate, NaiveDateTime, NaiveTime, TimeZone, Utc, Weekday};
use chrono_tz::Tz;
use desert::{BinaryDeserializer, BinaryOutput, BinarySerializer, DeduplicatedString, DeserializationContext, Result, SerializationContext};
use std::cell::RefCell;
use std::collections::{BTreeMap, BTreeSet, HashMap, HashSet, LinkedList};
use std::marker::PhantomData;
use std::rc::Rc;
use std::sync::Arc;
use std::time::Duration;
use uuid::Uuid;
use vmodel::gen::{join_ndt, split_ndt};
use vmodel::{Decl, Ty, Val};

/// a u32 written as a bare var-u32, the way a hand-written codec does it
#[derive(Debug, Clone, Copy, PartialEq, Eq)]
pub struct VarU32(pub u32);
impl BinarySerializer for VarU32 {
    fn serialize<O: BinaryOutput>(&self, ctx: &mut SerializationContext<O>) -> Result<()> {
        ctx.write_var_u32(self.0);
        Ok(())
    }
}
impl BinaryDeserializer for VarU32 {
    fn deserialize(ctx: &mut DeserializationContext<'_>) -> Result<Self> {
        use desert::BinaryInput;
        Ok(VarU32(ctx.read_var_u32()?))
    }
}

pub enum Live {
    U8(u8),
    I8(i8),
    U16(u16),
    I16(i16),
    U32(u32),
    I32(i32),
    U64(u64),
    I64(i64),
    U128(u128),
    I128(i128),
    F32(f32),
    F64(f64),
    Bool(bool),
    Unit,
    Char(char),
    Str(String),
    Dedup(String),
    VarU32(VarU32),
    Duration(Duration),
    Opt(Option<Box<Live>>),
    Res(std::result::Result<Box<Live>, Box<Live>>),
    Tuple(Vec<Live>),
    Vec(Vec<Live>),
    VecU8(Vec<u8>),
    VecI8(Vec<i8>),
    VecBool(Vec<bool>),
    VecUnit(Vec<()>),
    Array(Vec<Live>),
    ArrayU8(Vec<u8>),
    ArrayI8(Vec<i8>),
    ArrayBool(Vec<bool>),
    ArrayUnit(usize),
    /// containers of zero-sized elements at their real types: 0 HashSet<()>, 1 BTreeSet<()>, 2 LinkedList<()>,
    /// 3 HashMap<(), ()>, 4 BTreeMap<(), ()>, 5 HashSet<PhantomData<u64>>, with their element count
    Zst(u8, usize),
    /// a sequence of a zero-sized COMPILED declaration (unit struct, empty struct, one-constructor enum) at its real
    /// type: container 0 Vec, 1 slice, 2 array; element count
    ZstAdt(Arc<Decl>, u8, usize),
    Bytes(bytes::Bytes),
    LinkedList(LinkedList<Live>),
    HashSet(HashSet<Live>),
    BTreeSet(BTreeSet<Live>),
    HashMap(HashMap<Live, Live>),
    BTreeMap(BTreeMap<Live, Live>),
    Boxed(Box<Live>),
    Rc(Rc<Live>),
    Arc(Arc<Live>),
    Phantom(PhantomData<u64>),
    Uuid(Uuid),
    Weekday(Weekday),
    Month(Month),
    FixedOffset(FixedOffset),
    Tz(Tz),
    NaiveDate(NaiveDate),
    NaiveTime(NaiveTime),
    NaiveDateTime(NaiveDateTime),
    DtUtc(DateTime<Utc>),
    DtLocal(DateTime<Local>),
    DtFixed(DateTime<FixedOffset>),
    DtTz(DateTime<Tz>),
    BigInt(BigInt),
    BigDecimal(BigDecimal),
    // serialize-only shapes
    Slice(Vec<Live>),
    SliceU8(Vec<u8>),
    StrRef(String),
    Ref(Box<Live>),
    RcStr(Rc<str>),
    RcSlice(Rc<[Live]>),
    RcSliceU8(Rc<[u8]>),
    Compiled(Compiled),
    Dyn(dynrec::DynAdt),
}

// ------------------------------------------------------------------------------------------------
// thread-local expected-type frames

pub(crate) struct Frame {
    tys: Vec<Ty>,
    cursor: usize,
}

thread_local! {
    static FRAMES: RefCell<Vec<Frame>> = const { RefCell::new(Vec::new()) };
    pub(crate) static DECLS: RefCell<Vec<Arc<Decl>>> = const { RefCell::new(Vec::new()) };
}

pub(crate) struct FrameGuard;
impl FrameGuard {
    pub(crate) fn push(tys: Vec<Ty>) -> FrameGuard {
        FRAMES.with(|f| f.borrow_mut().push(Frame { tys, cursor: 0 }));
        FrameGuard
    }
}
impl Drop for FrameGuard {
    fn drop(&mut self) {
        FRAMES.with(|f| {
            f.borrow_mut().pop();
        });
    }
}

pub struct DeclGuard;
impl DeclGuard {
    pub fn push(d: Arc<Decl>) -> DeclGuard {
        DECLS.with(|f| f.borrow_mut().push(d));
        DeclGuard
    }
}
impl Drop for DeclGuard {
    fn drop(&mut self) {
        DECLS.with(|f| {
            f.borrow_mut().pop();
        });
    }
}

pub(crate) fn find_decl(name: &str) -> Arc<Decl> {
    DECLS.with(|f| f.borrow().iter().rev().find(|d| d.name == name).cloned().expect("Rec target in scope"))
}

fn next_ty() -> Ty {
    FRAMES.with(|f| {
        let mut f = f.borrow_mut();
        let fr = f.last_mut().expect("Live::deserialize without an expected type");
        let t = fr.tys[fr.cursor % fr.tys.len()].clone();
        fr.cursor += 1;
        t
    })
}

pub fn reset_tls() {
    FRAMES.with(|f| f.borrow_mut().clear());
    DECLS.with(|f| f.borrow_mut().clear());
    dynrec::reset_tls();
}

// ------------------------------------------------------------------------------------------------
// Val <-> Live

fn weekday_from(n: u8) -> Weekday {
    [Weekday::Mon, Weekday::Tue, Weekday::Wed, Weekday::Thu, Weekday::Fri, Weekday::Sat, Weekday::Sun][(n - 1) as usize]
}

fn date_from(v: &Val) -> NaiveDate {
    match v {
        Val::Date(y, m, d) => NaiveDate::from_ymd_opt(*y, *m as u32, *d as u32).expect("valid date"),
        _ => panic!("date_from {v:?}"),
    }
}
fn time_from(v: &Val) -> NaiveTime {
    match v {
        Val::Time(h, m, s, n) => NaiveTime::from_hms_nano_opt(*h as u32, *m as u32, *s as u32, *n).expect("valid time"),
        _ => panic!("time_from {v:?}"),
    }
}
fn date_val(d: &NaiveDate) -> Val {
    use chrono::Datelike;
    Val::Date(d.year(), d.month() as u8, d.day() as u8)
}
fn time_val(t: &NaiveTime) -> Val {
    use chrono::Timelike;
    Val::Time(t.hour() as u8, t.minute() as u8, t.second() as u8, t.nanosecond())
}

macro_rules! arr_dispatch {
    ($n:expr, $f:ident, [$($g:ty),*], $($args:expr),*) => {
        match $n {
            0 => $f::<0, $($g),*>($($args),*),
            1 => $f::<1, $($g),*>($($args),*),
            2 => $f::<2, $($g),*>($($args),*),
            3 => $f::<3, $($g),*>($($args),*),
            16 => $f::<16, $($g),*>($($args),*),
            17 => $f::<17, $($g),*>($($args),*),
            32 => $f::<32, $($g),*>($($args),*),
            33 => $f::<33, $($g),*>($($args),*),
            63 => $f::<63, $($g),*>($($args),*),
            64 => $f::<64, $($g),*>($($args),*),
            65 => $f::<65, $($g),*>($($args),*),
            127 => $f::<127, $($g),*>($($args),*),
            128 => $f::<128, $($g),*>($($args),*),
            255 => $f::<255, $($g),*>($($args),*),
            256 => $f::<256, $($g),*>($($args),*),
            other => panic!("array length {other} is not in the dispatch table"),
        }
    };
}

impl Live {
    pub fn from_val(ty: &Ty, v: &Val) -> Live {
        use Ty::*;
        match (ty, v) {
            (U8, Val::Int(i)) => Live::U8(*i as u8),
            (I8, Val::Int(i)) => Live::I8(*i as i8),
            (U16, Val::Int(i)) => Live::U16(*i as u16),
            (I16, Val::Int(i)) => Live::I16(*i as i16),
            (U32, Val::Int(i)) => Live::U32(*i as u32),
            (I32, Val::Int(i)) => Live::I32(*i as i32),
            (U64, Val::Int(i)) => Live::U64(*i as u64),
            (I64, Val::Int(i)) => Live::I64(*i as i64),
            (I128, Val::Int(i)) => Live::I128(*i),
            (U128, Val::U128(i)) => Live::U128(*i),
            (F32, Val::F32(b)) => Live::F32(f32::from_bits(*b)),
            (F64, Val::F64(b)) => Live::F64(f64::from_bits(*b)),
            (Bool, Val::Bool(b)) => Live::Bool(*b),
            (Unit, Val::Unit) => Live::Unit,
            (Phantom, Val::Unit) => Live::Phantom(PhantomData),
            (Char, Val::Char(c)) => Live::Char(char::from_u32(*c).expect("scalar value")),
            (Str, Val::Str(s)) => Live::Str(s.clone()),
            (StrRef, Val::Str(s)) => Live::StrRef(s.clone()),
            (RcStr, Val::Str(s)) => Live::RcStr(std::rc::Rc::from(s.as_str())),
            (Dedup, Val::Str(s)) => Live::Dedup(s.clone()),
            (VarU32, Val::Int(i)) => Live::VarU32(self::VarU32(*i as u32)),
            (Duration, Val::Duration(s, n)) => Live::Duration(std::time::Duration::new(*s, *n)),
            (Option(_), Val::None) => Live::Opt(None),
            (Option(t), Val::Some(x)) => Live::Opt(Some(std::boxed::Box::new(Live::from_val(t, x)))),
            (Result(t, _), Val::Ok(x)) => Live::Res(Ok(std::boxed::Box::new(Live::from_val(t, x)))),
            (Result(_, e), Val::Err(x)) => Live::Res(Err(std::boxed::Box::new(Live::from_val(e, x)))),
            (Tuple(ts), Val::Tuple(xs)) => Live::Tuple(ts.iter().zip(xs).map(|(t, x)| Live::from_val(t, x)).collect()),
            (Vec(e), Val::Bytes(b)) if **e == U8 => Live::VecU8(b.clone()),
            (Array(e, _), Val::Bytes(b)) if **e == U8 => Live::ArrayU8(b.clone()),
            (Slice(e), Val::Bytes(b)) if **e == U8 => Live::SliceU8(b.clone()),
            (RcSlice(e), Val::Bytes(b)) if **e == U8 => Live::RcSliceU8(std::rc::Rc::from(b.as_slice())),
            (Vec(e), Val::Seq(xs)) if **e == I8 => Live::VecI8(xs.iter().map(|x| x.as_int() as i8).collect()),
            (Vec(e), Val::Seq(xs)) if **e == Bool => Live::VecBool(xs.iter().map(|x| matches!(x, Val::Bool(true))).collect()),
            (Vec(e), Val::Seq(xs)) if zst_decl(e).is_some() => Live::ZstAdt(zst_decl(e).unwrap(), 0, xs.len()),
            (Slice(e), Val::Seq(xs)) if zst_decl(e).is_some() => Live::ZstAdt(zst_decl(e).unwrap(), 1, xs.len()),
            (Array(e, _), Val::Seq(xs)) if zst_decl(e).is_some() => Live::ZstAdt(zst_decl(e).unwrap(), 2, xs.len()),
            (Vec(e), Val::Seq(xs)) if **e == Unit => Live::VecUnit(vec![(); xs.len()]),
            (HashSet(e), Val::Seq(xs)) if **e == Unit => Live::Zst(0, xs.len().min(1)),
            (HashSet(e), Val::Seq(xs)) if **e == Phantom => Live::Zst(5, xs.len().min(1)),
            (BTreeSet(e), Val::Seq(xs)) if **e == Unit => Live::Zst(1, xs.len().min(1)),
            (LinkedList(e), Val::Seq(xs)) if **e == Unit => Live::Zst(2, xs.len()),
            (HashMap(k, w), Val::Map(ps)) if **k == Unit && **w == Unit => Live::Zst(3, ps.len().min(1)),
            (BTreeMap(k, w), Val::Map(ps)) if **k == Unit && **w == Unit => Live::Zst(4, ps.len().min(1)),
            (Array(e, _), Val::Seq(xs)) if **e == I8 => Live::ArrayI8(xs.iter().map(|x| x.as_int() as i8).collect()),
            (Array(e, _), Val::Seq(xs)) if **e == Bool => Live::ArrayBool(xs.iter().map(|x| matches!(x, Val::Bool(true))).collect()),
            (Array(e, _), Val::Seq(xs)) if **e == Unit => Live::ArrayUnit(xs.len()),
            (Vec(e), Val::Seq(xs)) => Live::Vec(xs.iter().map(|x| Live::from_val(e, x)).collect()),
            (Array(e, _), Val::Seq(xs)) => Live::Array(xs.iter().map(|x| Live::from_val(e, x)).collect()),
            (Slice(e), Val::Seq(xs)) => Live::Slice(xs.iter().map(|x| Live::from_val(e, x)).collect()),
            (RcSlice(e), Val::Seq(xs)) => Live::RcSlice(xs.iter().map(|x| Live::from_val(e, x)).collect::<std::vec::Vec<_>>().into()),
            (Bytes, Val::Bytes(b)) => Live::Bytes(bytes::Bytes::from(b.clone())),
            (LinkedList(e), Val::Seq(xs)) => Live::LinkedList(xs.iter().map(|x| Live::from_val(e, x)).collect()),
            (HashSet(e), Val::Seq(xs)) => Live::HashSet(xs.iter().map(|x| Live::from_val(e, x)).collect()),
            (BTreeSet(e), Val::Seq(xs)) => Live::BTreeSet(xs.iter().map(|x| Live::from_val(e, x)).collect()),
            (HashMap(k, w), Val::Map(ps)) => Live::HashMap(ps.iter().map(|(a, b)| (Live::from_val(k, a), Live::from_val(w, b))).collect()),
            (BTreeMap(k, w), Val::Map(ps)) => Live::BTreeMap(ps.iter().map(|(a, b)| (Live::from_val(k, a), Live::from_val(w, b))).collect()),
            (Box(t), x) => Live::Boxed(std::boxed::Box::new(Live::from_val(t, x))),
            (Rc(t), x) => Live::Rc(std::rc::Rc::new(Live::from_val(t, x))),
            (Arc(t), x) => Live::Arc(std::sync::Arc::new(Live::from_val(t, x))),
            (Ref(t), x) => Live::Ref(std::boxed::Box::new(Live::from_val(t, x))),
            (Uuid, Val::Bytes(b)) => Live::Uuid(uuid::Uuid::from_slice(b).expect("16 bytes")),
            (Weekday, Val::Weekday(n)) => Live::Weekday(weekday_from(*n)),
            (Month, Val::Month(n)) => Live::Month(chrono::Month::try_from(*n).expect("month")),
            (FixedOffset, Val::Offset(s)) => Live::FixedOffset(chrono::FixedOffset::east_opt(*s).expect("offset")),
            (Tz, Val::Tz(n)) => Live::Tz(n.parse().expect("tz name")),
            (NaiveDate, d) => Live::NaiveDate(date_from(d)),
            (NaiveTime, t) => Live::NaiveTime(time_from(t)),
            (NaiveDateTime, Val::Tuple(xs)) => Live::NaiveDateTime(join_ndt(&xs[0], &xs[1])),
            (DtUtc, Val::Tuple(xs)) => Live::DtUtc(DateTime::<Utc>::from_timestamp(xs[0].as_int() as i64, xs[1].as_int() as u32).expect("timestamp")),
            (DtLocal, Val::Tuple(xs)) => Live::DtLocal(Local.from_local_datetime(&join_ndt(&xs[0], &xs[1])).single().expect("unambiguous local time (TZ=UTC)")),
            (DtFixed, Val::Tuple(xs)) => {
                let off = match &xs[2] {
                    Val::Offset(s) => chrono::FixedOffset::east_opt(*s).expect("offset"),
                    _ => panic!(),
                };
                Live::DtFixed(off.from_local_datetime(&join_ndt(&xs[0], &xs[1])).single().expect("representable"))
            }
            (DtTz, Val::Tuple(xs)) => {
                let tz: chrono_tz::Tz = match &xs[2] {
                    Val::Tz(n) => n.parse().expect("tz"),
                    _ => panic!(),
                };
                Live::DtTz(tz.from_utc_datetime(&join_ndt(&xs[0], &xs[1])))
            }
            (BigInt, Val::Bytes(b)) => Live::BigInt(bigdecimal::num_bigint::BigInt::from_signed_bytes_be(b)),
            (BigDecimal, Val::Str(s)) => Live::BigDecimal(s.parse().expect("bigdecimal")),
            (Adt(d), x) => {
                let _g = DeclGuard::push(d.clone());
                Live::from_decl(d, x)
            }
            (Rec(name), x) => {
                let d = find_decl(name);
                let _g = DeclGuard::push(d.clone());
                Live::from_decl(&d, x)
            }
            _ => panic!("Live::from_val: {} vs {}", ty.render(), v.brief()),
        }
    }

    fn from_decl(d: &Arc<Decl>, x: &Val) -> Live {
        if crate::compiled::is_compiled(&d.name) {
            Live::Compiled(Compiled::from_val(&d.name, x))
        } else {
            Live::Dyn(dynrec::DynAdt::from_val(d, x))
        }
    }

    pub fn to_val(&self) -> Val {
        match self {
            Live::U8(x) => Val::Int(*x as i128),
            Live::I8(x) => Val::Int(*x as i128),
            Live::U16(x) => Val::Int(*x as i128),
            Live::I16(x) => Val::Int(*x as i128),
            Live::U32(x) => Val::Int(*x as i128),
            Live::I32(x) => Val::Int(*x as i128),
            Live::U64(x) => Val::Int(*x as i128),
            Live::I64(x) => Val::Int(*x as i128),
            Live::I128(x) => Val::Int(*x),
            Live::U128(x) => Val::U128(*x),
            Live::F32(x) => Val::F32(x.to_bits()),
            Live::F64(x) => Val::F64(x.to_bits()),
            Live::VarU32(x) => Val::Int(x.0 as i128),
            Live::Bool(b) => Val::Bool(*b),
            Live::Unit | Live::Phantom(_) => Val::Unit,
            Live::Char(c) => Val::Char(*c as u32),
            Live::Str(s) | Live::Dedup(s) | Live::StrRef(s) => Val::Str(s.clone()),
            Live::RcStr(s) => Val::Str(s.to_string()),
            Live::Duration(d) => Val::Duration(d.as_secs(), d.subsec_nanos()),
            Live::Opt(None) => Val::None,
            Live::Opt(Some(x)) => Val::some(x.to_val()),
            Live::Res(Ok(x)) => Val::Ok(Box::new(x.to_val())),
            Live::Res(Err(x)) => Val::Err(Box::new(x.to_val())),
            Live::Tuple(xs) => Val::Tuple(xs.iter().map(|x| x.to_val()).collect()),
            Live::Vec(xs) | Live::Array(xs) | Live::Slice(xs) => Val::Seq(xs.iter().map(|x| x.to_val()).collect()),
            Live::RcSlice(xs) => Val::Seq(xs.iter().map(|x| x.to_val()).collect()),
            Live::VecU8(b) | Live::ArrayU8(b) | Live::SliceU8(b) => Val::Bytes(b.clone()),
            Live::RcSliceU8(b) => Val::Bytes(b.to_vec()),
            Live::VecI8(xs) | Live::ArrayI8(xs) => Val::Seq(xs.iter().map(|x| Val::Int(*x as i128)).collect()),
            Live::VecBool(xs) | Live::ArrayBool(xs) => Val::Seq(xs.iter().map(|x| Val::Bool(*x)).collect()),
            Live::VecUnit(xs) => Val::Seq(vec![Val::Unit; xs.len()]),
            Live::ArrayUnit(n) => Val::Seq(vec![Val::Unit; *n]),
            Live::ZstAdt(d, _, n) => Val::Seq(vec![if matches!(d.body, vmodel::DeclBody::Enum { .. }) { Val::Variant(0, vec![]) } else { Val::Rec(vec![]) }; *n]),
            Live::Zst(3 | 4, n) => Val::Map(vec![(Val::Unit, Val::Unit); *n]),
            Live::Zst(_, n) => Val::Seq(vec![Val::Unit; *n]),
            Live::Bytes(b) => Val::Bytes(b.to_vec()),
            Live::LinkedList(xs) => Val::Seq(xs.iter().map(|x| x.to_val()).collect()),
            Live::HashSet(xs) => Val::Seq(xs.iter().map(|x| x.to_val()).collect()),
            Live::BTreeSet(xs) => Val::Seq(xs.iter().map(|x| x.to_val()).collect()),
            Live::HashMap(m) => Val::Map(m.iter().map(|(k, v)| (k.to_val(), v.to_val())).collect()),
            Live::BTreeMap(m) => Val::Map(m.iter().map(|(k, v)| (k.to_val(), v.to_val())).collect()),
            Live::Boxed(x) | Live::Ref(x) => x.to_val(),
            Live::Rc(x) => x.to_val(),
            Live::Arc(x) => x.to_val(),
            Live::Uuid(u) => Val::Bytes(u.as_bytes().to_vec()),
            Live::Weekday(w) => Val::Weekday(w.number_from_monday() as u8),
            Live::Month(m) => Val::Month(m.number_from_month() as u8),
            Live::FixedOffset(o) => Val::Offset(o.local_minus_utc()),
            Live::Tz(z) => Val::Tz(z.name().to_string()),
            Live::NaiveDate(d) => date_val(d),
            Live::NaiveTime(t) => time_val(t),
            Live::NaiveDateTime(n) => {
                let (d, t) = split_ndt(n);
                Val::Tuple(vec![d, t])
            }
            Live::DtUtc(d) => Val::Tuple(vec![Val::Int(d.timestamp() as i128), Val::Int(d.timestamp_subsec_nanos() as i128)]),
            Live::DtLocal(d) => {
                let (a, b) = split_ndt(&d.naive_local());
                Val::Tuple(vec![a, b])
            }
            Live::DtFixed(d) => {
                let (a, b) = split_ndt(&d.naive_local());
                Val::Tuple(vec![a, b, Val::Offset(d.offset().local_minus_utc())])
            }
            Live::DtTz(d) => {
                let (a, b) = split_ndt(&d.naive_utc());
                Val::Tuple(vec![a, b, Val::Tz(d.timezone().name().to_string())])
            }
            Live::BigInt(b) => Val::Bytes(b.to_signed_bytes_be()),
            Live::BigDecimal(b) => Val::Str(b.to_string()),
            Live::Compiled(c) => c.to_val(),
            Live::Dyn(d) => d.to_val(),
        }
    }
}

impl PartialEq for Live {
    fn eq(&self, other: &Self) -> bool {
        self.to_val() == other.to_val()
    }
}
impl Eq for Live {}
impl std::hash::Hash for Live {
    fn hash<H: std::hash::Hasher>(&self, state: &mut H) {
        self.to_val().hash(state)
    }
}
impl PartialOrd for Live {
    fn partial_cmp(&self, other: &Self) -> Option<std::cmp::Ordering> {
        Some(self.cmp(other))
    }
}
impl Ord for Live {
    fn cmp(&self, other: &Self) -> std::cmp::Ordering {
        self.to_val().cmp(&other.to_val())
    }
}
impl Clone for Live {
    fn clone(&self) -> Self {
        panic!("Live is rebuilt from Val, never cloned")
    }
}

// ------------------------------------------------------------------------------------------------
// serialization: every arm calls the real impl for the real type

fn ser_arr<const N: usize, T: BinarySerializer, O: BinaryOutput>(xs: std::vec::Vec<T>, ctx: &mut SerializationContext<O>) -> Result<()> {
    let arr: [T; N] = xs.try_into().ok().expect("array length matches its type");
    arr.serialize(ctx)
}

impl BinarySerializer for Live {
    fn serialize<O: BinaryOutput>(&self, ctx: &mut SerializationContext<O>) -> Result<()> {
        match self {
            Live::U8(x) => x.serialize(ctx),
            Live::I8(x) => x.serialize(ctx),
            Live::U16(x) => x.serialize(ctx),
            Live::I16(x) => x.serialize(ctx),
            Live::U32(x) => x.serialize(ctx),
            Live::I32(x) => x.serialize(ctx),
            Live::U64(x) => x.serialize(ctx),
            Live::I64(x) => x.serialize(ctx),
            Live::U128(x) => x.serialize(ctx),
            Live::I128(x) => x.serialize(ctx),
            Live::F32(x) => x.serialize(ctx),
            Live::F64(x) => x.serialize(ctx),
            Live::Bool(x) => x.serialize(ctx),
            Live::Unit => ().serialize(ctx),
            Live::Char(x) => x.serialize(ctx),
            Live::Str(x) => x.serialize(ctx),
            Live::Dedup(x) => DeduplicatedString(x.clone()).serialize(ctx),
            Live::VarU32(x) => x.serialize(ctx),
            Live::Duration(x) => x.serialize(ctx),
            Live::Opt(x) => x.serialize(ctx),
            Live::Res(x) => x.serialize(ctx),
            Live::Tuple(xs) => match xs.as_slice() {
                [a] => (a,).serialize(ctx),
                [a, b] => (a, b).serialize(ctx),
                [a, b, c] => (a, b, c).serialize(ctx),
                [a, b, c, d] => (a, b, c, d).serialize(ctx),
                [a, b, c, d, e] => (a, b, c, d, e).serialize(ctx),
                [a, b, c, d, e, f] => (a, b, c, d, e, f).serialize(ctx),
                [a, b, c, d, e, f, g] => (a, b, c, d, e, f, g).serialize(ctx),
                [a, b, c, d, e, f, g, h] => (a, b, c, d, e, f, g, h).serialize(ctx),
                _ => panic!("tuple arity {}", xs.len()),
            },
            Live::Vec(xs) => xs.serialize(ctx),
            Live::VecU8(xs) => xs.serialize(ctx),
            Live::VecI8(xs) => xs.serialize(ctx),
            Live::VecBool(xs) => xs.serialize(ctx),
            Live::VecUnit(xs) => xs.serialize(ctx),
            Live::Array(xs) => {
                // [Live; N] needs owned elements: rebuild them from their values
                let owned: std::vec::Vec<LiveRefOwned> = xs.iter().map(LiveRefOwned).collect();
                arr_dispatch!(xs.len(), ser_arr, [_, _], owned, ctx)
            }
            Live::ArrayU8(xs) => arr_dispatch!(xs.len(), ser_arr, [_, _], xs.clone(), ctx),
            Live::ArrayI8(xs) => arr_dispatch!(xs.len(), ser_arr, [_, _], xs.clone(), ctx),
            Live::ArrayBool(xs) => arr_dispatch!(xs.len(), ser_arr, [_, _], xs.clone(), ctx),
            Live::ArrayUnit(n) => arr_dispatch!(*n, ser_arr, [_, _], vec![(); *n], ctx),
            Live::ZstAdt(d, cont, n) => crate::compiled::zst_seq_serialize(&d.name, *cont, *n, ctx),
            Live::Zst(0, n) => (0..*n).map(|_| ()).collect::<std::collections::HashSet<()>>().serialize(ctx),
            Live::Zst(1, n) => (0..*n).map(|_| ()).collect::<std::collections::BTreeSet<()>>().serialize(ctx),
            Live::Zst(2, n) => (0..*n).map(|_| ()).collect::<std::collections::LinkedList<()>>().serialize(ctx),
            Live::Zst(3, n) => (0..*n).map(|_| ((), ())).collect::<std::collections::HashMap<(), ()>>().serialize(ctx),
            Live::Zst(4, n) => (0..*n).map(|_| ((), ())).collect::<std::collections::BTreeMap<(), ()>>().serialize(ctx),
            Live::Zst(_, n) => (0..*n).map(|_| PhantomData::<u64>).collect::<std::collections::HashSet<PhantomData<u64>>>().serialize(ctx),
            Live::Bytes(b) => b.serialize(ctx),
            Live::LinkedList(xs) => xs.serialize(ctx),
            Live::HashSet(xs) => xs.serialize(ctx),
            Live::BTreeSet(xs) => xs.serialize(ctx),
            Live::HashMap(xs) => xs.serialize(ctx),
            Live::BTreeMap(xs) => xs.serialize(ctx),
            Live::Boxed(x) => x.serialize(ctx),
            Live::Rc(x) => x.serialize(ctx),
            Live::Arc(x) => x.serialize(ctx),
            Live::Phantom(p) => p.serialize(ctx),
            Live::Uuid(x) => x.serialize(ctx),
            Live::Weekday(x) => x.serialize(ctx),
            Live::Month(x) => x.serialize(ctx),
            Live::FixedOffset(x) => x.serialize(ctx),
            Live::Tz(x) => x.serialize(ctx),
            Live::NaiveDate(x) => x.serialize(ctx),
            Live::NaiveTime(x) => x.serialize(ctx),
            Live::NaiveDateTime(x) => x.serialize(ctx),
            Live::DtUtc(x) => x.serialize(ctx),
            Live::DtLocal(x) => x.serialize(ctx),
            Live::DtFixed(x) => x.serialize(ctx),
            Live::DtTz(x) => x.serialize(ctx),
            Live::BigInt(x) => x.serialize(ctx),
            Live::BigDecimal(x) => x.serialize(ctx),
            Live::Slice(xs) => xs.as_slice().serialize(ctx),
            Live::SliceU8(xs) => xs.as_slice().serialize(ctx),
            Live::StrRef(s) => s.as_str().serialize(ctx),
            Live::Ref(x) => (&**x).serialize(ctx),
            Live::RcStr(s) => s.serialize(ctx),
            Live::RcSlice(xs) => xs.serialize(ctx),
            Live::RcSliceU8(xs) => xs.serialize(ctx),
            Live::Compiled(c) => c.serialize(ctx),
            Live::Dyn(d) => d.serialize(ctx),
        }
    }
}

/// element wrapper so that `[T; N]` can be built without cloning `Live`
struct LiveRefOwned<'a>(&'a Live);
impl<'a> BinarySerializer for LiveRefOwned<'a> {
    fn serialize<O: BinaryOutput>(&self, ctx: &mut SerializationContext<O>) -> Result<()> {
        self.0.serialize(ctx)
    }
}

// ------------------------------------------------------------------------------------------------
// deserialization

/// the compiled zero-sized declaration behind an element type, if it is one
fn zst_decl(e: &Ty) -> Option<Arc<Decl>> {
    match e {
        Ty::Adt(d) if vmodel::declgen::ZST_DECLS.contains(&d.name.as_str()) && crate::compiled::is_compiled(&d.name) => Some(d.clone()),
        _ => None,
    }
}

/// `n` copies of a zero-sized value as a Vec, a slice or an array of its real type
pub fn zst_ser<T: BinarySerializer + Clone + 'static, O: BinaryOutput>(v: T, cont: u8, n: usize, ctx: &mut SerializationContext<O>) -> Result<()> {
    let xs = vec![v; n];
    match cont {
        0 => xs.serialize(ctx),
        1 => xs.as_slice().serialize(ctx),
        _ => arr_dispatch!(n, ser_arr, [_, _], xs, ctx),
    }
}

pub fn zst_de<T: BinaryDeserializer + 'static>(cont: u8, n: usize, ctx: &mut DeserializationContext<'_>) -> Result<usize> {
    match cont {
        0 => Ok(std::vec::Vec::<T>::deserialize(ctx)?.len()),
        _ => {
            let v: std::vec::Vec<T> = arr_dispatch!(n, de_arr, [_], ctx)?;
            Ok(v.len())
        }
    }
}

fn de_arr<const N: usize, T: BinaryDeserializer>(ctx: &mut DeserializationContext<'_>) -> Result<std::vec::Vec<T>> {
    let a = <[T; N]>::deserialize(ctx)?;
    Ok(a.into_iter().collect())
}

fn unbox(xs: std::vec::Vec<Live>) -> Live {
    Live::Tuple(xs)
}

pub fn decode_as(ty: &Ty, ctx: &mut DeserializationContext<'_>) -> Result<Live> {
    use Ty::*;
    Ok(match ty {
        U8 => Live::U8(u8::deserialize(ctx)?),
        I8 => Live::I8(i8::deserialize(ctx)?),
        U16 => Live::U16(u16::deserialize(ctx)?),
        I16 => Live::I16(i16::deserialize(ctx)?),
        U32 => Live::U32(u32::deserialize(ctx)?),
        I32 => Live::I32(i32::deserialize(ctx)?),
        U64 => Live::U64(u64::deserialize(ctx)?),
        I64 => Live::I64(i64::deserialize(ctx)?),
        U128 => Live::U128(u128::deserialize(ctx)?),
        I128 => Live::I128(i128::deserialize(ctx)?),
        F32 => Live::F32(f32::deserialize(ctx)?),
        F64 => Live::F64(f64::deserialize(ctx)?),
        Bool => Live::Bool(bool::deserialize(ctx)?),
        Unit => {
            <()>::deserialize(ctx)?;
            Live::Unit
        }
        Phantom => Live::Phantom(PhantomData::<u64>::deserialize(ctx)?),
        Char => Live::Char(char::deserialize(ctx)?),
        Str => Live::Str(String::deserialize(ctx)?),
        Dedup => Live::Dedup(DeduplicatedString::deserialize(ctx)?.0),
        VarU32 => Live::VarU32(self::VarU32::deserialize(ctx)?),
        Duration => Live::Duration(std::time::Duration::deserialize(ctx)?),
        Option(t) => {
            let _g = FrameGuard::push(vec![(**t).clone()]);
            Live::Opt(std::option::Option::<std::boxed::Box<Live>>::deserialize(ctx)?)
        }
        Result(t, e) => {
            // exactly one of the two is decoded; the tag decides which, so peek it through a cloned cursor is not
            // possible — instead both alternatives are offered and the wrapper types record which one was asked for
            let _g = FrameGuard::push(vec![(**t).clone(), (**e).clone()]);
            Live::Res(std::result::Result::<OkSide, ErrSide>::deserialize(ctx).map(|r| match r {
                Ok(OkSide(x)) => Ok(std::boxed::Box::new(x)),
                Err(ErrSide(x)) => Err(std::boxed::Box::new(x)),
            })?)
        }
        Tuple(ts) => {
            let _g = FrameGuard::push(ts.clone());
            match ts.len() {
                1 => <(Live,)>::deserialize(ctx).map(|t| unbox(vec![t.0]))?,
                2 => <(Live, Live)>::deserialize(ctx).map(|t| unbox(vec![t.0, t.1]))?,
                3 => <(Live, Live, Live)>::deserialize(ctx).map(|t| unbox(vec![t.0, t.1, t.2]))?,
                4 => <(Live, Live, Live, Live)>::deserialize(ctx).map(|t| unbox(vec![t.0, t.1, t.2, t.3]))?,
                5 => <(Live, Live, Live, Live, Live)>::deserialize(ctx).map(|t| unbox(vec![t.0, t.1, t.2, t.3, t.4]))?,
                6 => <(Live, Live, Live, Live, Live, Live)>::deserialize(ctx).map(|t| unbox(vec![t.0, t.1, t.2, t.3, t.4, t.5]))?,
                7 => <(Live, Live, Live, Live, Live, Live, Live)>::deserialize(ctx).map(|t| unbox(vec![t.0, t.1, t.2, t.3, t.4, t.5, t.6]))?,
                8 => <(Live, Live, Live, Live, Live, Live, Live, Live)>::deserialize(ctx).map(|t| unbox(vec![t.0, t.1, t.2, t.3, t.4, t.5, t.6, t.7]))?,
                n => panic!("tuple arity {n}"),
            }
        }
        Vec(e) if **e == U8 => Live::VecU8(std::vec::Vec::<u8>::deserialize(ctx)?),
        Vec(e) if **e == I8 => Live::VecI8(std::vec::Vec::<i8>::deserialize(ctx)?),
        Vec(e) if **e == Bool => Live::VecBool(std::vec::Vec::<bool>::deserialize(ctx)?),
        Vec(e) if zst_decl(e).is_some() => {
            let d = zst_decl(e).unwrap();
            Live::ZstAdt(d.clone(), 0, crate::compiled::zst_seq_deserialize(&d.name, 0, 0, ctx)?)
        }
        Array(e, n) if zst_decl(e).is_some() => {
            let d = zst_decl(e).unwrap();
            Live::ZstAdt(d.clone(), 2, crate::compiled::zst_seq_deserialize(&d.name, 2, *n, ctx)?)
        }
        Vec(e) if **e == Unit => Live::VecUnit(std::vec::Vec::<()>::deserialize(ctx)?),
        HashSet(e) if **e == Unit => Live::Zst(0, std::collections::HashSet::<()>::deserialize(ctx)?.len()),
        HashSet(e) if **e == Phantom => Live::Zst(5, std::collections::HashSet::<PhantomData<u64>>::deserialize(ctx)?.len()),
        BTreeSet(e) if **e == Unit => Live::Zst(1, std::collections::BTreeSet::<()>::deserialize(ctx)?.len()),
        LinkedList(e) if **e == Unit => Live::Zst(2, std::collections::LinkedList::<()>::deserialize(ctx)?.len()),
        HashMap(k, w) if **k == Unit && **w == Unit => Live::Zst(3, std::collections::HashMap::<(), ()>::deserialize(ctx)?.len()),
        BTreeMap(k, w) if **k == Unit && **w == Unit => Live::Zst(4, std::collections::BTreeMap::<(), ()>::deserialize(ctx)?.len()),
        Vec(e) => {
            let _g = FrameGuard::push(vec![(**e).clone()]);
            Live::Vec(std::vec::Vec::<Live>::deserialize(ctx)?)
        }
        Array(e, n) if **e == U8 => Live::ArrayU8(arr_dispatch!(*n, de_arr, [_], ctx)?),
        Array(e, n) if **e == I8 => Live::ArrayI8(arr_dispatch!(*n, de_arr, [_], ctx)?),
        Array(e, n) if **e == Bool => Live::ArrayBool(arr_dispatch!(*n, de_arr, [_], ctx)?),
        Array(e, n) if **e == Unit => {
            let v: std::vec::Vec<()> = arr_dispatch!(*n, de_arr, [_], ctx)?;
            Live::ArrayUnit(v.len())
        }
        Array(e, n) => {
            let _g = FrameGuard::push(vec![(**e).clone()]);
            Live::Array(arr_dispatch!(*n, de_arr, [_], ctx)?)
        }
        Bytes => Live::Bytes(bytes::Bytes::deserialize(ctx)?),
        LinkedList(e) => {
            let _g = FrameGuard::push(vec![(**e).clone()]);
            Live::LinkedList(std::collections::LinkedList::<Live>::deserialize(ctx)?)
        }
        HashSet(e) => {
            let _g = FrameGuard::push(vec![(**e).clone()]);
            Live::HashSet(std::collections::HashSet::<Live>::deserialize(ctx)?)
        }
        BTreeSet(e) => {
            let _g = FrameGuard::push(vec![(**e).clone()]);
            Live::BTreeSet(std::collections::BTreeSet::<Live>::deserialize(ctx)?)
        }
        HashMap(k, w) => {
            let _g = FrameGuard::push(vec![(**k).clone(), (**w).clone()]);
            Live::HashMap(std::collections::HashMap::<Live, Live>::deserialize(ctx)?)
        }
        BTreeMap(k, w) => {
            let _g = FrameGuard::push(vec![(**k).clone(), (**w).clone()]);
            Live::BTreeMap(std::collections::BTreeMap::<Live, Live>::deserialize(ctx)?)
        }
        Box(t) => {
            let _g = FrameGuard::push(vec![(**t).clone()]);
            Live::Boxed(std::boxed::Box::<Live>::deserialize(ctx)?)
        }
        Rc(t) => {
            let _g = FrameGuard::push(vec![(**t).clone()]);
            Live::Rc(std::rc::Rc::<Live>::deserialize(ctx)?)
        }
        Arc(t) => {
            let _g = FrameGuard::push(vec![(**t).clone()]);
            Live::Arc(std::sync::Arc::<Live>::deserialize(ctx)?)
        }
        Uuid => Live::Uuid(uuid::Uuid::deserialize(ctx)?),
        Weekday => Live::Weekday(chrono::Weekday::deserialize(ctx)?),
        Month => Live::Month(chrono::Month::deserialize(ctx)?),
        FixedOffset => Live::FixedOffset(chrono::FixedOffset::deserialize(ctx)?),
        Tz => Live::Tz(chrono_tz::Tz::deserialize(ctx)?),
        NaiveDate => Live::NaiveDate(chrono::NaiveDate::deserialize(ctx)?),
        NaiveTime => Live::NaiveTime(chrono::NaiveTime::deserialize(ctx)?),
        NaiveDateTime => Live::NaiveDateTime(chrono::NaiveDateTime::deserialize(ctx)?),
        DtUtc => Live::DtUtc(DateTime::<Utc>::deserialize(ctx)?),
        DtLocal => Live::DtLocal(DateTime::<Local>::deserialize(ctx)?),
        DtFixed => Live::DtFixed(DateTime::<chrono::FixedOffset>::deserialize(ctx)?),
        DtTz => Live::DtTz(DateTime::<chrono_tz::Tz>::deserialize(ctx)?),
        BigInt => Live::BigInt(bigdecimal::num_bigint::BigInt::deserialize(ctx)?),
        BigDecimal => Live::BigDecimal(bigdecimal::BigDecimal::deserialize(ctx)?),
        Adt(d) => {
            let _g = DeclGuard::push(d.clone());
            decode_decl(d, ctx)?
        }
        Rec(name) => {
            let d = find_decl(name);
            let _g = DeclGuard::push(d.clone());
            decode_decl(&d, ctx)?
        }
        Slice(_) | StrRef | Ref(_) | RcStr | RcSlice(_) => panic!("serialize-only type {}", ty.render()),
    })
}

fn decode_decl(d: &Arc<Decl>, ctx: &mut DeserializationContext<'_>) -> Result<Live> {
    if crate::compiled::is_compiled(&d.name) {
        Ok(Live::Compiled(Compiled::deserialize(&d.name, ctx)?))
    } else {
        Ok(Live::Dyn(dynrec::DynAdt::deserialize(d, ctx)?))
    }
}

/// `Result<R, E>` decodes exactly one side; these wrappers select the frame slot of that side.
struct OkSide(Live);
struct ErrSide(Live);
fn frame_slot(i: usize) -> Ty {
    FRAMES.with(|f| f.borrow().last().expect("frame").tys[i].clone())
}
impl BinaryDeserializer for OkSide {
    fn deserialize(ctx: &mut DeserializationContext<'_>) -> Result<Self> {
        Ok(OkSide(decode_as(&frame_slot(0), ctx)?))
    }
}
impl BinaryDeserializer for ErrSide {
    fn deserialize(ctx: &mut DeserializationContext<'_>) -> Result<Self> {
        Ok(ErrSide(decode_as(&frame_slot(1), ctx)?))
    }
}

impl BinaryDeserializer for Live {
    fn deserialize(ctx: &mut DeserializationContext<'_>) -> Result<Self> {
        let ty = next_ty();
        decode_as(&ty, ctx)
    }
}

/// top-level decode of `ty` through `desert::deserialize`
pub fn decode(ty: &Ty, bytes: &[u8]) -> Result<Live> {
    reset_tls();
    let _g = FrameGuard::push(vec![ty.clone()]);
    desert::deserialize::<Live>(bytes)
}

/// decode from a caller-owned context (C07: what is left unread is then observable)
pub fn decode_in(ty: &Ty, ctx: &mut DeserializationContext<'_>) -> Result<Live> {
    let _g = FrameGuard::push(vec![ty.clone()]);
    Live::deserialize(ctx)
}
