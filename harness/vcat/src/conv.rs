//! `Conv`: Val <-> static Rust types, for the field types of compiled (derive-macro) declarations.
use bigdecimal::num_bigint::BigInt;
use std::collections::{BTreeMap, HashSet};
use std::time::Duration;
use vmodel::Val;

pub trait Conv: Sized {
    fn from_val(v: &Val) -> Self;
    fn to_val(&self) -> Val;
}

/// DeduplicatedString with the derives a generated declaration needs
#[derive(Debug, Clone, PartialEq, Eq, Hash)]
pub struct DS(pub String);

impl desert::BinarySerializer for DS {
    fn serialize<O: desert::BinaryOutput>(&self, ctx: &mut desert::SerializationContext<O>) -> desert::Result<()> {
        desert::DeduplicatedString(self.0.clone()).serialize(ctx)
    }
}
impl desert::BinaryDeserializer for DS {
    fn deserialize(ctx: &mut desert::DeserializationContext<'_>) -> desert::Result<Self> {
        Ok(DS(desert::DeduplicatedString::deserialize(ctx)?.0))
    }
}

macro_rules! conv_int {
    ($($t:ty),*) => {$(
        impl Conv for $t {
            fn from_val(v: &Val) -> Self { v.as_int() as $t }
            fn to_val(&self) -> Val { Val::Int(*self as i128) }
        }
    )*};
}
conv_int!(u8, i8, u16, i16, u32, i32, u64, i64, i128);

impl Conv for bool {
    fn from_val(v: &Val) -> Self {
        matches!(v, Val::Bool(true))
    }
    fn to_val(&self) -> Val {
        Val::Bool(*self)
    }
}
impl Conv for () {
    fn from_val(_: &Val) -> Self {}
    fn to_val(&self) -> Val {
        Val::Unit
    }
}
impl Conv for char {
    fn from_val(v: &Val) -> Self {
        match v {
            Val::Char(c) => char::from_u32(*c).unwrap(),
            _ => panic!("char"),
        }
    }
    fn to_val(&self) -> Val {
        Val::Char(*self as u32)
    }
}
impl Conv for f64 {
    fn from_val(v: &Val) -> Self {
        match v {
            Val::F64(b) => f64::from_bits(*b),
            _ => panic!("f64"),
        }
    }
    fn to_val(&self) -> Val {
        Val::F64(self.to_bits())
    }
}
impl Conv for String {
    fn from_val(v: &Val) -> Self {
        match v {
            Val::Str(s) => s.clone(),
            _ => panic!("String from {v:?}"),
        }
    }
    fn to_val(&self) -> Val {
        Val::Str(self.clone())
    }
}
impl Conv for DS {
    fn from_val(v: &Val) -> Self {
        DS(String::from_val(v))
    }
    fn to_val(&self) -> Val {
        Val::Str(self.0.clone())
    }
}
impl Conv for Duration {
    fn from_val(v: &Val) -> Self {
        match v {
            Val::Duration(s, n) => Duration::new(*s, *n),
            _ => panic!("Duration"),
        }
    }
    fn to_val(&self) -> Val {
        Val::Duration(self.as_secs(), self.subsec_nanos())
    }
}
impl Conv for uuid::Uuid {
    fn from_val(v: &Val) -> Self {
        match v {
            Val::Bytes(b) => uuid::Uuid::from_slice(b).unwrap(),
            _ => panic!("Uuid"),
        }
    }
    fn to_val(&self) -> Val {
        Val::Bytes(self.as_bytes().to_vec())
    }
}
impl Conv for BigInt {
    fn from_val(v: &Val) -> Self {
        match v {
            Val::Bytes(b) => BigInt::from_signed_bytes_be(b),
            _ => panic!("BigInt"),
        }
    }
    fn to_val(&self) -> Val {
        Val::Bytes(self.to_signed_bytes_be())
    }
}
impl Conv for chrono::NaiveDate {
    fn from_val(v: &Val) -> Self {
        match v {
            Val::Date(y, m, d) => chrono::NaiveDate::from_ymd_opt(*y, *m as u32, *d as u32).unwrap(),
            _ => panic!("NaiveDate"),
        }
    }
    fn to_val(&self) -> Val {
        use chrono::Datelike;
        Val::Date(self.year(), self.month() as u8, self.day() as u8)
    }
}

/// `Vec<u8>` travels as `Val::Bytes`, every other vector as `Val::Seq`
pub trait ConvElem: Conv {
    fn vec_from(v: &Val) -> Vec<Self> {
        v.as_seq().iter().map(Self::from_val).collect()
    }
    fn vec_to(xs: &[Self]) -> Val {
        Val::Seq(xs.iter().map(|x| x.to_val()).collect())
    }
}
impl ConvElem for u8 {
    fn vec_from(v: &Val) -> Vec<u8> {
        match v {
            Val::Bytes(b) => b.clone(),
            _ => panic!("bytes"),
        }
    }
    fn vec_to(xs: &[u8]) -> Val {
        Val::Bytes(xs.to_vec())
    }
}
macro_rules! conv_elem { ($($t:ty),*) => {$( impl ConvElem for $t {} )*}; }
conv_elem!(i8, u16, i16, u32, i32, u64, i64, i128, bool, (), char, f64, String, DS, Duration, uuid::Uuid, BigInt, chrono::NaiveDate);
impl<T: Conv> ConvElem for Option<T> {}
impl<T: ConvElem> ConvElem for Vec<T> {}
impl<A: Conv, B: Conv> ConvElem for (A, B) {}
impl<A: Conv> ConvElem for (A,) {}
impl<T: Conv> ConvElem for Box<T> {}

impl<T: ConvElem> Conv for Vec<T> {
    fn from_val(v: &Val) -> Self {
        T::vec_from(v)
    }
    fn to_val(&self) -> Val {
        T::vec_to(self)
    }
}
impl<T: ConvElem, const N: usize> Conv for [T; N] {
    fn from_val(v: &Val) -> Self {
        T::vec_from(v).try_into().ok().expect("array length")
    }
    fn to_val(&self) -> Val {
        T::vec_to(self)
    }
}
impl<T: Conv> Conv for Option<T> {
    fn from_val(v: &Val) -> Self {
        match v {
            Val::None => None,
            Val::Some(x) => Some(T::from_val(x)),
            _ => panic!("Option from {v:?}"),
        }
    }
    fn to_val(&self) -> Val {
        match self {
            None => Val::None,
            Some(x) => Val::some(x.to_val()),
        }
    }
}
impl<A: Conv, B: Conv> Conv for Result<A, B> {
    fn from_val(v: &Val) -> Self {
        match v {
            Val::Ok(x) => Ok(A::from_val(x)),
            Val::Err(x) => Err(B::from_val(x)),
            _ => panic!("Result"),
        }
    }
    fn to_val(&self) -> Val {
        match self {
            Ok(x) => Val::Ok(Box::new(x.to_val())),
            Err(x) => Val::Err(Box::new(x.to_val())),
        }
    }
}
impl<A: Conv> Conv for (A,) {
    fn from_val(v: &Val) -> Self {
        (A::from_val(&v.as_seq()[0]),)
    }
    fn to_val(&self) -> Val {
        Val::Tuple(vec![self.0.to_val()])
    }
}
impl<T> Conv for std::marker::PhantomData<T> {
    fn from_val(_: &Val) -> Self {
        std::marker::PhantomData
    }
    fn to_val(&self) -> Val {
        Val::Unit
    }
}
impl<A: Conv, B: Conv> Conv for (A, B) {
    fn from_val(v: &Val) -> Self {
        let xs = v.as_seq();
        (A::from_val(&xs[0]), B::from_val(&xs[1]))
    }
    fn to_val(&self) -> Val {
        Val::Tuple(vec![self.0.to_val(), self.1.to_val()])
    }
}
impl<T: Conv> Conv for Box<T> {
    fn from_val(v: &Val) -> Self {
        Box::new(T::from_val(v))
    }
    fn to_val(&self) -> Val {
        (**self).to_val()
    }
}
impl<K: Conv + Ord, V: Conv> Conv for BTreeMap<K, V> {
    fn from_val(v: &Val) -> Self {
        match v {
            Val::Map(ps) => ps.iter().map(|(k, w)| (K::from_val(k), V::from_val(w))).collect(),
            _ => panic!("map"),
        }
    }
    fn to_val(&self) -> Val {
        Val::Map(self.iter().map(|(k, w)| (k.to_val(), w.to_val())).collect())
    }
}
impl<T: Conv> Conv for std::collections::LinkedList<T> {
    fn from_val(v: &Val) -> Self {
        v.as_seq().iter().map(T::from_val).collect()
    }
    fn to_val(&self) -> Val {
        Val::Seq(self.iter().map(|x| x.to_val()).collect())
    }
}

impl<K: Conv + Eq + std::hash::Hash, V: Conv> Conv for std::collections::HashMap<K, V> {
    fn from_val(v: &Val) -> Self {
        match v {
            Val::Map(ps) => ps.iter().map(|(k, w)| (K::from_val(k), V::from_val(w))).collect(),
            _ => panic!("map"),
        }
    }
    fn to_val(&self) -> Val {
        Val::Map(self.iter().map(|(k, w)| (k.to_val(), w.to_val())).collect())
    }
}

impl<T: Conv + Eq + std::hash::Hash> Conv for HashSet<T> {
    fn from_val(v: &Val) -> Self {
        v.as_seq().iter().map(T::from_val).collect()
    }
    fn to_val(&self) -> Val {
        Val::Seq(self.iter().map(|x| x.to_val()).collect())
    }
}
