//! C15: sink independence, exact size (a), and agreement of the three BinaryInput implementations (b).
use crate::props::builtin::{tv_strategy, TV};
use crate::run::{drive, parallel, to_json, Cx, Verdict};
use crate::PropResult;
use desert::{BinaryInput, DeserializationContext, OwnedInput, SliceInput};
use proptest::prelude::*;
use proptest::strategy::BoxedStrategy;
use serde::{Deserialize, Serialize};
use serde_json::{json, Value};
use vmodel::evidence::Acc;
use vmodel::gen::{root_class, ValCfg};
use vmodel::{derive_seed, hash_json, hex};

pub fn check_sinks(c: &TV, acc: &mut Acc, record: bool) -> Verdict {
    let rep = vcat::encode_all_sinks(&c.ty, &c.val);
    let first = &rep.outputs[0].1;
    if record {
        let class = format!("sinks:{}", root_class(&c.ty));
        let len = first.as_ref().map(|b| b.len()).unwrap_or(0);
        acc.case(&class, hash_json(&(&c.ty, &c.val)), len >= 2 || first.is_err());
        if first.is_err() {
            acc.bump("sink_cases_where_encoding_fails", 1);
        }
        if vmodel::refcodec::has_dedup_sources(&c.ty) {
            if let Ok(f) = vmodel::refcodec::ref_encode(&c.ty, &c.val) {
                if f.sites.iter().any(|s| s.kind == vmodel::refcodec::SiteKind::DedupRef) {
                    acc.bump("sink_cases_with_a_string_back_reference", 1);
                }
            }
        }
        if acc.wants_sample(&class) {
            acc.sample(&class, json!({"type": c.ty.render(), "value": c.val.brief(), "bytes": first.as_ref().map(|b| hex(&b[..b.len().min(48)])).unwrap_or_else(|e| format!("Err {}", e.kind)), "size_calculator": format!("{:?}", rep.size.as_ref().map_err(|e| e.kind.clone()))}));
        }
    }
    for (name, out) in &rep.outputs[1..] {
        let same = match (first, out) {
            (Ok(a), Ok(b)) => a == b,
            (Err(a), Err(b)) => a.kind == b.kind && a.detail == b.detail,
            _ => false,
        };
        if !same {
            return Verdict::Fail(format!("{} differs from {}: {:?} vs {:?} for {} of {}", name, rep.outputs[0].0, out.as_ref().map(|b| hex(b)), first.as_ref().map(|b| hex(b)), c.val.brief(), c.ty.render()));
        }
    }
    match (first, &rep.size) {
        (Ok(b), Ok(n)) if b.len() == *n => Verdict::Pass,
        (Err(a), Err(b)) if a.kind == b.kind => Verdict::Pass,
        (a, b) => Verdict::Fail(format!("SizeCalculator reports {:?} but the stream is {:?} for {} of {}", b, a.as_ref().map(|x| x.len()), c.val.brief(), c.ty.render())),
    }
}

// ---- (b) primitive read sequences -------------------------------------------------------------------------------

#[derive(Debug, Clone, Serialize, Deserialize, PartialEq)]
pub enum Op {
    U8,
    I8,
    U16,
    I16,
    U32,
    I32,
    U64,
    I64,
    U128,
    I128,
    F32,
    F64,
    VarU32,
    VarI32,
    /// count relative to what remains: see `count`
    Bytes(Cnt),
    Skip(Cnt),
    Compressed,
}

#[derive(Debug, Clone, Serialize, Deserialize, PartialEq)]
pub enum Cnt {
    Abs(usize),
    RemainingPlus(i64),
    Max,
    MaxMinusPos,
}

#[derive(Debug, Clone, Serialize, Deserialize)]
pub struct OpsCase {
    pub data: Vec<u8>,
    pub ops: Vec<Op>,
}

fn cnt_strategy() -> BoxedStrategy<Cnt> {
    prop_oneof![
        4 => (0usize..20).prop_map(Cnt::Abs),
        4 => (-2i64..=2).prop_map(Cnt::RemainingPlus),
        1 => Just(Cnt::Max),
        1 => Just(Cnt::MaxMinusPos),
        1 => prop::sample::select(vec![usize::MAX / 2, usize::MAX - 1, 1usize << 32, (1usize << 63) + 5]).prop_map(Cnt::Abs),
        // counts around the sizes at which an input may change strategy (meaningful on the larger buffers below)
        1 => prop::sample::select(vec![255usize, 256, 1023, 1024, 4095, 4096, 4097, 8191, 8192, 10_000, 65_535, 65_536]).prop_map(Cnt::Abs),
        1 => (-9000i64..-2).prop_map(Cnt::RemainingPlus),
    ]
    .boxed()
}

pub fn ops_strategy() -> BoxedStrategy<OpsCase> {
    let op = prop_oneof![
        2 => Just(Op::U8),
        1 => Just(Op::I8),
        1 => Just(Op::U16),
        1 => Just(Op::I16),
        1 => Just(Op::U32),
        1 => Just(Op::I32),
        1 => Just(Op::U64),
        1 => Just(Op::I64),
        1 => Just(Op::U128),
        1 => Just(Op::I128),
        1 => Just(Op::F32),
        1 => Just(Op::F64),
        2 => Just(Op::VarU32),
        2 => Just(Op::VarI32),
        4 => cnt_strategy().prop_map(Op::Bytes),
        4 => cnt_strategy().prop_map(Op::Skip),
        1 => Just(Op::Compressed),
    ];
    let data = prop_oneof![
        24 => proptest::collection::vec(any::<u8>(), 0..48),
        1 => (prop::sample::select(vec![4000usize, 4096, 4200, 9000, 20_000, 70_000]), any::<u8>()).prop_map(|(n, s)| (0..n).map(|i| (i as u8).wrapping_mul(s | 1) ^ (i >> 7) as u8).collect()),
        6 => proptest::collection::vec(prop::sample::select(vec![0u8, 1, 0x7f, 0x80, 0xff]), 0..24),
        6 => proptest::collection::vec(any::<u8>(), 0..40).prop_map(|d| {
            // a well-formed compressed frame followed by noise, so that Compressed sometimes succeeds
            use desert::BinaryOutput;
            let mut o = Vec::new();
            o.write_compressed(&d, Default::default()).unwrap();
            o.extend_from_slice(&d[..d.len().min(5)]);
            o
        }),
    ];
    (data, proptest::collection::vec(op, 0..14)).prop_map(|(data, ops)| OpsCase { data, ops }).boxed()
}

/// position tracking is ours: the inputs do not expose it uniformly
fn run_ops<I: BinaryInput>(input: &mut I, data: &[u8], ops: &[Op]) -> Vec<String> {
    let len = data.len();
    let mut out = Vec::new();
    let mut pos = 0usize; // model position, advanced from the results themselves
    for op in ops {
        let remaining = len - pos.min(len);
        let count = |c: &Cnt| -> usize {
            match c {
                Cnt::Abs(n) => *n,
                Cnt::RemainingPlus(d) => (remaining as i64 + d).max(0) as usize,
                Cnt::Max => usize::MAX,
                Cnt::MaxMinusPos => usize::MAX - pos,
            }
        };
        macro_rules! fixed {
            ($m:ident, $n:expr) => {{
                let r = input.$m();
                if r.is_ok() {
                    pos += $n;
                }
                match r {
                    Ok(v) => format!("{}={:?}", stringify!($m), v),
                    Err(e) => format!("{}!{}", stringify!($m), vcat::errinfo(&e).kind),
                }
            }};
        }
        let line = match op {
            Op::U8 => fixed!(read_u8, 1),
            Op::I8 => fixed!(read_i8, 1),
            Op::U16 => fixed!(read_u16, 2),
            Op::I16 => fixed!(read_i16, 2),
            Op::U32 => fixed!(read_u32, 4),
            Op::I32 => fixed!(read_i32, 4),
            Op::U64 => fixed!(read_u64, 8),
            Op::I64 => fixed!(read_i64, 8),
            Op::U128 => fixed!(read_u128, 16),
            Op::I128 => fixed!(read_i128, 16),
            Op::F32 => match input.read_f32() {
                Ok(v) => {
                    pos += 4;
                    format!("f32={:08x}", v.to_bits())
                }
                Err(e) => format!("f32!{}", vcat::errinfo(&e).kind),
            },
            Op::F64 => match input.read_f64() {
                Ok(v) => {
                    pos += 8;
                    format!("f64={:016x}", v.to_bits())
                }
                Err(e) => format!("f64!{}", vcat::errinfo(&e).kind),
            },
            Op::VarU32 => {
                model_var(data, &mut pos);
                match input.read_var_u32() {
                    Ok(v) => format!("varu32={v}"),
                    Err(e) => format!("varu32!{}", vcat::errinfo(&e).kind),
                }
            }
            Op::VarI32 => {
                model_var(data, &mut pos);
                match input.read_var_i32() {
                    Ok(v) => format!("vari32={v}"),
                    Err(e) => format!("vari32!{}", vcat::errinfo(&e).kind),
                }
            }
            Op::Bytes(c) => {
                let n = count(c);
                match input.read_bytes(n) {
                    Ok(b) => {
                        pos += n;
                        format!("bytes({n})={}", hex(b))
                    }
                    Err(e) => format!("bytes({n})!{}", vcat::errinfo(&e).kind),
                }
            }
            Op::Skip(c) => {
                let n = count(c);
                match input.skip(n) {
                    Ok(()) => {
                        pos += n;
                        format!("skip({n})")
                    }
                    Err(e) => format!("skip({n})!{}", vcat::errinfo(&e).kind),
                }
            }
            Op::Compressed => {
                if model_var(data, &mut pos).is_some() {
                    if let Some(c) = model_var(data, &mut pos) {
                        if c as usize <= len - pos {
                            pos += c as usize;
                        }
                    }
                }
                match input.read_compressed() {
                    Ok(b) => format!("compressed={}", hex(&b)),
                    Err(e) => format!("compressed!{}", vcat::errinfo(&e).kind),
                }
            }
        };
        out.push(line);
    }
    // where does each input think the end is: drain
    let mut tail = 0;
    while input.read_u8().is_ok() {
        tail += 1;
    }
    out.push(format!("tail={tail}"));
    out
}

/// position model of a varint read: consumes up to five bytes, stops after a byte without continuation bit
fn model_var(data: &[u8], pos: &mut usize) -> Option<u32> {
    let mut r: u32 = 0;
    for i in 0..5 {
        if *pos >= data.len() {
            return None;
        }
        let b = data[*pos];
        *pos += 1;
        r |= ((b & 0x7f) as u32).wrapping_shl(7 * i);
        if i < 4 && b & 0x80 == 0 {
            return Some(r);
        }
    }
    Some(r)
}

pub fn check_ops(c: &OpsCase, acc: &mut Acc, record: bool) -> Verdict {
    let a = run_ops(&mut SliceInput::new(&c.data), &c.data, &c.ops);
    let b = run_ops(&mut OwnedInput::new(c.data.clone()), &c.data, &c.ops);
    let d = run_ops(&mut DeserializationContext::new(&c.data), &c.data, &c.ops);
    if record {
        let ok_multi = a.iter().any(|l| l.contains('=') && !l.starts_with("read_u8") && !l.starts_with("read_i8") && !l.starts_with("tail"));
        let failing = a.iter().any(|l| l.contains('!'));
        acc.case("inputs", hash_json(c), ok_multi && failing);
        if failing {
            acc.bump("op_sequences_with_a_failing_op", 1);
        }
        if acc.wants_sample("inputs") && ok_multi && failing {
            acc.sample("inputs", json!({"data_hex": hex(&c.data), "ops": format!("{:?}", c.ops), "results": a}));
        }
    }
    if a != b || a != d {
        let i = (0..a.len()).find(|i| a[*i] != b[*i] || a[*i] != d[*i]).unwrap();
        return Verdict::Fail(format!("inputs disagree at op {i}: SliceInput {:?} OwnedInput {:?} DeserializationContext {:?} (data {})", a[i], b[i], d[i], hex(&c.data)));
    }
    // the same bytes as a chunk of an evolved record in the middle of a larger buffer: inside that chunk the context
    // must behave like an input over exactly these bytes (short data only: the record is rebuilt per case)
    if c.data.len() <= 64 {
        match ops_inside_chunk(&c.data, &c.ops) {
            Ok(inner) => {
                if inner != a {
                    let i = (0..a.len()).find(|i| a[*i] != inner[*i]).unwrap_or(0);
                    return Verdict::Fail(format!("inside a chunk of an evolved record the context disagrees with SliceInput over the chunk's bytes at op {i}: {:?} vs {:?} (chunk {}, bytes follow the chunk in the buffer)", inner.get(i), a.get(i), hex(&c.data)));
                }
                if record {
                    acc.bump("op_sequences_also_run_inside_a_chunk", 1);
                }
            }
            Err(e) => return Verdict::Fail(format!("reading a hand-built record around the data failed: {e}")),
        }
    }
    Verdict::Pass
}

thread_local! {
    static CHUNK_OPS: std::cell::RefCell<(Vec<Op>, Vec<u8>, Vec<String>)> = const { std::cell::RefCell::new((Vec::new(), Vec::new(), Vec::new())) };
}

/// field codec that runs the thread's op sequence on the context it is handed
struct OpsRunner;
impl desert::BinaryDeserializer for OpsRunner {
    fn deserialize(context: &mut DeserializationContext<'_>) -> desert::Result<Self> {
        let (ops, data) = CHUNK_OPS.with(|c| {
            let c = c.borrow();
            (c.0.clone(), c.1.clone())
        });
        let lines = run_ops(context, &data, &ops);
        CHUNK_OPS.with(|c| c.borrow_mut().2 = lines);
        Ok(OpsRunner)
    }
}

fn ops_inside_chunk(data: &[u8], ops: &[Op]) -> Result<Vec<String>, String> {
    use desert::adt::{AdtDeserializer, AdtMetadata};
    let meta = AdtMetadata::new(vec![desert::Evolution::InitialVersion, desert::Evolution::FieldAdded { name: "ops".into() }, desert::Evolution::FieldAdded { name: "after".into() }]);
    let mut input = vec![0xC3, 0x3C, 2];
    vmodel::refcodec::var_i32(1, &mut input);
    vmodel::refcodec::var_i32(data.len() as i32, &mut input);
    vmodel::refcodec::var_i32(3, &mut input);
    input.push(0x55);
    input.extend_from_slice(data);
    // what follows the chunk in the buffer: bytes that read well as anything
    input.extend_from_slice(&[0x01, 0x02, 0x03, 0x7f, 0x7f, 0x7f, 0x7f, 0x7f, 0x7f, 0x7f, 0x7f, 0x7f, 0x7f, 0x7f, 0x7f, 0x7f, 0x7f, 0x7f, 0x7f]);
    CHUNK_OPS.with(|c| *c.borrow_mut() = (ops.to_vec(), data.to_vec(), Vec::new()));
    let e = |x: desert::Error| format!("{x:?}");
    let mut ctx = DeserializationContext::new(&input);
    ctx.read_u8().map_err(e)?;
    ctx.read_u8().map_err(e)?;
    let stored = ctx.read_u8().map_err(e)?;
    let mut de = AdtDeserializer::new(&meta, &mut ctx, stored).map_err(e)?;
    let first: u8 = de.read_field("first", None).map_err(e)?;
    if first != 0x55 {
        return Err("the sibling in chunk 0 changed".into());
    }
    if data.is_empty() {
        // an empty chunk is the header code for "no chunk": nothing to run the ops in
        return Ok(run_ops(&mut SliceInput::new(data), data, ops));
    }
    let _: OpsRunner = de.read_field("ops", None).map_err(e)?;
    Ok(CHUNK_OPS.with(|c| c.borrow().2.clone()))
}

#[derive(Debug, Clone, Serialize, Deserialize)]
enum Case {
    Sinks(TV),
    Ops(OpsCase),
    Blob(BlobSink),
    Static(StaticCase),
}

/// a value at its REAL static type (the run-time bridge hands the library one harness type, which hides whatever an
/// entry point does for particular types): text and bytes around the empty value, alone and inside other values
#[derive(Debug, Clone, Serialize, Deserialize)]
pub struct StaticCase {
    pub kind: u8,
    pub text: String,
    pub bytes: Vec<u8>,
    pub n: u32,
}

pub fn check_static_sinks(c: &StaticCase, acc: &mut Acc, record: bool) -> Verdict {
    use std::sync::Arc;
    use vmodel::{Ty, Val};
    fn through<T: desert::BinarySerializer>(v: &T) -> Vec<(&'static str, Result<Vec<u8>, String>)> {
        let e = |r: desert::Result<Vec<u8>>| r.map_err(|e| vcat::errinfo(&e).kind);
        vec![
            ("serialize(Vec<u8>)", e(desert::serialize(v, Vec::new()))),
            ("serialize(BytesMut)", e(desert::serialize(v, bytes::BytesMut::new()).map(|b| b.to_vec()))),
            ("serialize_to_bytes", e(desert::serialize_to_bytes(v).map(|b| b.to_vec()))),
            ("serialize_to_byte_vec", e(desert::serialize_to_byte_vec(v))),
            ("serialize(Recording)", e(desert::serialize(v, vcat::Recording { bytes: vec![], calls: 0, bytewise: false }).map(|r| r.bytes))),
            ("SizeCalculator (that many zero bytes)", e(desert::serialize(v, desert::SizeCalculator::new()).map(|s| vec![0u8; s.size()]))),
        ]
    }
    let a = |t: Ty| Arc::new(t);
    let (t, b) = (c.text.clone(), c.bytes.clone());
    if c.kind >= 128 {
        // the table of concrete container types (vcat::statics), with a generated value carried in `text` as JSON
        let table = vcat::statics::static_sink_types();
        let (name, ty, f) = &table[(c.kind as usize - 128) % table.len()];
        let val: Val = match serde_json::from_str(&c.text) {
            Ok(v) => v,
            Err(_) => return Verdict::Skip,
        };
        if record {
            acc.case(&format!("sinks: {name} at its static type"), hash_json(c), true);
        }
        let outs = match crate::run::guarded(|| f(&val)) {
            Ok(o) => o,
            Err(p) => return Verdict::Fail(format!("{name} = {}: panic {p}", val.brief())),
        };
        let hashy = ty.any(&|t| matches!(t, Ty::HashSet(_) | Ty::HashMap(..)));
        let want = vmodel::refcodec::ref_encode(ty, &val).map(|f| f.bytes);
        for (sink, out) in &outs[1..] {
            let same = match (&outs[0].1, out) {
                (Ok(a), Ok(b)) if sink.starts_with("SizeCalculator") => a.len() == b.len(),
                (Ok(a), Ok(b)) => a == b || hashy && a.len() == b.len(),
                (Err(a), Err(b)) => a == b,
                _ => false,
            };
            if !same {
                return Verdict::Fail(format!("{name} = {}: {sink} gives {:?} but {} gives {:?}", val.brief(), out.as_ref().map(|b| hex(b)), outs[0].0, outs[0].1.as_ref().map(|b| hex(b))));
            }
        }
        let sets = ty.any(&|t| matches!(t, Ty::HashSet(_) | Ty::HashMap(..) | Ty::BTreeMap(..) | Ty::BTreeSet(_)));
        if let (Ok(w), Ok(b), false) = (&want, &outs[0].1, sets) {
            if w != b {
                return Verdict::Fail(format!("{name} = {} encodes as {}; the format says {}", val.brief(), hex(b), hex(w)));
            }
        }
        return Verdict::Pass;
    }
    let (name, ty, val, outs) = match c.kind % 12 {
        0 => ("String", Ty::Str, Val::str(&t), through(&t)),
        1 => ("Vec<u8>", Ty::Bytes, Val::Bytes(b.clone()), through(&b)),
        2 => ("&str", Ty::Str, Val::str(&t), through(&t.as_str())),
        3 => ("Bytes", Ty::Bytes, Val::Bytes(b.clone()), through(&bytes::Bytes::from(b.clone()))),
        4 => ("Vec<String>", Ty::Vec(a(Ty::Str)), Val::Seq(vec![Val::str(&t), Val::str(&t)]), through(&vec![t.clone(), t.clone()])),
        5 => ("Option<String>", Ty::Option(a(Ty::Str)), Val::some(Val::str(&t)), through(&Some(t.clone()))),
        6 => ("(String, Vec<u8>)", Ty::Tuple(vec![Ty::Str, Ty::Bytes]), Val::Tuple(vec![Val::str(&t), Val::Bytes(b.clone())]), through(&(t.clone(), b.clone()))),
        7 => ("u32", Ty::U32, Val::Int(c.n as i128), through(&c.n)),
        8 => ("&[u8]", Ty::Bytes, Val::Bytes(b.clone()), through(&b.as_slice())),
        9 => ("Vec<u32>", Ty::Vec(a(Ty::U32)), Val::Seq(b.iter().map(|x| Val::Int(*x as i128 * 65_537)).collect()), through(&b.iter().map(|x| *x as u32 * 65_537).collect::<Vec<u32>>())),
        10 => ("Box<String>", Ty::Str, Val::str(&t), through(&Box::new(t.clone()))),
        _ => ("Option<Vec<u8>>", Ty::Option(a(Ty::Bytes)), if b.is_empty() && c.n % 2 == 0 { Val::None } else { Val::some(Val::Bytes(b.clone())) }, through(&if b.is_empty() && c.n % 2 == 0 { None } else { Some(b.clone()) })),
    };
    if record {
        acc.case(&format!("sinks: {name} at its static type"), hash_json(c), true);
    }
    let want = match vmodel::refcodec::ref_encode(&ty, &val) {
        Ok(f) => f.bytes,
        Err(e) => return Verdict::Fail(format!("HARNESS: the model cannot encode {val:?} as {name}: {e:?}")),
    };
    for (sink, out) in &outs {
        let ok = match out {
            Ok(bytes) if sink.starts_with("SizeCalculator") => bytes.len() == want.len(),
            Ok(bytes) => *bytes == want,
            Err(_) => false,
        };
        if !ok {
            return Verdict::Fail(format!("{name} {val:?} through {sink} gives {:?}; the format says {}", out.as_ref().map(|b| hex(b)), hex(&want)));
        }
    }
    Verdict::Pass
}

/// a value of a user codec that writes a compressed block through the context, to every sink
#[derive(Debug, Clone, Serialize, Deserialize)]
pub struct BlobSink {
    pub len: usize,
    pub seed: u64,
    pub compressible: bool,
    pub level: u32,
}

pub fn check_blob_sinks(c: &BlobSink, acc: &mut Acc, record: bool) -> Verdict {
    use crate::props::compressed::ZBlob;
    let mut s = c.seed | 1;
    let d: Vec<u8> = (0..c.len)
        .map(|i| {
            s ^= s << 13;
            s ^= s >> 7;
            s ^= s << 17;
            if c.compressible { (i % 7) as u8 } else { s as u8 }
        })
        .collect();
    let z = ZBlob(&d, flate2::Compression::new(c.level));
    let e = |r: desert::Result<Vec<u8>>| r.map_err(|e| vcat::errinfo(&e).kind);
    let outs = vec![
        ("serialize(Vec<u8>)", e(desert::serialize(&z, Vec::new()))),
        ("serialize(BytesMut)", e(desert::serialize(&z, bytes::BytesMut::new()).map(|b| b.to_vec()))),
        ("serialize_to_bytes", e(desert::serialize_to_bytes(&z).map(|b| b.to_vec()))),
        ("serialize_to_byte_vec", e(desert::serialize_to_byte_vec(&z))),
        ("serialize(Recording)", e(desert::serialize(&z, vcat::Recording { bytes: vec![], calls: 0, bytewise: false }).map(|r| r.bytes))),
        ("serialize(Recording bytewise)", e(desert::serialize(&z, vcat::Recording { bytes: vec![], calls: 0, bytewise: true }).map(|r| r.bytes))),
    ];
    let size = desert::serialize(&z, desert::SizeCalculator::new()).map(|s| s.size()).map_err(|e| vcat::errinfo(&e).kind);
    if record {
        let class = format!("sinks: compressed block through a user codec ({})", if c.compressible { "compressible" } else { "incompressible" });
        acc.case(&class, hash_json(c), c.len >= 2);
        if acc.wants_sample(&class) {
            acc.sample(&class, json!({"content_bytes": c.len, "level": c.level, "frame_bytes": outs[0].1.as_ref().map(|b| b.len()).unwrap_or(0), "size_calculator": format!("{size:?}")}));
        }
    }
    for (name, out) in &outs[1..] {
        if *out != outs[0].1 {
            return Verdict::Fail(format!("{name} differs from {} for a compressed block of {} bytes at level {}: {} vs {} bytes", outs[0].0, c.len, c.level, out.as_ref().map(|b| b.len()).unwrap_or(0), outs[0].1.as_ref().map(|b| b.len()).unwrap_or(0)));
        }
    }
    match (&outs[0].1, &size) {
        (Ok(b), Ok(n)) if b.len() == *n => Verdict::Pass,
        (a, b) => Verdict::Fail(format!("SizeCalculator reports {b:?} but the stream of a compressed block ({} content bytes, level {}) is {:?} bytes", c.len, c.level, a.as_ref().map(|x| x.len()))),
    }
}

pub fn run(cx: &Cx) -> PropResult {
    let depth = 3;
    let n_sinks = cx.n(30_000, 800_000);
    let n_ops = cx.n(60_000, 1_500_000);
    let acc = parallel(cx, &|shard, acc| {
        let cfg = ValCfg { non_bmp: true, ..ValCfg::default() };
        let strat = tv_strategy(depth, cfg);
        if drive(crate::run::tag_seed(derive_seed(cx.seed, cx.prop, shard as u64, 0), 0), &strat, n_sinks, acc, &|c: &TV| to_json(&Case::Sinks(c.clone())), &mut |c, a, r| check_sinks(c, a, r)) {
            return;
        }
        let strat = crate::props::builtin::ser_only_tv_strategy(cfg);
        if drive(crate::run::tag_seed(derive_seed(cx.seed, cx.prop, shard as u64, 2), 2), &strat, n_sinks / 5, acc, &|c: &TV| to_json(&Case::Sinks(c.clone())), &mut |c, a, r| check_sinks(c, a, r)) {
            return;
        }
        // values that exercise the per-call state: repeated deduplicated strings (six-string alphabet), derived types
        // with removed-field names in repeated headers
        let strat = crate::props::builtin::tv_strategy_ext(depth, ValCfg { small_alphabet: true, max_len: 6, ..ValCfg::default() }, true);
        if drive(crate::run::tag_seed(derive_seed(cx.seed, cx.prop, shard as u64, 3), 3), &strat, n_sinks / 2, acc, &|c: &TV| to_json(&Case::Sinks(c.clone())), &mut |c, a, r| check_sinks(c, a, r)) {
            return;
        }
        let strat = (prop_oneof![3 => 0usize..300, 2 => 300usize..40_000, 1 => 32_000usize..200_000, 1 => prop::sample::select(vec![127usize, 128, 16383, 16384, 32767, 32768, 65535, 65536])], any::<u64>(), any::<bool>(), 0u32..10).prop_map(|(len, seed, compressible, level)| BlobSink { len, seed, compressible, level });
        if drive(crate::run::tag_seed(derive_seed(cx.seed, cx.prop, shard as u64, 4), 4), &strat, cx.n(60, 3_000), acc, &|c: &BlobSink| to_json(&Case::Blob(c.clone())), &mut |c, a, r| check_blob_sinks(c, a, r)) {
            return;
        }
        let strat = (any::<u8>(), prop::sample::select(vec!["", "", "a", "\u{e9}", "two words", "\u{1f600}"]), prop_oneof![3 => Just(vec![]), 2 => proptest::collection::vec(any::<u8>(), 0..4), 1 => proptest::collection::vec(any::<u8>(), 120..140)], prop_oneof![Just(0u32), Just(127), Just(128), any::<u32>()])
            .prop_map(|(kind, text, bytes, n)| StaticCase { kind, text: text.to_string(), bytes, n });
        if drive(crate::run::tag_seed(derive_seed(cx.seed, cx.prop, shard as u64, 5), 5), &strat, cx.n(4_000, 100_000), acc, &|c: &StaticCase| to_json(&Case::Static(c.clone())), &mut |c, a, r| check_static_sinks(c, a, r)) {
            return;
        }
        // every concrete type of the static table through every sink
        let table = vcat::statics::static_sink_types();
        let strat = (0..table.len())
            .prop_flat_map(move |i| {
                let cfg = ValCfg { max_len: 6, long: false, non_bmp: i % 2 == 0, ..ValCfg::default() };
                vmodel::gen::val_strategy(&table[i].1, cfg).prop_map(move |v| StaticCase { kind: 128 + i as u8, text: serde_json::to_string(&v).unwrap_or_default(), bytes: vec![], n: 0 })
            })
            .boxed();
        if drive(crate::run::tag_seed(derive_seed(cx.seed, cx.prop, shard as u64, 6), 6), &strat, cx.n(6_000, 150_000), acc, &|c: &StaticCase| to_json(&Case::Static(c.clone())), &mut |c, a, r| check_static_sinks(c, a, r)) {
            return;
        }
        let strat = ops_strategy();
        drive(crate::run::tag_seed(derive_seed(cx.seed, cx.prop, shard as u64, 1), 1), &strat, n_ops, acc, &|c: &OpsCase| to_json(&Case::Ops(c.clone())), &mut |c, a, r| check_ops(c, a, r));
    });
    PropResult::new(
        acc,
        "exploration",
        "(a) generated (type, value) cases, including values whose encoding fails (non-BMP chars) and a stream of values over a six-string alphabet with DeduplicatedString and derived types (back-references, repeated header names): the same instance is serialized through serialize(Vec<u8>), serialize(BytesMut), serialize_to_bytes, serialize_to_byte_vec, a user-defined recording output and the same output fed byte by byte; all streams (or all errors) must be identical and SizeCalculator.size() must equal the length; so for values of a user codec that writes a compressed block (0 - 200 000 content bytes, compressible or not, levels 0-9) through the context. (b) generated sequences of primitive reads (fixed-width, varints, read_bytes / skip with counts 0, remaining-2..remaining+2, usize::MAX, usize::MAX-pos, huge; read_compressed) over generated byte strings (up to 48 bytes, one in 37 between 4 000 and 70 000 bytes with counts around 256, 1 024, 4 096, 8 192 and 65 536), executed on SliceInput, OwnedInput and DeserializationContext: results must agree op by op and the three must see the end of input at the same point; sequences over at most 64 bytes are also run by a field codec inside a chunk of an evolved record in the middle of a larger buffer, where the context must behave like an input over the chunk's bytes alone. (c) values at real static types (String, Vec<u8>, &str, Bytes, &[u8], Vec<String>, Option<..>, Box<String>, tuples) around the empty value through every entry point and sink against the reference bytes. Non-trivial = (a) encoding >= 2 bytes or failing; (b) a sequence with a successful multi-byte read and a failing op.",
    )
}

pub fn replay(case: &Value) -> Verdict {
    let c: Case = serde_json::from_value(case.clone()).expect("replay case");
    match c {
        Case::Sinks(tv) => check_sinks(&tv, &mut Acc::new(), false),
        Case::Ops(o) => check_ops(&o, &mut Acc::new(), false),
        Case::Blob(b) => check_blob_sinks(&b, &mut Acc::new(), false),
        Case::Static(c) => check_static_sinks(&c, &mut Acc::new(), false),
    }
}
