//! C18: calls are isolated and deterministic, also across threads.
//! Histories: a sequence of top-level calls runs in one thread of a FRESH child process; every call's result must equal
//! the result of the same call executed alone as the only call of a fresh process. Schedules: a child process starts
//! 16 threads which perform their first use of every compiled declaration simultaneously (per-type barrier, seeded
//! per-thread jitter); results must equal those of a single-threaded process.
use crate::props::builtin::{tv_strategy_ext, TV};
use crate::run::{guarded, parallel, runner, tag_seed, Cx, Verdict};
use crate::PropResult;
use proptest::prelude::*;
use proptest::strategy::{BoxedStrategy, ValueTree};
use serde::{Deserialize, Serialize};
use serde_json::{json, Value};
use std::collections::HashMap;
use std::sync::{Arc, Barrier, Mutex};
use vmodel::evidence::Acc;
use vmodel::gen::ValCfg;
use vmodel::{canon, derive_seed, fnv64, hash_json, Ty};

#[derive(Debug, Clone, Serialize, Deserialize)]
pub enum Call {
    Enc(TV),
    /// decode `bytes` (possibly damaged) as `ty`
    Dec { ty: Ty, bytes: Vec<u8> },
    /// several values into one stream (string ids must restart with every call)
    Stream(Vec<(Ty, vmodel::Val)>),
    Graph(crate::props::graphs::Graph),
    /// a compressed block of `len` bytes (period `period`) written at `level`, then read back
    Zip {
        len: usize,
        period: u8,
        level: u32,
        /// what happens to the frame before it is read back: 0 nothing, 1 cut short, 2 a payload byte changed, 3 the
        /// header claims 4000 bytes more content than the stream holds
        #[serde(default)]
        damage: u8,
    },
    /// decode a hand-written declaration whose default expressions (FieldAdded, #[transient]) build values with
    /// shared interior state, report that state as decoded, then change it THROUGH the decoded value
    Held { which: u8, bump: u32 },
}

const POOL: usize = 200;

/// The processes that execute calls (histories and their fresh-process references alike) run in a zone WITH daylight
/// saving (a POSIX rule, no zone files needed): local times then have a gap in spring and an ambiguous hour in autumn,
/// and what DateTime<Local> decodes to must still not depend on what the thread decoded before.
const CHILD_TZ: &str = "CET-1CEST,M3.5.0,M10.5.0/3";

fn has_hash(t: &Ty) -> bool {
    t.any(&|x| matches!(x, Ty::HashSet(_) | Ty::HashMap(..)))
}

/// the pool is a function of the seed only; every process regenerates it
pub fn pool(seed: u64) -> Vec<Call> {
    let cfg = ValCfg { non_bmp: true, transient_ctors: true, max_len: 4, long: false, ..ValCfg::default() };
    let dcfg = ValCfg { small_alphabet: true, max_len: 4, long: false, ..ValCfg::default() };
    let templates = crate::props::dedup::templates();
    let enc = tv_strategy_ext(2, cfg, true).prop_map(Call::Enc);
    let dec = (tv_strategy_ext(2, ValCfg { max_len: 4, long: false, ..ValCfg::default() }, true), 0u8..4, any::<u16>()).prop_map(|(tv, how, sel)| {
        // the reference encoder, not the writer: the pool must be identical in every process (a HashSet written by
        // the real writer iterates in a per-process order)
        let mut bytes = vmodel::refcodec::ref_encode(&tv.ty, &tv.val).map(|f| f.bytes).unwrap_or_default();
        match how {
            0 => {}
            1 => {
                let k = vmodel::gen::pick(sel, bytes.len() + 1);
                bytes.truncate(k)
            }
            2 => {
                if !bytes.is_empty() {
                    let k = vmodel::gen::pick(sel, bytes.len());
                    bytes[k] ^= 0x41
                }
            }
            _ => bytes.extend_from_slice(&[0xff, 0xff, 0xff, 0xff, 0x0f]),
        }
        Call::Dec { ty: tv.ty, bytes }
    });
    let stream = proptest::collection::vec(0..templates.len(), 1..=3).prop_flat_map(move |idx| {
        let ss: Vec<BoxedStrategy<(Ty, vmodel::Val)>> = idx
            .iter()
            .map(|i| {
                let ty = templates[*i].1.clone();
                vmodel::gen::val_strategy(&ty, dcfg).prop_map(move |v| (ty.clone(), v)).boxed()
            })
            .collect();
        ss.prop_map(Call::Stream)
    });
    let graph = (1usize..8).prop_flat_map(|n| (proptest::collection::vec(any::<u32>(), n..=n), proptest::collection::vec(proptest::collection::vec(0..n, 0..3), n..=n))).prop_map(|(labels, edges)| Call::Graph(crate::props::graphs::Graph { labels, edges }));
    // calls that keep coming back to the same few compiled declarations in different roles: every version of a history
    // as writer and as reader of every other version's bytes (intact, with a damaged header, cut), and the pairs of
    // declarations that share an identifier (Twin / m_twinother::Twin, TwinE / m_twineother::TwinE). Whatever a
    // process keeps per type, per name or per stored version between calls shows here.
    let b = crate::props::derived::batch();
    let mut groups: Vec<Vec<std::sync::Arc<vmodel::Decl>>> = Vec::new();
    // the histories with most to remember between calls first: an optional field that is later removed, a field made
    // optional, fields added (so that fields live in different chunks)
    let score = |g: &Vec<std::sync::Arc<vmodel::Decl>>| -> usize {
        let last = match &g.last().unwrap().body {
            vmodel::DeclBody::Struct(r) => r.clone(),
            _ => return 0,
        };
        let removed_optional = last.steps.iter().any(|s| matches!(s, vmodel::Step::Removed { name } | vmodel::Step::MadeTransient { name } if last.steps.iter().any(|t| matches!(t, vmodel::Step::MadeOptional { name: n } if n == name))));
        let kinds = [last.steps.iter().any(|s| matches!(s, vmodel::Step::Added { .. })), last.steps.iter().any(|s| matches!(s, vmodel::Step::MadeOptional { .. })), last.steps.iter().any(|s| matches!(s, vmodel::Step::Removed { .. } | vmodel::Step::MadeTransient { .. }))];
        4 * removed_optional as usize + kinds.iter().filter(|k| **k).count() + (last.fields.len() >= 3) as usize
    };
    let mut cands: Vec<_> = b.histories.iter().enumerate().filter(|(h, g)| g.len() >= 3 && !b.dedup_histories[*h] && crate::props::derived::group_ok(g)).map(|(_, g)| g.clone()).collect();
    cands.sort_by_key(|g| std::cmp::Reverse(score(g)));
    groups.extend(cands.into_iter().take(5));
    groups.extend(b.tuple_histories.iter().filter(|g| g.len() >= 3 && crate::props::derived::group_ok(g)).take(2).cloned());
    for pair in [vec!["Twin", "TwinOther"], vec!["TwinE", "TwinEOther"], vec!["MemoV0", "MemoV1", "MemoV2"]] {
        let g: Vec<_> = b.specials.iter().filter(|d| pair.contains(&d.name.as_str())).cloned().collect();
        if g.len() == pair.len() && crate::props::derived::group_ok(&g) {
            groups.push(g);
        }
    }
    let fam = (prop::sample::select(groups), any::<u16>(), any::<u16>(), 0u8..5, any::<u16>()).prop_flat_map(|(g, ws, rs, how, sel)| {
        let (w, r) = (vmodel::gen::pick(ws, g.len()), vmodel::gen::pick(rs, g.len()));
        let (tw, tr) = (Ty::Adt(g[w].clone()), Ty::Adt(g[r].clone()));
        vmodel::gen::val_strategy(&tw, ValCfg { max_len: 3, long: false, ..ValCfg::default() }).prop_map(move |v| {
            let v = vmodel::with_transient_defaults(&tw, &v);
            if how == 4 {
                return Call::Enc(TV { ty: tw.clone(), val: v, forms: vec![] });
            }
            let mut bytes = vmodel::refcodec::ref_encode(&tw, &v).map(|f| f.bytes).unwrap_or_default();
            match how {
                // a damaged header: one of the first bytes (version, chunk sizes, step codes) changed
                1 if !bytes.is_empty() => {
                    let k = vmodel::gen::pick(sel, bytes.len().min(8));
                    bytes[k] ^= [0x01, 0x02, 0x03, 0x7f][(sel % 4) as usize]
                }
                2 => {
                    let k = vmodel::gen::pick(sel, bytes.len() + 1);
                    bytes.truncate(k)
                }
                _ => {}
            }
            Call::Dec { ty: tr.clone(), bytes }
        })
    });
    let zip = (prop_oneof![Just(0usize), 1usize..40, 200usize..3000, Just(40_000usize)], 1u8..200, 0u32..10, prop_oneof![2 => Just(0u8), 1 => Just(1u8), 1 => Just(2u8), 1 => Just(3u8)]).prop_map(|(len, period, level, damage)| Call::Zip { len, period, level, damage });
    // encodes above 64 KiB (buffers that are kept around have size policies), and decodes of streams that cite a string
    // or an object that THIS stream never introduced (tables that are kept around have contents)
    let a = |t: Ty| Arc::new(t);
    let big = (prop::sample::select(vec![Ty::Str, Ty::Bytes, Ty::Vec(a(Ty::U16)), Ty::Tuple(vec![Ty::U8, Ty::Str])]), 66_000usize..200_000, any::<u8>()).prop_map(|(ty, n, b)| {
        let val = match &ty {
            Ty::Str => vmodel::Val::Str("s".repeat(n)),
            Ty::Bytes => vmodel::Val::Bytes(vec![b; n]),
            Ty::Vec(_) => vmodel::Val::Seq(vec![vmodel::Val::Int(b as i128); n / 2]),
            _ => vmodel::Val::Tuple(vec![vmodel::Val::Int(b as i128), vmodel::Val::Str("t".repeat(n))]),
        };
        Call::Enc(TV { ty, val, forms: vec![] })
    });
    let dangling = (1i32..4, 0u8..3).prop_map(move |(id, shape)| {
        let mut bytes = Vec::new();
        let ty = match shape {
            0 => {
                vmodel::refcodec::var_i32(2, &mut bytes);
                vmodel::refcodec::var_i32(-id, &mut bytes);
                vmodel::refcodec::var_i32(-id, &mut bytes);
                Ty::Vec(Arc::new(Ty::Dedup))
            }
            1 => {
                bytes.push(0);
                vmodel::refcodec::var_i32(-id, &mut bytes);
                bytes.extend_from_slice(&[2, b'z']);
                Ty::Tuple(vec![Ty::Dedup, Ty::Dedup])
            }
            _ => {
                vmodel::refcodec::var_i32(-id, &mut bytes);
                Ty::Dedup
            }
        };
        Call::Dec { ty, bytes }
    });
    // time zones: the same few zones again and again, correctly spelled and with one letter in the other case
    let tz = (prop::sample::select(vec!["Europe/Budapest", "UTC", "Asia/Tokyo"]), 0u8..4, any::<u16>(), any::<bool>()).prop_map(|(z, how, sel, dt)| {
        let (ty, val) = if dt { (Ty::DtTz, vmodel::Val::Tuple(vec![vmodel::Val::Date(2024, 2, 29), vmodel::Val::Time(12, 30, 15, 5), vmodel::Val::Tz(z.to_string())])) } else { (Ty::Tz, vmodel::Val::Tz(z.to_string())) };
        let mut bytes = vmodel::refcodec::ref_encode(&ty, &val).map(|f| f.bytes).unwrap_or_default();
        if how == 1 {
            // flip the case of one letter of the zone name
            let start = bytes.len() - z.len();
            let letters: Vec<usize> = (start..bytes.len()).filter(|i| bytes[*i].is_ascii_alphabetic()).collect();
            let k = letters[vmodel::gen::pick(sel, letters.len())];
            bytes[k] ^= 0x20;
        }
        Call::Dec { ty, bytes }
    });
    // decimals that are equal as numbers and differ as text
    let dec_text = prop::sample::select(vec!["1", "1.0", "1.00", "0", "0.000", "10", "1E+1", "-2.50", "-2.5"]).prop_map(|s| Call::Enc(TV { ty: Ty::BigDecimal, val: vmodel::Val::Str(s.to_string()), forms: vec![] }));
    let held = (0u8..4, 1u32..1000).prop_map(|(which, bump)| Call::Held { which, bump });
    let strat = prop_oneof![4 => enc, 4 => dec, 2 => stream, 1 => graph, 6 => fam, 3 => zip, 1 => big, 2 => dangling, 2 => tz, 2 => dec_text, 2 => held];
    let mut r = runner(tag_seed(derive_seed(seed, "C18-pool", 0, 0), 0));
    let mut calls: Vec<Call> = (0..POOL).map(|_| strat.new_tree(&mut r).expect("pool").current()).collect();
    // local times of a zone with daylight saving: summer, winter, inside the ambiguous hour of the last Sunday of
    // October (02:00-03:00 occurs twice) and inside the gap of the last Sunday of March (02:00-03:00 does not exist)
    for (y, m, d, h, mi) in [(2021, 7, 15, 12, 0), (2021, 1, 15, 12, 0), (2021, 10, 31, 2, 30), (2021, 10, 31, 2, 0), (2021, 10, 31, 2, 59), (2021, 3, 28, 2, 30), (2021, 10, 31, 3, 0), (2022, 10, 30, 2, 30)] {
        let val = vmodel::Val::Tuple(vec![vmodel::Val::Date(y, m, d), vmodel::Val::Time(h, mi, 0, 0)]);
        let bytes = vmodel::refcodec::ref_encode(&Ty::NaiveDateTime, &val).map(|f| f.bytes).unwrap_or_default();
        calls.push(Call::Dec { ty: Ty::DtLocal, bytes: bytes.clone() });
        calls.push(Call::Dec { ty: Ty::Vec(Arc::new(Ty::DtLocal)), bytes: [vec![2u8], bytes].concat() });
    }
    // a declaration whose history names a field that is neither written nor listed as removed (made optional, later
    // turned into a transient field without the FieldMadeTransient step): every encode of it fails, the first one and
    // each later one (what is checked once per type must not be skipped afterwards)
    {
        use vmodel::{Field, Record, Step, Val};
        let ill = vmodel::declgen::struct_decl(
            "DynIll",
            &Record { fields: vec![Field::new("a", Ty::U8), Field { name: "cached".into(), ty: Ty::Option(Arc::new(Ty::U8)), transient: Some(Val::None), opt_spelling: 0 }], steps: vec![Step::MadeOptional { name: "cached".into() }] },
        );
        let ill_e = Arc::new(vmodel::Decl {
            name: "DynIllE".into(),
            body: vmodel::DeclBody::Enum {
                sorted: false,
                steps: vec![],
                variants: vec![
                    vmodel::Variant { name: "Ok".into(), shape: vmodel::Shape::Unit, transient: false, record: Record { fields: vec![], steps: vec![] } },
                    vmodel::Variant { name: "Bad".into(), shape: vmodel::Shape::Struct, transient: false, record: Record { fields: vec![Field::new("x", Ty::U16)], steps: vec![Step::MadeOptional { name: "gone".into() }] } },
                ],
            },
        });
        for k in 0..4u8 {
            calls.push(Call::Enc(TV { ty: Ty::Adt(ill.clone()), val: Val::Rec(vec![Val::Int(k as i128), Val::None]), forms: vec![] }));
            calls.push(Call::Enc(TV { ty: Ty::Adt(ill_e.clone()), val: if k % 2 == 0 { Val::Variant(1, vec![Val::Int(k as i128)]) } else { Val::Variant(0, vec![]) }, forms: vec![] }));
        }
    }
    // the hand-written groups completely: every version as reader of every version's bytes
    for names in [vec!["MemoV0", "MemoV1", "MemoV2"], vec!["Twin", "TwinOther"], vec!["TwinE", "TwinEOther"]] {
        let g: Vec<_> = b.specials.iter().filter(|d| names.contains(&d.name.as_str())).cloned().collect();
        if g.len() != names.len() || !crate::props::derived::group_ok(&g) {
            continue;
        }
        for w in &g {
            let tw = Ty::Adt(w.clone());
            let v = vmodel::declgen::sample_val(&tw, ValCfg { max_len: 2, long: false, ..ValCfg::default() }, 0xC18);
            let bytes = vmodel::refcodec::ref_encode(&tw, &v).map(|f| f.bytes).unwrap_or_default();
            for rd in &g {
                calls.push(Call::Dec { ty: Ty::Adt(rd.clone()), bytes: bytes.clone() });
            }
            calls.push(Call::Enc(TV { ty: tw, val: v, forms: vec![] }));
        }
    }
    calls
}

/// what a call is about, for grouping calls that may share per-type or per-name state
fn topic(c: &Call) -> String {
    fn of_ty(t: &Ty) -> String {
        let name: std::cell::RefCell<Option<String>> = std::cell::RefCell::new(None);
        t.any(&|x| {
            if let Ty::Adt(d) = x {
                if name.borrow().is_none() {
                    // H12V3 -> H12, T3V1 -> T3, S5V0 -> S5, MemoV1 -> Memo, TwinOther -> Twin
                    let n = d.name.as_str();
                    let versioned = n.starts_with("Memo") || (matches!(n.as_bytes()[0], b'H' | b'T' | b'S') && n[1..].starts_with(|ch: char| ch.is_ascii_digit()));
                    let base = match (n.rfind('V'), versioned) {
                        (Some(i), true) => &n[..i],
                        _ => n.trim_end_matches("Other"),
                    };
                    *name.borrow_mut() = Some(base.to_string());
                }
            }
            false
        });
        let found = name.into_inner();
        found.unwrap_or_else(|| if t.any(&|x| matches!(x, Ty::DtLocal)) { "local time".into() } else if t.any(&|x| matches!(x, Ty::Tz | Ty::DtTz)) { "time zones".into() } else if t.any(&|x| *x == Ty::Dedup) { "string table".into() } else { String::new() })
    }
    match c {
        Call::Enc(tv) if tv.ty == Ty::BigDecimal => "decimals".into(),
        Call::Enc(tv) => of_ty(&tv.ty),
        Call::Dec { ty, .. } => of_ty(ty),
        Call::Stream(_) => "string table".into(),
        Call::Graph(_) => "graphs".into(),
        Call::Zip { .. } => "compressed blocks".into(),
        Call::Held { .. } => "defaults with interior state".into(),
    }
}

/// indices of calls per topic (topics with at least two calls)
pub fn pool_groups(p: &[Call]) -> Vec<Vec<usize>> {
    let mut m: std::collections::BTreeMap<String, Vec<usize>> = std::collections::BTreeMap::new();
    for (i, c) in p.iter().enumerate() {
        let t = topic(c);
        if !t.is_empty() {
            m.entry(t).or_default().push(i);
        }
    }
    m.into_values().filter(|v| v.len() >= 2).collect()
}

/// executes one call and digests its result into a string that is comparable across processes
pub fn execute(c: &Call) -> String {
    let r = guarded(|| match c {
        Call::Enc(tv) => {
            let (r, _) = vcat::encode(&tv.ty, &tv.val);
            match r {
                Ok(b) => {
                    if has_hash(&tv.ty) {
                        // hash containers iterate in a per-process order by design: compare what the bytes denote
                        match vcat::decode(&tv.ty, &b) {
                            Ok(v) => format!("enc-ok len={} denotes={:016x}", b.len(), hash_json(&canon(&tv.ty, &v))),
                            Err(e) => format!("enc-ok len={} undecodable {}", b.len(), e.kind),
                        }
                    } else {
                        format!("enc-ok {:016x} len={}", fnv64(&b), b.len())
                    }
                }
                Err(e) => format!("enc-err {} {}", e.kind, e.detail),
            }
        }
        Call::Dec { ty, bytes } => match vcat::decode(ty, bytes) {
            Ok(v) => format!("dec-ok {:016x}", hash_json(&canon(ty, &v))),
            // (the whole error, not only its kind: a field name or a number in it is part of the result)
            Err(e) => format!("dec-err {} {}", e.kind, e.detail),
        },
        Call::Stream(items) => {
            let hashy = items.iter().any(|(t, _)| has_hash(t));
            match vcat::encode_many(items) {
                Ok(b) => {
                    let tys: Vec<Ty> = items.iter().map(|x| x.0.clone()).collect();
                    let (rs, rest) = vcat::decode_many(&tys, &b);
                    let vals: Vec<String> = rs.iter().enumerate().map(|(i, r)| match r {
                        Ok(v) => format!("{:016x}", hash_json(&canon(&tys[i], v))),
                        Err(e) => format!("{} {}", e.kind, e.detail),
                    }).collect();
                    if hashy {
                        format!("stream len={} rest={} vals={vals:?}", b.len(), rest.len())
                    } else {
                        format!("stream {:016x} rest={} vals={vals:?}", fnv64(&b), rest.len())
                    }
                }
                Err(e) => format!("stream-err {}", e.kind),
            }
        }
        Call::Zip { len, period, level, damage } => {
            use desert::{BinaryInput, BinaryOutput};
            let d: Vec<u8> = (0..*len).map(|i| (i % *period as usize) as u8 ^ (i / 251) as u8).collect();
            let mut out = Vec::new();
            match out.write_compressed(&d, flate2::Compression::new(*level)) {
                Ok(()) => {
                    let digest = fnv64(&out);
                    let n = out.len();
                    match damage {
                        1 => out.truncate(n - n / 3 - 1),
                        2 => out[n - 1 - n / 4] ^= 0x5a,
                        3 => {
                            // the header claims more content than the stream holds (the stored length is the first
                            // var-int of the frame)
                            let mut k = 0;
                            while k < out.len() && out[k] & 0x80 != 0 {
                                k += 1;
                            }
                            let mut lie = Vec::new();
                            lie.write_var_u32((*len as u32).wrapping_add(4000));
                            out.splice(0..(k + 1).min(out.len()), lie);
                        }
                        _ => {}
                    }
                    let back = desert::SliceInput::new(&out).read_compressed();
                    format!("zip {digest:016x} len={n} damage={damage} back={}", match back { Ok(b) if b == d => "same".to_string(), Ok(b) => format!("other({} bytes, {:016x})", b.len(), fnv64(&b)), Err(e) => format!("err {}", vcat::errinfo(&e).kind) })
                }
                Err(e) => format!("zip-err {}", vcat::errinfo(&e).kind),
            }
        }
        Call::Held { which, bump } => own::held(*which, *bump),
        Call::Graph(g) => {
            let case = crate::props::graphs::GraphCase { g: g.clone(), tracked_header: g.labels.len() % 2 == 0, tagged: g.labels.len() % 3 == 0, sentinel: g.labels.len() % 4 == 1, seq: g.labels.len() % 5 == 2, fault_sel: 3, fault_kind: 0 };
            match crate::props::graphs::check_graph(&case, &mut Acc::new(), false) {
                Verdict::Fail(e) => format!("graph-fail {e}"),
                _ => "graph-ok".to_string(),
            }
        }
    });
    match r {
        Ok(s) => s,
        Err(p) => format!("PANIC {p}"),
    }
}

// ---- hand-written declarations whose default expressions build values with shared interior state: the documented
// expansion evaluates the expression for every decoded record, so two decoded values never share anything
#[cfg(not(feature = "no_keep"))]
pub mod own {
    use desert::{BinaryDeserializer, BinaryInput, BinaryOutput, BinarySerializer, DeserializationContext, SerializationContext};
    use std::sync::atomic::{AtomicU32, Ordering};
    use std::sync::{Arc, Mutex};

    #[derive(Clone, Debug)]
    pub struct Counter(pub Arc<AtomicU32>);
    impl Counter {
        pub fn new(n: u32) -> Counter {
            Counter(Arc::new(AtomicU32::new(n)))
        }
        fn get(&self) -> u32 {
            self.0.load(Ordering::SeqCst)
        }
    }
    impl BinarySerializer for Counter {
        fn serialize<O: BinaryOutput>(&self, ctx: &mut SerializationContext<O>) -> desert::Result<()> {
            ctx.write_u32(self.get());
            Ok(())
        }
    }
    impl BinaryDeserializer for Counter {
        fn deserialize(ctx: &mut DeserializationContext<'_>) -> desert::Result<Self> {
            Ok(Counter::new(ctx.read_u32()?))
        }
    }
    #[derive(Clone, Debug)]
    pub struct Notes(pub Arc<Mutex<Vec<String>>>);
    impl Notes {
        pub fn new() -> Notes {
            Notes(Arc::new(Mutex::new(Vec::new())))
        }
        fn get(&self) -> Vec<String> {
            self.0.lock().unwrap().clone()
        }
    }
    impl BinarySerializer for Notes {
        fn serialize<O: BinaryOutput>(&self, ctx: &mut SerializationContext<O>) -> desert::Result<()> {
            self.get().serialize(ctx)
        }
    }
    impl BinaryDeserializer for Notes {
        fn deserialize(ctx: &mut DeserializationContext<'_>) -> desert::Result<Self> {
            Ok(Notes(Arc::new(Mutex::new(Vec::<String>::deserialize(ctx)?))))
        }
    }

    #[derive(desert::BinaryCodec)]
    #[evolution(FieldAdded("hits", Counter::new(0)), FieldAdded("opt", Some(Counter::new(5))), FieldAdded("log", Notes::new()))]
    pub struct Keep {
        pub a: u32,
        pub hits: Counter,
        pub opt: Option<Counter>,
        #[transient(Notes::new())]
        pub notes: Notes,
        pub log: Notes,
    }

    #[derive(desert::BinaryCodec)]
    pub enum KeepE {
        A {
            x: u8,
            #[transient(Counter::new(9))]
            c: Counter,
        },
        B(u8, #[transient(Notes::new())] Notes),
    }

    fn keep(bytes: &[u8], bump: u32) -> String {
        match desert::deserialize::<Keep>(bytes) {
            Ok(k) => {
                let seen = format!("a={} hits={} opt={:?} notes={:?} log={:?}", k.a, k.hits.get(), k.opt.as_ref().map(|c| c.get()), k.notes.get(), k.log.get());
                k.hits.0.fetch_add(bump, Ordering::SeqCst);
                if let Some(c) = &k.opt {
                    c.0.fetch_add(bump, Ordering::SeqCst);
                }
                k.notes.0.lock().unwrap().push(format!("seen {bump}"));
                k.log.0.lock().unwrap().push(format!("logged {bump}"));
                seen
            }
            Err(e) => format!("err {}", vcat::errinfo(&e).kind),
        }
    }

    pub fn held(which: u8, bump: u32) -> String {
        match which {
            // written before any of the steps: a version-0 record with `a` only
            0 => keep(&[0, 0, 0, 0, 7], bump),
            // written by the current version (only the transient field comes from its default)
            1 => {
                let v = Keep { a: 3, hits: Counter::new(40), opt: Some(Counter::new(41)), notes: Notes::new(), log: Notes::new() };
                match desert::serialize_to_byte_vec(&v) {
                    Ok(b) => keep(&b, bump),
                    Err(e) => format!("enc-err {}", vcat::errinfo(&e).kind),
                }
            }
            2 => match desert::deserialize::<KeepE>(&[0, 0, 0, 1]) {
                Ok(KeepE::A { x, c }) => {
                    let seen = format!("A x={x} c={}", c.get());
                    c.0.fetch_add(bump, Ordering::SeqCst);
                    seen
                }
                Ok(_) => "other constructor".into(),
                Err(e) => format!("err {}", vcat::errinfo(&e).kind),
            },
            _ => match desert::deserialize::<KeepE>(&[0, 1, 0, 2]) {
                Ok(KeepE::B(x, n)) => {
                    let seen = format!("B x={x} n={:?}", n.get());
                    n.0.lock().unwrap().push(format!("seen {bump}"));
                    seen
                }
                Ok(_) => "other constructor".into(),
                Err(e) => format!("err {}", vcat::errinfo(&e).kind),
            },
        }
    }
}
#[cfg(feature = "no_keep")]
pub mod own {
    pub fn held(_: u8, _: u32) -> String {
        "left out (the derive macro of this tree does not compile the hand-written declarations)".into()
    }
}

// ---- child modes (entered from main when the environment says so)

pub fn child_main(seed: u64) -> Option<i32> {
    if let Ok(list) = std::env::var("VCHECK_C18_CALLS") {
        let p = pool(seed);
        for tok in list.split(',').filter(|t| !t.is_empty()) {
            let i: usize = tok.parse().ok()?;
            println!("{i}\t{}", execute(&p[i]));
        }
        return Some(0);
    }
    if let Ok(mode) = std::env::var("VCHECK_C18_STRESS") {
        let threads: usize = mode.parse().unwrap_or(16);
        stress_child(seed, threads);
        return Some(0);
    }
    None
}

fn spawn_calls(seed: u64, calls: &[usize]) -> Result<Vec<String>, String> {
    let exe = std::env::current_exe().map_err(|e| e.to_string())?;
    let list = calls.iter().map(|c| c.to_string()).collect::<Vec<_>>().join(",");
    let out = std::process::Command::new(exe).args(["C18", "--seed", &seed.to_string(), "--worker"]).env("VCHECK_C18_CALLS", &list).env("TZ", CHILD_TZ).env_remove("VCHECK_SLOTS").output().map_err(|e| format!("INFRA: cannot start a child process: {e}"))?;
    if !out.status.success() {
        return Err(format!("child ended with {} on calls [{list}]: {}", out.status, String::from_utf8_lossy(&out.stderr).chars().take(300).collect::<String>()));
    }
    let text = String::from_utf8_lossy(&out.stdout);
    let lines: Vec<String> = text.lines().map(|l| l.splitn(2, '\t').nth(1).unwrap_or("").to_string()).collect();
    if lines.len() != calls.len() {
        return Err(format!("child printed {} results for {} calls", lines.len(), calls.len()));
    }
    Ok(lines)
}

// ---- stress

fn stress_values(seed: u64) -> Vec<(Ty, vmodel::Val)> {
    let all: Vec<_> = crate::props::derived::batch().all().into_iter().filter(|d| crate::props::derived::compiled_ok(d)).collect();
    all.iter()
        .map(|d| {
            let ty = Ty::Adt(d.clone());
            let mut v = vmodel::declgen::sample_val(&ty, ValCfg { max_len: 3, long: false, ..ValCfg::default() }, seed ^ 0xC18);
            if d.name == "RecList" {
                // a deeply nested value: 16 threads decode ~150 levels each at the same moment
                v = vmodel::Val::Rec(vec![vmodel::Val::Int(0), vmodel::Val::None]);
                for i in 1..150u32 {
                    v = vmodel::Val::Rec(vec![vmodel::Val::Int((i % 251) as i128), vmodel::Val::some(v)]);
                }
            }
            (ty, v)
        })
        .collect()
}

fn one_stress_call(ty: &Ty, v: &vmodel::Val) -> String {
    let (r, _) = vcat::encode(ty, v);
    match r {
        Ok(b) => {
            let d = vcat::decode(ty, &b);
            let dv = match &d {
                Ok(x) => format!("{:016x}", hash_json(&canon(ty, x))),
                Err(e) => e.kind.clone(),
            };
            if has_hash(ty) {
                format!("len={} {dv}", b.len())
            } else {
                format!("{:016x} {dv}", fnv64(&b))
            }
        }
        Err(e) => format!("err {}", e.kind),
    }
}

fn stress_child(seed: u64, threads: usize) {
    let vals = Arc::new(stress_values(seed));
    let n = vals.len();
    // seeded order of types (the same for all threads: the point is simultaneous FIRST use of each type)
    let mut order: Vec<usize> = (0..n).collect();
    let mut s = seed.wrapping_mul(0x9e3779b97f4a7c15) | 1;
    for i in (1..n).rev() {
        s ^= s << 13;
        s ^= s >> 7;
        s ^= s << 17;
        order.swap(i, (s % (i as u64 + 1)) as usize);
    }
    let order = Arc::new(order);
    let barrier = Arc::new(Barrier::new(threads));
    let results: Arc<Mutex<Vec<Vec<String>>>> = Arc::new(Mutex::new(vec![Vec::new(); threads]));
    let mut hs = Vec::new();
    for t in 0..threads {
        let (vals, order, barrier, results) = (vals.clone(), order.clone(), barrier.clone(), results.clone());
        hs.push(std::thread::Builder::new().stack_size(64 << 20).spawn(move || {
            let mut mine = vec![String::new(); vals.len()];
            let mut j = (seed ^ (t as u64 + 1).wrapping_mul(0xD1B54A32D192ED03)) | 1;
            for &i in order.iter() {
                if threads > 1 {
                    barrier.wait();
                }
                // seeded jitter so that threads do not all arrive in lock step
                j ^= j << 13;
                j ^= j >> 7;
                j ^= j << 17;
                for _ in 0..(j % 4) {
                    std::thread::yield_now();
                }
                let (ty, v) = &vals[i];
                mine[i] = match guarded(|| one_stress_call(ty, v)) {
                    Ok(s) => s,
                    Err(p) => format!("PANIC {p}"),
                };
            }
            results.lock().unwrap()[t] = mine;
        }).expect("spawn"));
    }
    for h in hs {
        let _ = h.join();
    }
    let res = results.lock().unwrap();
    for (t, r) in res.iter().enumerate() {
        for (i, line) in r.iter().enumerate() {
            println!("{t}\t{i}\t{line}");
        }
    }
}

fn spawn_stress(seed: u64, threads: usize) -> Result<Vec<Vec<String>>, String> {
    let exe = std::env::current_exe().map_err(|e| e.to_string())?;
    let out = std::process::Command::new(exe).args(["C18", "--seed", &seed.to_string(), "--worker"]).env("VCHECK_C18_STRESS", threads.to_string()).env_remove("VCHECK_SLOTS").output().map_err(|e| format!("INFRA: cannot start a child process: {e}"))?;
    if !out.status.success() {
        return Err(format!("stress child ended with {}: {}", out.status, String::from_utf8_lossy(&out.stderr).chars().take(300).collect::<String>()));
    }
    let mut res: Vec<Vec<String>> = vec![Vec::new(); threads];
    for l in String::from_utf8_lossy(&out.stdout).lines() {
        let p: Vec<&str> = l.splitn(3, '\t').collect();
        if p.len() == 3 {
            let t: usize = p[0].parse().map_err(|_| "bad line")?;
            res[t].push(p[2].to_string());
        }
    }
    Ok(res)
}

/// a child process that cannot even be started is the sandbox's problem, not the library's: inconclusive
fn infra(e: &str) {
    if e.starts_with("INFRA:") {
        eprintln!("C18: {e}");
        std::process::exit(2);
    }
}

#[derive(Debug, Clone, Serialize, Deserialize)]
pub struct HistoryCase {
    pub calls: Vec<usize>,
}

pub fn run_c18(cx: &Cx) -> PropResult {
    let p = pool(cx.seed);
    // results of every call executed alone, as the first and only call of a fresh process
    let solo: Vec<String> = {
        let n_pool = p.len();
        let slots: Mutex<Vec<Option<String>>> = Mutex::new(vec![None; n_pool]);
        let errs: Mutex<Vec<String>> = Mutex::new(vec![]);
        std::thread::scope(|s| {
            for w in 0..cx.shards {
                let (slots, errs) = (&slots, &errs);
                s.spawn(move || {
                    for i in (w..n_pool).step_by(cx.shards) {
                        match spawn_calls(cx.seed, &[i]) {
                            Ok(r) => slots.lock().unwrap()[i] = Some(r[0].clone()),
                            Err(e) => errs.lock().unwrap().push(e),
                        }
                    }
                });
            }
        });
        let e = errs.into_inner().unwrap();
        if !e.is_empty() {
            eprintln!("C18: solo executions failed: {e:?}");
            std::process::exit(2);
        }
        slots.into_inner().unwrap().into_iter().map(|x| x.unwrap()).collect()
    };
    let failing: Vec<bool> = solo.iter().map(|s| s.contains("err") || s.starts_with("PANIC")).collect();
    let per_shard = cx.n(120, 3_000);
    let n_stress = cx.n(48, 800) as usize;
    let solo = Arc::new(solo);
    let acc = parallel(cx, &|shard, acc| {
        // ---- histories
        // half of the histories are drawn from the whole pool, half stay with one topic (the calls about one family of
        // declarations, the string table, time zones, compressed blocks ...) plus a few others
        let groups = pool_groups(&p);
        let n = p.len();
        let anywhere = proptest::collection::vec(0usize..n, 1..=30).boxed();
        let focused = (0..groups.len().max(1), proptest::collection::vec(any::<u16>(), 2..=12), proptest::collection::vec(0usize..n, 0..=3))
            .prop_map({
                let groups = groups.clone();
                move |(g, picks, others)| {
                    if groups.is_empty() {
                        return others;
                    }
                    let members = &groups[g % groups.len()];
                    let mut h: Vec<usize> = picks.iter().map(|s| members[vmodel::gen::pick(*s, members.len())]).collect();
                    for (k, o) in others.into_iter().enumerate() {
                        let at = (k * 5 + 1).min(h.len());
                        h.insert(at, o);
                    }
                    h
                }
            })
            .boxed();
        let strat = prop_oneof![1 => anywhere, 1 => focused].prop_filter("non-empty", |h| !h.is_empty());
        let mut r = runner(tag_seed(derive_seed(cx.seed, cx.prop, shard as u64, 0), 0));
        for _ in 0..per_shard {
            let calls = strat.new_tree(&mut r).expect("history").current();
            let got = match spawn_calls(cx.seed, &calls) {
                Ok(g) => g,
                Err(e) => {
                    infra(&e);
                    acc.violation(format!("history {calls:?}: {e}"), json!({"history": {"calls": calls}}));
                    return;
                }
            };
            // non-trivial: two calls share a type or a string, and a failing call precedes a succeeding one
            let fail_then_ok = calls.iter().enumerate().any(|(k, c)| failing[*c] && calls[k + 1..].iter().any(|d| !failing[*d]));
            let repeats = {
                let mut seen = std::collections::HashSet::new();
                calls.iter().any(|c| !seen.insert(*c))
            };
            acc.case(if repeats { "history with a repeated call" } else { "history" }, hash_json(&calls), calls.len() >= 2 && fail_then_ok);
            if acc.wants_sample("history") {
                acc.sample("history", json!({"calls": calls, "results": got.iter().map(|s| s.chars().take(60).collect::<String>()).collect::<Vec<_>>()}));
            }
            for (k, c) in calls.iter().enumerate() {
                if got[k] != solo[*c] {
                    // shrink: the shortest prefix + this call that still differs
                    let mut minimal = calls[..=k].to_vec();
                    for drop in (0..k).rev() {
                        let mut t = minimal.clone();
                        t.remove(drop);
                        if let Ok(g) = spawn_calls(cx.seed, &t) {
                            if g.last() != Some(&solo[*c]) {
                                minimal = t;
                            }
                        }
                    }
                    acc.violation(
                        format!("call #{c} ({}) gives {:?} after the calls {:?} but {:?} alone in a fresh process", call_brief(&p[*c]), got[k], &minimal[..minimal.len() - 1], solo[*c]),
                        json!({"history": {"calls": minimal}}),
                    );
                    return;
                }
            }
        }
        // ---- schedules
        for i in 0..n_stress {
            if i % cx.shards != shard {
                continue;
            }
            let sseed = cx.seed.wrapping_add(i as u64 * 7919);
            let reference = match spawn_stress(sseed, 1) {
                Ok(r) => r,
                Err(e) => {
                    infra(&e);
                    acc.violation(format!("single-threaded reference run failed: {e}"), json!({"stress": {"seed": sseed, "threads": 1}}));
                    return;
                }
            };
            let raced = match spawn_stress(sseed, 16) {
                Ok(r) => r,
                Err(e) => {
                    infra(&e);
                    acc.violation(format!("16-thread first-use run failed: {e}"), json!({"stress": {"seed": sseed, "threads": 16}}));
                    return;
                }
            };
            let ntypes = reference[0].len();
            acc.evaluations += 1;
            *acc.classes.entry("16 threads racing the first use of every compiled declaration".into()).or_insert(0) += 1;
            acc.bump("types_raced_x_processes", ntypes as u64);
            acc.nontrivial.insert(hash_json(&("stress", sseed)));
            for (t, r) in raced.iter().enumerate() {
                for (k, line) in r.iter().enumerate() {
                    if *line != reference[0][k] {
                        acc.violation(format!("thread {t} got {line:?} for compiled declaration #{k} while 16 threads raced its first use; a single-threaded process gets {:?}", reference[0][k]), json!({"stress": {"seed": sseed, "threads": 16}}));
                        return;
                    }
                }
            }
            if acc.wants_sample("stress") {
                acc.sample("stress", json!({"seed": sseed, "threads": 16, "types": ntypes, "first_results": reference[0].iter().take(3).collect::<Vec<_>>()}));
            }
        }
    });
    let mut r = PropResult::new(
        acc,
        "exploration",
        "histories: sequences of 1-30 top-level calls drawn from a pool of 200 generated calls (encode / decode of built-in, derived, compiled, evolved and dedup-bearing values, multi-value streams, object graphs; including calls that fail: non-BMP chars, transient constructors, truncated / corrupted input, unknown string ids), each history executed in one thread of a fresh child process; oracle: every call's result (bytes, value or error, digested) equals the result of the same call executed alone as the only call of a fresh process. Values with hash containers are compared by what their bytes denote. Schedules: a child process starts 16 threads that perform their FIRST use (lazy metadata initialisation) of each of the 163 compiled declarations simultaneously behind a per-type barrier with seeded jitter; every thread's result for every type must equal the result of a single-threaded process. Non-trivial (histories) = at least 2 calls with a failing call before a succeeding one; every stress process counts as non-trivial. The pool also holds decodes of hand-written declarations whose defaults have shared interior state (reported, then changed through the decoded value) and encodes of declarations every encode of which must fail (an evolution step naming a field that is neither written nor removed); call digests carry the whole error text.",
    );
    r.assumptions = vec![
        "the harness does not own the scheduler: interleavings of the lazy initialisation are sampled by the OS, not enumerated (DESIGN section 5.18)".into(),
        "fresh-process results are memoised per distinct call".into(),
    ];
    r.extra = json!({"pool_size": p.len(), "topics_with_two_or_more_calls": pool_groups(&p).len()});
    r
}

fn call_brief(c: &Call) -> String {
    match c {
        Call::Enc(tv) => format!("encode {} = {}", tv.ty.render(), tv.val.brief().chars().take(80).collect::<String>()),
        Call::Dec { ty, bytes } => format!("decode {} from {}", ty.render(), vmodel::hex(&bytes[..bytes.len().min(24)])),
        Call::Stream(items) => format!("stream of {} values", items.len()),
        Call::Graph(g) => format!("graph of {} nodes", g.labels.len()),
        Call::Zip { len, period, level, damage } => format!("compressed block of {len} bytes (period {period}) at level {level}, damage {damage}"),
        Call::Held { which, bump } => format!("decode of hand-written declaration #{which} whose defaults hold shared state, then +{bump} through the result"),
    }
}

pub fn replay_c18(cx: &Cx, case: &Value) -> Verdict {
    if let Some(h) = case.get("history") {
        let hc: HistoryCase = serde_json::from_value(h.clone()).expect("history");
        let got = match spawn_calls(cx.seed, &hc.calls) {
            Ok(g) => g,
            Err(e) => return Verdict::Fail(e),
        };
        for (k, c) in hc.calls.iter().enumerate() {
            let solo = match spawn_calls(cx.seed, &[*c]) {
                Ok(s) => s,
                Err(e) => return Verdict::Fail(e),
            };
            if solo[0] != got[k] {
                return Verdict::Fail(format!("call #{c} gives {:?} at position {k} of {:?} but {:?} alone", got[k], hc.calls, solo[0]));
            }
        }
        return Verdict::Pass;
    }
    if let Some(s) = case.get("stress") {
        let seed = s["seed"].as_u64().unwrap_or(0);
        let reference = match spawn_stress(seed, 1) {
            Ok(r) => r,
            Err(e) => return Verdict::Fail(e),
        };
        for _ in 0..5 {
            match spawn_stress(seed, 16) {
                Ok(r) => {
                    for t in &r {
                        if *t != reference[0] {
                            return Verdict::Fail("a thread's results differ from the single-threaded reference".into());
                        }
                    }
                }
                Err(e) => return Verdict::Fail(e),
            }
        }
        return Verdict::Pass;
    }
    Verdict::Skip
}

#[allow(dead_code)]
fn unused(_: HashMap<u8, u8>) {}
