//! E1: (type expression, value) cases over the built-in codec vocabulary — C01 and C04.
use crate::run::{drive, parallel, to_json, Cx, Verdict};
use crate::PropResult;
use proptest::prelude::*;
use proptest::strategy::{BoxedStrategy, Union};
use serde::{Deserialize, Serialize};
use serde_json::{json, Value};
use vmodel::evidence::Acc;
use vmodel::gen::{root_class, rooted_tys, val_strategy, ValCfg};
use vmodel::refcodec::{ref_decode, ref_encode, ref_encode_forms, ScriptForms};
use vmodel::{canon, derive_seed, hash_json, hex, with_transient_defaults, Ty, Val};

#[derive(Debug, Clone, Serialize, Deserialize)]
pub struct TV {
    pub ty: Ty,
    pub val: Val,
    /// form choices for the reference encoder (C04 decode direction): true = unknown-length form
    pub forms: Vec<bool>,
}

pub fn tv_strategy(depth: u32, cfg: ValCfg) -> BoxedStrategy<TV> {
    let roots: Vec<BoxedStrategy<Ty>> = rooted_tys(depth).into_iter().map(|(_, s)| s).collect();
    Union::new(roots)
        .prop_flat_map(move |ty| {
            let vs = val_strategy(&ty, cfg);
            (Just(ty), vs, proptest::collection::vec(any::<bool>(), 0..10))
        })
        .prop_map(|(ty, val, forms)| TV { ty, val, forms })
        .boxed()
}

fn sample_of(c: &TV, bytes: &[u8]) -> Value {
    json!({"type": c.ty.render(), "value": c.val.brief(), "encoding_hex": if bytes.len() > 96 { format!("{}…({} bytes)", hex(&bytes[..96]), bytes.len()) } else { hex(bytes) }})
}

pub fn check_c01(c: &TV, acc: &mut Acc, record: bool) -> Verdict {
    let h = hash_json(&(&c.ty, &c.val));
    // now and then an encoding that fails half-way comes first on this thread (a supported string, then a character
    // the format cannot hold): what it leaves behind is none of this value's business
    if h % 23 == 0 {
        let junk = Ty::Tuple(vec![Ty::Str, Ty::Vec(std::sync::Arc::new(Ty::Char)), Ty::U32]);
        let jv = Val::Tuple(vec![Val::str("left over"), Val::Seq(vec![Val::Char('a' as u32), Val::Char(0x1F600)]), Val::Int(7)]);
        let failed = if h % 2 == 0 { vcat::encode(&junk, &jv).0.is_err() } else { vcat::encode_via_bytes(&junk, &jv).0.is_err() };
        if record && failed {
            acc.bump("cases_preceded_by_a_failing_encode_on_the_thread", 1);
        }
    }
    let (enc, _as_written) = if h & 1 == 0 { vcat::encode(&c.ty, &c.val) } else { vcat::encode_via_bytes(&c.ty, &c.val) };
    let bytes = match enc {
        Ok(b) => b,
        Err(e) => return Verdict::Fail(format!("encoding a supported value failed: {e:?}")),
    };
    if record {
        let class = root_class(&c.ty);
        acc.case(&class, h, bytes.len() > 1 || c.ty.depth() >= 2);
        if acc.wants_sample(&class) {
            acc.sample(&class, sample_of(c, &bytes));
        }
    }
    // what was written does not even have the framing of a value of this type (and would send the decoder into the
    // count-driven loop of known finding F12): fail now instead of waiting for it
    if let Err(vmodel::refcodec::DecErr::ZeroWidthFlood(n)) = ref_decode(&c.ty, &bytes) {
        return Verdict::Fail(format!("the encoding {}… of {} ({} bytes) is not an encoding of that type: it announces {n} zero-width elements", hex(&bytes[..bytes.len().min(24)]), c.ty.render(), bytes.len()));
    }
    match vcat::decode(&c.ty, &bytes) {
        Ok(v2) => {
            if canon(&c.ty, &v2) == canon(&c.ty, &c.val) {
                Verdict::Pass
            } else {
                Verdict::Fail(format!("round-trip changed the value: wrote {} read {} (bytes {})", c.val.brief(), v2.brief(), hex(&bytes)))
            }
        }
        Err(e) => Verdict::Fail(format!("decoding the encoding failed: {e:?} (bytes {})", hex(&bytes))),
    }
}

// ------------------------------------------------------------------------------------------------
// the built-in codecs at REAL static types. The run-time bridge hands every container to the library instantiated at
// the bridge's own element type; whatever a codec does for one particular element or key type (the library already
// treats u8 elements specially) is only reached when the container has that type at compile time.

#[derive(Debug, Clone, Serialize, Deserialize)]
pub struct StaticTV {
    pub idx: usize,
    pub val: Val,
}

use vcat::statics::static_types;

pub fn static_tv_strategy() -> BoxedStrategy<StaticTV> {
    let table = static_types();
    (0..table.len())
        .prop_flat_map(move |i| {
            let cfg = if i % 3 == 0 { ValCfg { small_alphabet: true, max_len: 6, long: false, ..ValCfg::default() } } else { ValCfg { max_len: 8, long: false, ..ValCfg::default() } };
            vmodel::gen::val_strategy(&table[i].1, cfg).prop_map(move |val| StaticTV { idx: i, val })
        })
        .boxed()
}

/// round trip and wire format in one: decode(encode(v)) == v and encode(v) == the reference encoding (for hash
/// containers: same length, and the bytes decode to v)
pub fn check_static(c: &StaticTV, acc: &mut Acc, record: bool) -> Verdict {
    let table = static_types();
    let Some((name, ty, f)) = table.get(c.idx) else { return Verdict::Skip };
    if record {
        acc.case(&format!("static type {name}"), hash_json(c), !matches!(&c.val, Val::Seq(x) if x.is_empty()));
    }
    let (bytes, back) = match crate::run::guarded(|| f(&c.val)) {
        Ok(Ok(x)) => x,
        Ok(Err(e)) => return Verdict::Fail(format!("{name} = {}: {e}", c.val.brief())),
        Err(p) => return Verdict::Fail(format!("{name} = {}: panic {p}", c.val.brief())),
    };
    if canon(ty, &back) != canon(ty, &c.val) {
        return Verdict::Fail(format!("{name}: round trip changed the value: wrote {} read {} (bytes {})", c.val.brief(), back.brief(), hex(&bytes)));
    }
    let want = match vmodel::refcodec::ref_encode(ty, &c.val) {
        Ok(fr) => fr.bytes,
        Err(e) => return Verdict::Fail(format!("HARNESS: the model cannot encode {} as {name}: {e:?}", c.val.brief())),
    };
    let hashy = ty.any(&|t| matches!(t, Ty::HashSet(_) | Ty::HashMap(..)));
    let dup_keys = matches!(&c.val, Val::Map(_)) || ty.any(&|t| matches!(t, Ty::BTreeMap(..) | Ty::HashMap(..) | Ty::HashSet(_) | Ty::BTreeSet(_)));
    if !hashy && !dup_keys && bytes != want {
        return Verdict::Fail(format!("{name} = {} encodes as {}; the format says {}", c.val.brief(), hex(&bytes), hex(&want)));
    }
    if dup_keys {
        // sets and maps collapse duplicates and (hash ones) choose their order: what they wrote must denote the value
        match vmodel::refcodec::ref_decode(ty, &bytes) {
            Ok((v, _)) if canon(ty, &v) == canon(ty, &c.val) => {}
            other => return Verdict::Fail(format!("{name} = {} encodes as {}, which the format reads as {:?}", c.val.brief(), hex(&bytes), other.map(|x| x.0.brief()))),
        }
    }
    Verdict::Pass
}

pub fn run_c01(cx: &Cx) -> PropResult {
    let depth = if cx.tier == crate::run::Tier::Quick { 3 } else { 4 };
    let per_shard = cx.n(40_000, 1_000_000);
    let acc = parallel(cx, &|shard, acc| {
        let strat = tv_strategy(depth, ValCfg::default());
        if drive(crate::run::tag_seed(derive_seed(cx.seed, cx.prop, shard as u64, 0), 0), &strat, per_shard, acc, &|c: &TV| to_json(c), &mut |c, a, r| check_c01(c, a, r)) {
            return;
        }
        let strat = static_tv_strategy();
        drive(crate::run::tag_seed(derive_seed(cx.seed, cx.prop, shard as u64, 8), 8), &strat, per_shard / 4, acc, &|c: &StaticTV| to_json(&json!({"Static": c})), &mut |c, a, r| check_static(c, a, r));
    });
    let mut acc = acc;
    reduce_violations(&mut acc, &|c, a, r| check_c01(c, a, r));
    let mut r = PropResult::new(
        acc,
        "exploration",
        "cases = (type expression T, value v): T drawn with every built-in constructor forced at the root in turn (all leaves, every tuple arity 1-8, arrays of 0/1/2/3/16/17/32/33 elements for u8 and non-u8 elements, every container) and random children to the depth bound; v from boundary pools mixed with uniform draws. Oracle: decode(encode(v)) == v under model equality (floats by bits, hash containers as sets). Entry point alternates between serialize_to_byte_vec and serialize_to_bytes. A second stream round-trips forty concrete container types (Vec<String>, HashMap<String, u8>, LinkedList<f64>, [u16; 3], Option<Vec<u8>>, ...) at their REAL static types and compares their bytes with the reference encoding. Non-trivial = encoding longer than 1 byte or T of depth >= 2; distinct by hash of (T, v).",
    );
    r.assumptions = vec![
        "TZ=UTC is exported by ./check (DateTime<Local> over unambiguous local times)".into(),
        "containers are instantiated at the harness type `Live`, whose serialize/deserialize dispatch to the real impl of the concrete type; Vec/array of u8, i8, bool and () are instantiated statically".into(),
    ];
    r.extra = json!({"type_depth_bound": depth});
    known_f16(&mut r);
    r
}

/// F16: a leap second seen through an offset that is not a whole number of minutes has a local time whose second is
/// not 59; chrono cannot rebuild such a time from its fields, so the encoding does not decode (the generators keep
/// such values out: DtFixed draws drop the leap when the offset shifts it off second 59)
fn known_f16(r: &mut PropResult) {
    use chrono::TimeZone;
    let res = crate::run::guarded(|| {
        let leap = chrono::NaiveDate::from_ymd_opt(2016, 12, 31).unwrap().and_hms_nano_opt(23, 59, 59, 1_500_000_000).unwrap();
        let dt = chrono::FixedOffset::east_opt(30).unwrap().from_utc_datetime(&leap);
        let bytes = desert::serialize_to_byte_vec(&dt).map_err(|e| vcat::errinfo(&e).kind)?;
        desert::deserialize::<chrono::DateTime<chrono::FixedOffset>>(&bytes).map(|back| back == dt).map_err(|e| vcat::errinfo(&e).kind)
    });
    match res {
        Ok(Ok(true)) => {}
        other => {
            r.lines.push(format!("KNOWN-FINDING: property=C01 F16 DateTime<FixedOffset> of a leap second under an offset of +00:00:30 does not round-trip ({other:?}): the local time 00:00:29.5 + leap is written as second 29 with nanos >= 10^9, which NaiveTime::from_hms_nano_opt rejects"));
            *r.acc.known.entry("F16".into()).or_insert(0) += 1;
        }
    }
}

pub fn replay_c01(case: &Value) -> Verdict {
    if let Some(t) = case.get("Static") {
        let c: StaticTV = serde_json::from_value(t.clone()).expect("replay case");
        return check_static(&c, &mut Acc::new(), false);
    }
    let c: TV = serde_json::from_value(case.clone()).expect("replay case");
    check_c01(&c, &mut Acc::new(), false)
}

pub fn check_c04(c: &TV, acc: &mut Acc, record: bool) -> Verdict {
    let h = hash_json(&(&c.ty, &c.val, &c.forms));
    // ---- encode direction
    let (enc, as_written) = vcat::encode(&c.ty, &c.val);
    let bytes = match enc {
        Ok(b) => b,
        Err(e) => return Verdict::Fail(format!("encoding a supported value failed: {e:?}")),
    };
    let reference = match ref_encode(&c.ty, &as_written) {
        Ok(f) => f.bytes,
        Err(e) => return Verdict::Fail(format!("HARNESS: reference encoder rejected a generated value: {e:?}")),
    };
    if c.ty.ser_only() {
        // serialize-only shapes: bytes only
        if record {
            let class = format!("serialize-only {}", root_class(&c.ty));
            acc.case(&class, h, bytes.len() >= 2);
            if acc.wants_sample(&class) {
                acc.sample(&class, json!({"type": c.ty.render(), "value": c.val.brief(), "writer_hex": hex(&bytes[..bytes.len().min(64)])}));
            }
        }
        return if bytes == reference { Verdict::Pass } else { Verdict::Fail(format!("bytes differ from the format: value {} of {}: got {} expected {}", c.val.brief(), c.ty.render(), hex(&bytes), hex(&reference))) };
    }
    // ---- decode direction: a form the writer may never emit
    let mut forms = ScriptForms::new(c.forms.clone());
    let alt = match ref_encode_forms(&c.ty, &c.val, &mut forms) {
        Ok(f) => f.bytes,
        Err(e) => return Verdict::Fail(format!("HARNESS: reference encoder rejected a generated value: {e:?}")),
    };
    if record {
        let class = format!("{}{}", root_class(&c.ty), if forms.used_unknown > 0 { " +unknown-length" } else { "" });
        acc.case(&class, h, bytes.len() >= 2);
        if forms.used_unknown > 0 {
            acc.bump("decode_cases_with_unknown_length_nodes", 1);
        }
        if acc.wants_sample(&class) {
            acc.sample(&class, json!({"type": c.ty.render(), "value": c.val.brief(), "writer_hex": hex(&bytes[..bytes.len().min(64)]), "alt_form_hex": hex(&alt[..alt.len().min(64)])}));
        }
    }
    if bytes != reference {
        return Verdict::Fail(format!("bytes differ from the format: value {} of {}: got {} expected {}", c.val.brief(), c.ty.render(), hex(&bytes), hex(&reference)));
    }
    // transient fields of derived declarations come back as their declared defaults
    let want = with_transient_defaults(&c.ty, &c.val);
    match ref_decode(&c.ty, &alt) {
        Ok((v, used)) if used == alt.len() && canon(&c.ty, &v) == canon(&c.ty, &want) => {}
        other => return Verdict::Fail(format!("HARNESS: reference decoder does not invert the reference encoder: {other:?}")),
    }
    match vcat::decode(&c.ty, &alt) {
        Ok(v2) => {
            if canon(&c.ty, &v2) == canon(&c.ty, &want) {
                Verdict::Pass
            } else {
                Verdict::Fail(format!("well-formed encoding {} of {} decoded to {} instead of {}", hex(&alt), c.ty.render(), v2.brief(), want.brief()))
            }
        }
        Err(e) => Verdict::Fail(format!("well-formed encoding {} of {} was rejected: {e:?}", hex(&alt), c.ty.render())),
    }
}

/// DESIGN section 4: the reference codec is anchored to bytes that did not come from the Rust writer.
/// Err(msg) = the model itself disagrees with the anchors (exit 2: the oracle is broken, nothing is believed);
/// Ok(Some(msg)) = the model reads the anchors as documented but desert does not (a C04 violation).
fn anchors() -> Result<Option<String>, String> {
    use vmodel::declgen::{fixed_decls, golden_model};
    // (b) the pinned 14-byte Point vector of desert_macro/tests/derivation.rs
    let point = fixed_decls().into_iter().find(|d| d.name == "FixPoint").expect("FixPoint");
    let pv = Val::Rec(vec![Val::Int(1), Val::Int(-10), Val::None]);
    let want = [0x02u8, 0x08, 0x08, 0x03, 0x02, 0x7a, 0xff, 0xff, 0xff, 0xf6, 0, 0, 0, 1];
    let got = ref_encode(&Ty::Adt(point.clone()), &pv).map_err(|e| format!("reference encoder rejects Point: {e:?}"))?.bytes;
    if got != want {
        return Err(format!("reference encoding of Point {{ x: 1, y: -10 }} is {} but the repository pins {}", hex(&got), hex(&want)));
    }
    // (a) the Scala-produced golden file
    let repo = std::env::var("VERIF_REPO").unwrap_or_else(|_| "/repo".to_string());
    let path = format!("{repo}/desert_macro/golden/dataset1.bin");
    let bytes = std::fs::read(&path).map_err(|e| format!("cannot read {path}: {e}"))?;
    let ty = golden_model();
    let (v, used) = ref_decode(&ty, &bytes).map_err(|e| format!("the reference decoder rejects the golden file: {e:?}"))?;
    if used != bytes.len() {
        return Err(format!("the reference decoder consumed {used} of the golden file's {} bytes", bytes.len()));
    }
    // the values spelled out in desert_macro/tests/golden.rs
    let fs = match &v {
        Val::Rec(fs) => fs,
        _ => return Err("golden value is not a record".into()),
    };
    let expect = [
        (0, Val::Int(-10)),
        (1, Val::Int(10000)),
        (2, Val::Int(-2000000000)),
        (3, Val::Int(100000000001)),
        (4, Val::F32(3.14f32.to_bits())),
        (5, Val::F64(0.1234e-10f64.to_bits())),
        (6, Val::Bool(false)),
        (7, Val::Unit),
        (8, Val::str("Example data set")),
        (9, Val::Bytes(vec![0xd9, 0x0c, 0x42, 0x85, 0x54, 0x4d, 0x42, 0x4d, 0x88, 0x5c, 0x39, 0x40, 0xfe, 0x00, 0x88, 0x3d])),
    ];
    for (i, e) in expect {
        if fs[i] != e {
            return Err(format!("the reference decoder reads field {i} of the golden file as {:?}, golden.rs says {:?}", fs[i], e));
        }
    }
    match &fs[10] {
        Val::Rec(t) if t[0] == Val::str("java.lang.RuntimeException") && t[1] == Val::str("Example exception") => {}
        other => return Err(format!("golden exception reads as {}", other.brief())),
    }
    // desert (through the E3 interpreter of the same declaration) must read the same value
    match vcat::decode(&ty, &bytes) {
        Ok(r) if canon(&ty, &r) == canon(&ty, &v) => Ok(None),
        Ok(r) => Ok(Some(format!("desert reads the Scala-produced golden file as {} but the format assigns {}", r.brief(), v.brief()))),
        Err(e) => Ok(Some(format!("desert rejects the Scala-produced golden file: {e:?}"))),
    }
}

pub fn run_c04(cx: &Cx) -> PropResult {
    let anchor_violation = match anchors() {
        Ok(v) => v,
        Err(e) => {
            eprintln!("C04: the reference model disagrees with its anchors: {e}");
            std::process::exit(2);
        }
    };
    let depth = if cx.tier == crate::run::Tier::Quick { 3 } else { 4 };
    let per_shard = cx.n(25_000, 800_000);
    let acc = parallel(cx, &|shard, acc| {
        let strat = tv_strategy(depth, ValCfg::default());
        if drive(crate::run::tag_seed(derive_seed(cx.seed, cx.prop, shard as u64, 0), 0), &strat, per_shard, acc, &|c: &TV| to_json(c), &mut |c, a, r| check_c04(c, a, r)) {
            return;
        }
        // derived declarations (records with evolution headers and chunks, enums), at the root and under containers
        let strat = tv_strategy_ext(2, ValCfg { max_len: 5, long: false, ..ValCfg::default() }, true);
        if drive(crate::run::tag_seed(derive_seed(cx.seed, cx.prop, shard as u64, 1), 1), &strat, per_shard / 2, acc, &|c: &TV| to_json(c), &mut |c, a, r| check_c04(c, a, r)) {
            return;
        }
        let strat = ser_only_tv_strategy(ValCfg::default());
        if drive(crate::run::tag_seed(derive_seed(cx.seed, cx.prop, shard as u64, 2), 2), &strat, per_shard / 5, acc, &|c: &TV| to_json(c), &mut |c, a, r| check_c04(c, a, r)) {
            return;
        }
        // the public serialize_iterator: which of the two layouts is written depends on the size hint alone
        let strat = iter_case_strategy();
        if drive(crate::run::tag_seed(derive_seed(cx.seed, cx.prop, shard as u64, 3), 3), &strat, per_shard / 5, acc, &|c: &IterCase| to_json(&json!({"Iter": c})), &mut |c, a, r| check_c04_iter(c, a, r)) {
            return;
        }
        let strat = static_tv_strategy();
        drive(crate::run::tag_seed(derive_seed(cx.seed, cx.prop, shard as u64, 8), 8), &strat, per_shard / 5, acc, &|c: &StaticTV| to_json(&json!({"Static": c})), &mut |c, a, r| check_static(c, a, r));
    });
    let mut acc = acc;
    reduce_violations(&mut acc, &|c, a, r| check_c04(c, a, r));
    acc.case("anchor: golden/dataset1.bin (written by Scala desert) and the pinned Point vector", 0xA11C, true);
    acc.sample("anchor", json!({"golden_file": "desert_macro/golden/dataset1.bin", "bytes": 242540, "decoded_by": "reference decoder and desert, compared"}));
    if let Some(v) = anchor_violation {
        acc.violation(v, json!({"anchor": "golden"}));
    }
    let mut r = PropResult::new(
        acc,
        "exploration",
        "anchors first: the reference decoder must read the Scala-written golden/dataset1.bin completely (242 540 bytes, unknown-length list, evolution header, sorted-constructor enum) to the values spelled out in the repository's golden test and encode the pinned 14-byte Point vector (else exit 2: broken oracle), and desert must read the golden file to the same value. Then cases = (type expression T, value v, form choices). Encode direction: serialize(v) must equal the independent reference encoder byte for byte (built-in types, derived declarations interpreted and compiled, and the serialize-only shapes str, [T], &T, Rc<str>, Rc<[T]>; the public serialize_iterator under exact, bounded-inexact and unbounded size hints must write the known-length layout only for an exact hint). Decode direction: the reference encoder renders v with every sequence node independently in known-length or unknown-length form (a form the Rust writer never emits); deserialize must return v. The same byte comparison for forty concrete container types at their real static types. Non-trivial = encoding of >= 2 bytes; distinct by hash of (T, v, forms).",
    );
    r.assumptions = vec!["the reference codec (vmodel::refcodec) is the statement of the format; it shares no code with desert".into()];
    r
}

/// a sequence written through the public `serialize_iterator` with a given size hint
#[derive(Debug, Clone, Serialize, Deserialize)]
pub struct IterCase {
    pub elem: Ty,
    pub xs: Vec<Val>,
    pub lo: usize,
    pub hi: Option<usize>,
}

fn iter_case_strategy() -> BoxedStrategy<IterCase> {
    // (hash containers iterate in a per-instance order the reference cannot know: not as elements here)
    (vmodel::gen::any_ty(1).prop_filter("no hash containers", |t| !t.any(&|x| matches!(x, Ty::HashSet(_) | Ty::HashMap(..)))), 0u8..6)
        .prop_flat_map(|(elem, kind)| {
            let xs = val_strategy(&Ty::Vec(std::sync::Arc::new(elem.clone())), ValCfg { max_len: 6, long: false, ..ValCfg::default() });
            (Just(elem), xs, Just(kind), any::<u8>())
        })
        .prop_map(|(elem, xs, kind, d)| {
            let xs = match xs {
                Val::Seq(x) => x,
                _ => vec![],
            };
            let n = xs.len();
            let d = d as usize % 5;
            // what iterator adaptors report: exact; filter (0, Some(n + d)); take_while / skip_while; unbounded; chain
            let (lo, hi) = match kind {
                0 | 1 => (n, Some(n)),
                2 => (0, Some(n + d)),
                3 => (n.saturating_sub(d), Some(n + 1 + d)),
                4 => (0, None),
                _ => (n, None),
            };
            IterCase { elem, xs, lo, hi }
        })
        .boxed()
}

pub fn check_c04_iter(c: &IterCase, acc: &mut Acc, record: bool) -> Verdict {
    let exact = c.hi == Some(c.lo);
    let list_ty = Ty::Vec(std::sync::Arc::new(c.elem.clone()));
    let (got, written) = vcat::encode_iter_hint_written(&c.elem, &c.xs, c.lo, c.hi);
    let val = Val::Seq(written);
    // the byte-array form belongs to the u8 containers, not to serialize_iterator: elements are written one by one
    let mut forms = ScriptForms::new(vec![!exact]);
    let want = if c.elem == Ty::U8 {
        let mut f = Vec::new();
        if exact {
            vmodel::refcodec::var_i32(c.xs.len() as i32, &mut f);
            for x in &c.xs {
                f.push(match x { Val::Int(i) => *i as u8, _ => 0 });
            }
        } else {
            vmodel::refcodec::var_i32(-1, &mut f);
            for x in &c.xs {
                f.push(1);
                f.push(match x { Val::Int(i) => *i as u8, _ => 0 });
            }
            f.push(0);
        }
        f
    } else {
        match ref_encode_forms(&list_ty, &val, &mut forms) {
            Ok(f) => f.bytes,
            Err(_) => return Verdict::Skip,
        }
    };
    if record {
        let class = format!("serialize_iterator, size hint {}", if exact { "exact" } else if c.hi.is_some() { "bounded, inexact" } else { "unbounded" });
        acc.case(&class, hash_json(c), !c.xs.is_empty());
        if acc.wants_sample(&class) {
            acc.sample(&class, json!({"element": c.elem.render(), "items": c.xs.len(), "size_hint": format!("({}, {:?})", c.lo, c.hi), "expected_hex": hex(&want[..want.len().min(48)])}));
        }
    }
    match got {
        Ok(b) if b == want => Verdict::Pass,
        other => Verdict::Fail(format!("serialize_iterator over {} items of {} with size hint ({}, {:?}) wrote {:?}; the {} layout is {}", c.xs.len(), c.elem.render(), c.lo, c.hi, other.map(|b| hex(&b)), if exact { "known-length" } else { "unknown-length" }, hex(&want))),
    }
}

pub fn replay_c04(case: &Value) -> Verdict {
    if let Some(t) = case.get("Static") {
        let c: StaticTV = serde_json::from_value(t.clone()).expect("replay case");
        return check_static(&c, &mut Acc::new(), false);
    }
    if let Some(i) = case.get("Iter") {
        let c: IterCase = serde_json::from_value(i.clone()).expect("replay case");
        return check_c04_iter(&c, &mut Acc::new(), false);
    }
    if case.get("anchor").is_some() {
        return match anchors() {
            Ok(None) => Verdict::Pass,
            Ok(Some(v)) => Verdict::Fail(v),
            Err(e) => Verdict::Fail(format!("HARNESS: {e}")),
        };
    }
    let c: TV = serde_json::from_value(case.clone()).expect("replay case");
    check_c04(&c, &mut Acc::new(), false)
}

/// type expressions including derived declarations (interpreted at run time): at the root and under containers
pub fn ty_strategy_ext(depth: u32, with_dedup: bool) -> BoxedStrategy<Ty> {
    use std::sync::Arc;
    let roots: Vec<BoxedStrategy<Ty>> = rooted_tys(depth).into_iter().map(|(_, s)| s).collect();
    let compiled: Vec<Ty> = crate::props::derived::batch().all().into_iter().filter(|d| crate::props::derived::compiled_ok(d)).map(Ty::Adt).collect();
    let adt = prop_oneof![3 => vmodel::declgen::adt_ty_strategy(with_dedup), 1 => proptest::sample::select(compiled)].boxed();
    // sequences of the compiled declarations that have no size in memory (unit struct, empty struct, enum with one
    // unit constructor): a count and that many non-empty encodings
    let zst: Vec<Ty> = crate::props::derived::batch().specials.iter().filter(|d| vmodel::declgen::ZST_DECLS.contains(&d.name.as_str()) && crate::props::derived::compiled_ok(d)).cloned().map(Ty::Adt).collect();
    let zst_seq = if zst.is_empty() {
        adt.clone()
    } else {
        (proptest::sample::select(zst), proptest::sample::select(vec![usize::MAX, 0, 1, 2, 3, 16, 17])).prop_map(|(t, n)| if n == usize::MAX { Ty::Vec(Arc::new(t)) } else { Ty::Array(Arc::new(t), n) }).boxed()
    };
    prop_oneof![
        6 => Union::new(roots),
        1 => zst_seq,
        4 => adt.clone(),
        1 => adt.clone().prop_map(|t| Ty::Vec(Arc::new(t))),
        1 => adt.clone().prop_map(|t| Ty::Tuple(vec![Ty::U16, t, Ty::Str])),
        1 => adt.clone().prop_map(|t| Ty::Option(Arc::new(t))),
        1 => adt.prop_map(|t| Ty::BTreeMap(Arc::new(Ty::U8), Arc::new(t))),
    ]
    .boxed()
}

pub fn tv_strategy_ext(depth: u32, cfg: ValCfg, with_dedup: bool) -> BoxedStrategy<TV> {
    ty_strategy_ext(depth, with_dedup)
        .prop_flat_map(move |ty| {
            let vs = val_strategy(&ty, cfg);
            (Just(ty), vs, proptest::collection::vec(any::<bool>(), 0..10))
        })
        .prop_map(|(ty, val, forms)| TV { ty, val, forms })
        .boxed()
}

// ---- structural reduction of a failing (type, value): proptest cannot shrink the *type* of a flat-mapped case, so
// after its value shrinking the failing case is walked down to the smallest sub-term that still fails

fn sub_cases(tv: &TV) -> Vec<TV> {
    use std::sync::Arc;
    let mk = |ty: &Ty, val: &Val| TV { ty: ty.clone(), val: val.clone(), forms: tv.forms.clone() };
    let mut out = Vec::new();
    match (&tv.ty, &tv.val) {
        (Ty::Option(t), Val::Some(x)) => out.push(mk(t, x)),
        (Ty::Result(t, _), Val::Ok(x)) => out.push(mk(t, x)),
        (Ty::Result(_, e), Val::Err(x)) => out.push(mk(e, x)),
        (Ty::Tuple(ts), Val::Tuple(xs)) => {
            for (t, x) in ts.iter().zip(xs) {
                out.push(mk(t, x));
            }
        }
        (Ty::Vec(e) | Ty::LinkedList(e) | Ty::HashSet(e) | Ty::BTreeSet(e) | Ty::Array(e, _), Val::Seq(xs)) => {
            for x in xs {
                out.push(mk(e, x));
            }
            if !matches!(tv.ty, Ty::Array(..)) && xs.len() > 1 {
                // the same container with one element, and with each half
                for x in xs {
                    out.push(TV { ty: tv.ty.clone(), val: Val::Seq(vec![x.clone()]), forms: tv.forms.clone() });
                }
                out.push(TV { ty: tv.ty.clone(), val: Val::Seq(xs[..xs.len() / 2].to_vec()), forms: tv.forms.clone() });
                out.push(TV { ty: tv.ty.clone(), val: Val::Seq(xs[xs.len() / 2..].to_vec()), forms: tv.forms.clone() });
            }
        }
        (Ty::HashMap(k, w) | Ty::BTreeMap(k, w), Val::Map(ps)) => {
            for (a, b) in ps {
                out.push(mk(k, a));
                out.push(mk(w, b));
                if ps.len() > 1 {
                    out.push(TV { ty: tv.ty.clone(), val: Val::Map(vec![(a.clone(), b.clone())]), forms: tv.forms.clone() });
                }
            }
        }
        (Ty::Box(t) | Ty::Rc(t) | Ty::Arc(t), x) => out.push(mk(t, x)),
        (Ty::Adt(d), v) => {
            let fields: Option<(&vmodel::Record, &Vec<Val>)> = match (&d.body, v) {
                (vmodel::DeclBody::Struct(r), Val::Rec(fs)) => Some((r, fs)),
                (vmodel::DeclBody::Enum { variants, .. }, Val::Variant(i, fs)) => Some((&variants[*i].record, fs)),
                _ => None,
            };
            if let Some((r, fs)) = fields {
                for (f, x) in r.fields.iter().zip(fs) {
                    if f.transient.is_none() && !f.ty.any(&|t| matches!(t, Ty::Rec(_))) {
                        out.push(mk(&f.ty, x));
                    }
                }
            }
        }
        _ => {}
    }
    let _ = Arc::new(0);
    out
}

/// `fails` returns the failure message of a case, or None if it passes
pub fn reduce_tv(mut tv: TV, mut msg: String, fails: &dyn Fn(&TV) -> Option<String>) -> (TV, String) {
    for _ in 0..400 {
        let mut progressed = false;
        for sub in sub_cases(&tv) {
            if let Some(m) = fails(&sub) {
                tv = sub;
                msg = m;
                progressed = true;
                break;
            }
        }
        if !progressed {
            break;
        }
    }
    (tv, msg)
}

/// applies `reduce_tv` to the violations a run recorded (their replay JSON is a TV)
pub fn reduce_violations(acc: &mut Acc, check: &dyn Fn(&TV, &mut Acc, bool) -> Verdict) {
    for v in acc.violations.iter_mut() {
        if let Ok(tv) = serde_json::from_value::<TV>(v.replay.clone()) {
            let fails = |t: &TV| match crate::run::guarded(|| check(t, &mut Acc::new(), false)) {
                Ok(Verdict::Fail(m)) => Some(m),
                Ok(_) => None,
                Err(p) => Some(format!("panic: {p}")),
            };
            let (small, msg) = reduce_tv(tv, v.what.clone(), &fails);
            v.what = msg;
            v.replay = to_json(&small);
        }
    }
}

/// shapes that can only be serialized (no BinaryDeserializer impl exists): str, [T], &T, Rc<str>, Rc<[T]>
pub fn ser_only_tv_strategy(cfg: ValCfg) -> BoxedStrategy<TV> {
    use std::sync::Arc;
    let inner = vmodel::gen::any_ty(1);
    let elem = prop_oneof![3 => inner.clone(), 1 => Just(Ty::U8)];
    prop_oneof![
        2 => elem.clone().prop_map(|t| Ty::Slice(Arc::new(t))),
        1 => Just(Ty::StrRef),
        1 => Just(Ty::RcStr),
        2 => elem.prop_map(|t| Ty::RcSlice(Arc::new(t))),
        2 => inner.clone().prop_map(|t| Ty::Ref(Arc::new(t))),
        1 => inner.clone().prop_map(|t| Ty::Ref(Arc::new(Ty::Slice(Arc::new(t))))),
        1 => inner.prop_map(|t| Ty::Vec(Arc::new(Ty::Ref(Arc::new(t))))),
    ]
    .prop_flat_map(move |ty| (val_strategy(&ty, cfg), Just(ty)))
    .prop_map(|(val, ty)| TV { ty, val, forms: vec![] })
    .boxed()
}
