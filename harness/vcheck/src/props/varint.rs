//! C11: variable-length integers (E4 exhaustive in the thorough/release run, boundary neighbourhoods + random otherwise)
use crate::run::{parallel, runner, Cx, Tier};
use crate::PropResult;
use bytes::BytesMut;
use desert::{BinaryInput, BinaryOutput, DeserializationContext, OwnedInput, SizeCalculator, SliceInput};
use proptest::prelude::RngCore;
use serde_json::json;
use vmodel::derive_seed;
use vmodel::evidence::Acc;
use vmodel::refcodec::{var_u32, zigzag};

const SENTINEL: u8 = 0xA5;

fn expected_len(u: u32) -> usize {
    let bits = 32 - u.leading_zeros() as usize;
    ((bits + 6) / 7).clamp(1, 5)
}

struct Bufs {
    vec: Vec<u8>,
    bm: BytesMut,
    reference: Vec<u8>,
}

#[inline]
fn check_bytes(b: &Bufs, what: &str, shown: i64) -> Result<(), String> {
    if b.vec != b.reference {
        return Err(format!("{what} {shown}: Vec<u8> got {:02x?} expected {:02x?}", b.vec, b.reference));
    }
    if b.bm[..] != b.reference[..] {
        return Err(format!("{what} {shown}: BytesMut got {:02x?} expected {:02x?}", &b.bm[..], b.reference));
    }
    let n = b.reference.len();
    for (i, byte) in b.vec.iter().enumerate() {
        if (byte & 0x80 != 0) != (i + 1 < n) {
            return Err(format!("{what} {shown}: continuation bit wrong at byte {i}: {:02x?}", b.vec));
        }
    }
    Ok(())
}

/// the var-u32 that selects an enum constructor is read by AdtDeserializer itself (its own call site)
fn read_as_constructor_index(x: u32, encoded: &[u8]) -> Result<(), String> {
    thread_local! {
        static META: desert::adt::AdtMetadata = desert::adt::AdtMetadata::new(vec![desert::Evolution::InitialVersion]);
    }
    let mut bytes = encoded.to_vec();
    bytes.extend_from_slice(&[0, 0x5e]);
    let mut ctx = DeserializationContext::new(&bytes);
    let got = META.with(|m| desert::adt::AdtDeserializer::new_v0(m, &mut ctx).and_then(|mut d| d.read_constructor_idx()));
    match got {
        Ok(v) if v == x && ctx.read_u8().ok() == Some(0) && ctx.read_u8().ok() == Some(0x5e) => Ok(()),
        other => Err(format!("u32 {x}: as a constructor index (bytes {:02x?}) AdtDeserializer reads {other:?}", encoded)),
    }
}

/// the writing side of the same: a constructor index goes out as the var-u32 of the index, at top level of a version-0
/// enum and inside chunk 0 of an enum that has evolution steps of its own
fn write_as_constructor_index(x: u32) -> Result<(), String> {
    thread_local! {
        static V0: desert::adt::AdtMetadata = desert::adt::AdtMetadata::new(vec![desert::Evolution::InitialVersion]);
        static V1: desert::adt::AdtMetadata = desert::adt::AdtMetadata::new(vec![desert::Evolution::InitialVersion, desert::Evolution::FieldRemoved { name: "z".into() }]);
    }
    let mut want = Vec::new();
    var_u32(x, &mut want);
    let plain = V0.with(|m| {
        let mut ctx = desert::SerializationContext::new(Vec::new());
        let mut s = desert::adt::AdtSerializer::new_v0(m, &mut ctx);
        s.write_constructor(x, |c| {
            c.write_u8(0x5e);
            Ok(())
        })?;
        s.finish()?;
        Ok::<_, desert::Error>(ctx.into_output())
    });
    let mut expect = vec![0u8];
    expect.extend_from_slice(&want);
    expect.push(0x5e);
    match &plain {
        Ok(b) if *b == expect => {}
        other => return Err(format!("u32 {x} written as the constructor index of a version-0 enum gives {other:02x?}, the format says {expect:02x?}")),
    }
    let evolved = V1.with(|m| {
        let mut ctx = desert::SerializationContext::new(Vec::new());
        let mut s = desert::adt::AdtSerializer::new(m, &mut ctx);
        s.write_constructor(x, |c| {
            c.write_u8(0x5e);
            Ok(())
        })?;
        s.finish()?;
        Ok::<_, desert::Error>(ctx.into_output())
    });
    // version 1, chunk 0 of (index + 1) bytes, removed-field entry (-2, the name "z"), then chunk 0
    let mut expect = vec![1u8];
    vmodel::refcodec::var_i32(want.len() as i32 + 1, &mut expect);
    expect.extend_from_slice(&[0x03, 0x02, b'z']);
    expect.extend_from_slice(&want);
    expect.push(0x5e);
    match &evolved {
        Ok(b) if *b == expect => Ok(()),
        other => Err(format!("u32 {x} written as the constructor index of an enum with a step of its own gives {other:02x?}, the format says {expect:02x?}")),
    }
}

pub fn check_u32(x: u32, b: &mut Bufs) -> Result<(), String> {
    b.vec.clear();
    b.bm.clear();
    b.reference.clear();
    var_u32(x, &mut b.reference);
    b.vec.write_var_u32(x);
    b.bm.write_var_u32(x);
    let mut sc = SizeCalculator::new();
    sc.write_var_u32(x);
    check_bytes(b, "u32", x as i64)?;
    if sc.size() != b.reference.len() || b.reference.len() != expected_len(x) {
        return Err(format!("u32 {x}: SizeCalculator {} reference {} minimal {}", sc.size(), b.reference.len(), expected_len(x)));
    }
    let len = b.vec.len();
    if tails(x).len() > 2 || x % 5 == 0 {
        read_as_constructor_index(x, &b.vec[..len])?;
        write_as_constructor_index(x)?;
    }
    for &tail in tails(x) {
        b.vec.truncate(len);
        b.vec.extend_from_slice(&TAIL[..tail]);
        let mut s = SliceInput::new(&b.vec);
        let r1 = (s.read_var_u32().ok(), s.read_u8().ok());
        let mut o = OwnedInput::new(b.vec.clone());
        let r2 = (o.read_var_u32().ok(), o.read_u8().ok());
        let mut c = DeserializationContext::new(&b.vec);
        let r3 = (c.read_var_u32().ok(), c.read_u8().ok());
        let want = (Some(x), TAIL[..tail].first().copied());
        if r1 != want || r2 != want || r3 != want {
            return Err(format!("u32 {x}: read back Slice {r1:?} Owned {r2:?} Context {r3:?} from {:02x?}", b.vec));
        }
    }
    Ok(())
}

pub fn check_i32(x: i32, b: &mut Bufs) -> Result<(), String> {
    b.vec.clear();
    b.bm.clear();
    b.reference.clear();
    let z = zigzag(x);
    var_u32(z, &mut b.reference);
    b.vec.write_var_i32(x);
    b.bm.write_var_i32(x);
    let mut sc = SizeCalculator::new();
    sc.write_var_i32(x);
    check_bytes(b, "i32", x as i64)?;
    if sc.size() != b.reference.len() || b.reference.len() != expected_len(z) {
        return Err(format!("i32 {x}: SizeCalculator {} reference {} minimal {}", sc.size(), b.reference.len(), expected_len(z)));
    }
    let len = b.vec.len();
    for &tail in tails(z) {
        b.vec.truncate(len);
        b.vec.extend_from_slice(&TAIL[..tail]);
        let mut s = SliceInput::new(&b.vec);
        let r1 = (s.read_var_i32().ok(), s.read_u8().ok());
        let mut o = OwnedInput::new(b.vec.clone());
        let r2 = (o.read_var_i32().ok(), o.read_u8().ok());
        let mut c = DeserializationContext::new(&b.vec);
        let r3 = (c.read_var_i32().ok(), c.read_u8().ok());
        let want = (Some(x), TAIL[..tail].first().copied());
        if r1 != want || r2 != want || r3 != want {
            return Err(format!("i32 {x}: read back Slice {r1:?} Owned {r2:?} Context {r3:?} from {:02x?}", b.vec));
        }
    }
    Ok(())
}

/// what follows the value in the buffer it is read from: the sentinel, then bytes with and without the continuation
/// bit. Every value is read with 1 and with 9 bytes behind it; values next to a width boundary with 0..=16.
const TAIL: [u8; 16] = [SENTINEL, 0xA5, 0x5A, 0xFF, 0x81, 0x7F, 0xC3, 0x3C, 0x99, 0x01, 0x80, 0xE7, 0x18, 0xFE, 0x02, 0xB4];
const TAILS_ALL: [usize; 17] = [0, 1, 2, 3, 4, 5, 6, 7, 8, 9, 10, 11, 12, 13, 14, 15, 16];
fn tails(u: u32) -> &'static [usize] {
    let near = |p: u64| (u as u64).abs_diff(p) <= 2;
    if near(0) || near(1 << 7) || near(1 << 14) || near(1 << 21) || near(1 << 28) || near(1 << 31) || near(u32::MAX as u64) {
        &TAILS_ALL
    } else {
        &[1, 9]
    }
}

/// field codecs that read a count byte and that many var-ints through the context they are handed
struct VSeqU(Vec<u32>);
impl desert::BinaryDeserializer for VSeqU {
    fn deserialize(context: &mut DeserializationContext<'_>) -> desert::Result<Self> {
        let n = context.read_u8()?;
        (0..n).map(|_| context.read_var_u32()).collect::<desert::Result<Vec<u32>>>().map(VSeqU)
    }
}
struct VSeqI(Vec<u32>);
impl desert::BinaryDeserializer for VSeqI {
    fn deserialize(context: &mut DeserializationContext<'_>) -> desert::Result<Self> {
        let n = context.read_u8()?;
        (0..n).map(|_| context.read_var_i32().map(|x| x as u32)).collect::<desert::Result<Vec<u32>>>().map(VSeqI)
    }
}

/// the writing counterpart: a count byte and the var-ints, through the context (whose output may be a chunk buffer)
struct VSeqW<'a>(&'a [u32], bool);
impl desert::BinarySerializer for VSeqW<'_> {
    fn serialize<O: BinaryOutput>(&self, context: &mut desert::SerializationContext<O>) -> desert::Result<()> {
        context.write_u8(self.0.len() as u8);
        for x in self.0 {
            if self.1 {
                context.write_var_i32(*x as i32)
            } else {
                context.write_var_u32(*x)
            }
        }
        Ok(())
    }
}

/// The values laid out (by the reference formulas) as the three chunks of a version-2 record behind a prefix of
/// `round % 5` bytes and before a tail; read back through AdtDeserializer, i.e. from regions of the input whose
/// start is not the start of the buffer.
fn read_inside_chunks(vals: &[u32], signed: bool, round: usize) -> Result<(), String> {
    use desert::adt::{AdtDeserializer, AdtMetadata};
    use desert::Evolution;
    use vmodel::refcodec::var_i32;
    let meta = AdtMetadata::new(vec![Evolution::InitialVersion, Evolution::FieldAdded { name: "b".into() }, Evolution::FieldAdded { name: "c".into() }]);
    let third = vals.len().div_ceil(3).max(1);
    let parts: Vec<&[u32]> = vec![&vals[..third.min(vals.len())], &vals[third.min(vals.len())..(2 * third).min(vals.len())], &vals[(2 * third).min(vals.len())..]];
    let chunks: Vec<Vec<u8>> = parts
        .iter()
        .map(|p| {
            let mut c = vec![p.len() as u8];
            for x in p.iter() {
                var_u32(if signed { zigzag(*x as i32) } else { *x }, &mut c);
            }
            c
        })
        .collect();
    let mut input: Vec<u8> = TAIL[..round % 5].to_vec();
    input.push(2);
    for c in &chunks {
        var_i32(c.len() as i32, &mut input);
    }
    for c in &chunks {
        input.extend_from_slice(c);
    }
    // the same record written through AdtSerializer: the var-ints go into the chunk buffers of the context
    {
        let mut sc = desert::SerializationContext::new(TAIL[..round % 5].to_vec());
        let w = crate::run::guarded(|| -> desert::Result<()> {
            let mut ser = desert::adt::AdtSerializer::new(&meta, &mut sc);
            ser.write_field("a", &VSeqW(parts[0], signed))?;
            ser.write_field("b", &VSeqW(parts[1], signed))?;
            ser.write_field("c", &VSeqW(parts[2], signed))?;
            ser.finish()
        });
        match w {
            Ok(Ok(())) => {}
            other => return Err(format!("writing var-ints as fields of an evolved record failed: {other:?}")),
        }
        let out = sc.into_output();
        if out != input {
            return Err(format!("var-ints written into the chunk buffers of an evolved record give {} — the reference layout is {}", vmodel::hex(&out), vmodel::hex(&input)));
        }
    }
    input.extend_from_slice(&TAIL[..(round * 3) % 11]);
    let mut ctx = DeserializationContext::new(&input);
    let e = |x: desert::Error| format!("reading var-ints from the chunks of a record failed: {x:?} (input {})", vmodel::hex(&input));
    for _ in 0..round % 5 {
        ctx.read_u8().map_err(e)?;
    }
    let stored = ctx.read_u8().map_err(e)?;
    let got: Vec<Vec<u32>> = {
        let mut de = AdtDeserializer::new(&meta, &mut ctx, stored).map_err(e)?;
        if signed {
            vec![de.read_field::<VSeqI>("a", None).map_err(e)?.0, de.read_field::<VSeqI>("b", None).map_err(e)?.0, de.read_field::<VSeqI>("c", None).map_err(e)?.0]
        } else {
            vec![de.read_field::<VSeqU>("a", None).map_err(e)?.0, de.read_field::<VSeqU>("b", None).map_err(e)?.0, de.read_field::<VSeqU>("c", None).map_err(e)?.0]
        }
    };
    for (g, p) in got.iter().zip(&parts) {
        if g[..] != p[..] {
            return Err(format!("var-ints read from a chunk of an evolved record came back as {g:?} instead of {p:?} (input {})", vmodel::hex(&input)));
        }
    }
    let mut left = 0;
    while ctx.read_u8().is_ok() {
        left += 1;
    }
    if left != (round * 3) % 11 {
        return Err(format!("{left} bytes left after the record instead of {}", (round * 3) % 11));
    }
    Ok(())
}

fn new_bufs() -> Bufs {
    Bufs { vec: Vec::with_capacity(8), bm: BytesMut::with_capacity(8), reference: Vec::with_capacity(8) }
}

fn boundaries() -> Vec<u32> {
    let mut v = vec![0u32, u32::MAX, 1 << 31];
    for k in [7u32, 14, 21, 28, 31] {
        v.push(1 << k);
    }
    v
}

pub fn run(cx: &Cx) -> PropResult {
    let exhaustive = cx.tier == Tier::Thorough && cx.profile == "release";
    let random_per_shard: u64 = if cx.profile == "release" { 1 << 20 } else { 1 << 16 };
    let acc = parallel(cx, &|shard, acc| {
        let mut b = new_bufs();
        let mut fail = |acc: &mut Acc, what: String, kind: &str, v: i64| {
            if acc.violations.is_empty() {
                acc.violation(what, json!({"kind": kind, "value": v}));
            }
        };
        let mut one_u = |acc: &mut Acc, x: u32, class: &str, b: &mut Bufs| {
            acc.case(class, x as u64, x >= 128);
            if let Err(e) = check_u32(x, b) {
                fail(acc, e, "u32", x as i64);
            }
        };
        if exhaustive {
            // all 2^32 u32 values and all 2^32 i32 values, split by the top bits
            let per = (1u64 << 32) / cx.shards as u64;
            let lo = shard as u64 * per;
            let hi = if shard + 1 == cx.shards { 1u64 << 32 } else { lo + per };
            let mut nt: u64 = 0;
            for x in lo..hi {
                let x = x as u32;
                if let Err(e) = check_u32(x, &mut b) {
                    if acc.violations.is_empty() {
                        acc.violation(e, json!({"kind": "u32", "value": x}));
                    }
                    break;
                }
                if let Err(e) = check_i32(x as i32, &mut b) {
                    if acc.violations.is_empty() {
                        acc.violation(e, json!({"kind": "i32", "value": x as i32}));
                    }
                    break;
                }
                nt += (x >= 128) as u64 + (zigzag(x as i32) >= 128) as u64;
            }
            acc.evaluations += 2 * (hi - lo);
            *acc.classes.entry("exhaustive u32".into()).or_insert(0) += hi - lo;
            *acc.classes.entry("exhaustive i32".into()).or_insert(0) += hi - lo;
            acc.nontrivial_enumerated += nt;
            return;
        }
        // neighbourhoods of every width boundary (+-4096), for u32 directly and for i32 through zig-zag pre-images
        let bs = boundaries();
        for (i, c) in bs.iter().enumerate() {
            if i % cx.shards != shard {
                continue;
            }
            for d in -4096i64..=4096 {
                let x = (*c as i64 + d).rem_euclid(1 << 32) as u32;
                one_u(acc, x, "u32 boundary", &mut b);
                // the i32 whose zig-zag image is x, and x reinterpreted
                for s in [vmodel::refcodec::unzigzag(x), x as i32] {
                    acc.case("i32 boundary", s as u32 as u64 | 1 << 40, zigzag(s) >= 128);
                    if let Err(e) = check_i32(s, &mut b) {
                        fail(acc, e, "i32", s as i64);
                    }
                }
            }
        }
        // a lattice across the whole range
        for k in (shard as u32..65536).step_by(cx.shards) {
            let x = k.wrapping_mul(65537);
            one_u(acc, x, "u32 lattice", &mut b);
            acc.case("i32 lattice", x as u64 | 1 << 40, zigzag(x as i32) >= 128);
            if let Err(e) = check_i32(x as i32, &mut b) {
                fail(acc, e, "i32", x as i32 as i64);
            }
        }
        // seeded random values
        let mut r = runner(crate::run::tag_seed(derive_seed(cx.seed, cx.prop, shard as u64, 0), 0));
        for _ in 0..random_per_shard {
            let x = r.rng().next_u32();
            // spread over all widths: choose a bit length first
            let bits = (r.rng().next_u32() % 33) as u32;
            let x = if bits == 0 { 0 } else { x >> (32 - bits) };
            one_u(acc, x, "u32 random", &mut b);
            acc.case("i32 random", x as u64 | 1 << 40, zigzag(x as i32) >= 128);
            if let Err(e) = check_i32(x as i32, &mut b) {
                fail(acc, e, "i32", x as i32 as i64);
            }
        }
        // streams: many values appended to ONE buffer (a growing BytesMut / Vec), read back in order
        for round in 0..(random_per_shard / 64).min(4096) {
            let n = 1 + (r.rng().next_u32() % 40) as usize;
            let vals: Vec<u32> = (0..n).map(|_| {
                let bits = r.rng().next_u32() % 33;
                if bits == 0 { 0 } else { r.rng().next_u32() >> (32 - bits) }
            }).collect();
            let signed = round % 2 == 1;
            let mut reference = Vec::new();
            let mut v = Vec::new();
            let mut bm = if round % 3 == 0 { BytesMut::new() } else { BytesMut::with_capacity(1 + (round as usize % 9)) };
            let res = crate::run::guarded(|| {
                for x in &vals {
                    if signed {
                        var_u32(zigzag(*x as i32), &mut reference);
                        v.write_var_i32(*x as i32);
                        bm.write_var_i32(*x as i32);
                    } else {
                        var_u32(*x, &mut reference);
                        v.write_var_u32(*x);
                        bm.write_var_u32(*x);
                    }
                }
            });
            acc.case("stream of values into one buffer", (round << 8) | 0xC11 << 44 | (shard as u64) << 32, vals.iter().any(|x| *x >= 128));
            let mut bad = None;
            if let Err(p) = res {
                bad = Some(format!("writing {n} values into one buffer panicked: {p}"));
            } else if v != reference || bm[..] != reference[..] {
                bad = Some(format!("stream of {n} values: Vec {:02x?} BytesMut {:02x?} reference {:02x?}", v, &bm[..], reference));
            } else {
                // read back in order through the three inputs, from a buffer that goes on after the stream
                let suffix = &TAIL[..(round as usize * 7) % 17];
                v.extend_from_slice(suffix);
                let mut c = DeserializationContext::new(&v);
                let mut sl = SliceInput::new(&v);
                let mut ow = OwnedInput::new(v.clone());
                for x in &vals {
                    let got = if signed { [c.read_var_i32().ok().map(|y| y as u32), sl.read_var_i32().ok().map(|y| y as u32), ow.read_var_i32().ok().map(|y| y as u32)] } else { [c.read_var_u32().ok(), sl.read_var_u32().ok(), ow.read_var_u32().ok()] };
                    if got != [Some(*x); 3] {
                        bad = Some(format!("stream read back (Context, Slice, Owned) {got:?} instead of {x}"));
                        break;
                    }
                }
                // ... and the same values from inside the chunks of an evolved record that sits in the middle of a buffer
                if bad.is_none() {
                    if let Err(e) = read_inside_chunks(&vals, signed, round as usize) {
                        bad = Some(e);
                    }
                }
                if bad.is_none() {
                    let rest = |i: &mut dyn BinaryInput| {
                        let mut n = 0;
                        while i.read_u8().is_ok() {
                            n += 1;
                        }
                        n
                    };
                    let left = [rest(&mut c), rest(&mut sl), rest(&mut ow)];
                    if left != [suffix.len(); 3] {
                        bad = Some(format!("after the stream (Context, Slice, Owned) have {left:?} bytes left instead of {}", suffix.len()));
                    }
                }
            }
            if let Some(b) = bad {
                if acc.violations.is_empty() {
                    acc.violation(b, json!({"kind": "stream", "values": vals, "signed": signed, "bytesmut_capacity": if round % 3 == 0 { 0 } else { 1 + (round as usize % 9) }}));
                }
                break;
            }
        }
        if shard == 0 {
            for x in [0u32, 127, 128, 16383, 16384, 2097151, 2097152, 268435455, 268435456, u32::MAX] {
                let mut o = Vec::new();
                o.write_var_u32(x);
                acc.sample("u32", json!({"value": x, "bytes_hex": vmodel::hex(&o)}));
            }
            for x in [0i32, -1, 1, -64, 63, -65, 64, i32::MIN, i32::MAX] {
                let mut o = Vec::new();
                o.write_var_i32(x);
                acc.sample("i32", json!({"value": x, "bytes_hex": vmodel::hex(&o)}));
            }
        }
    });
    let mut r = PropResult::new(
        acc,
        "exploration",
        "values x: +-4096 around every width boundary (2^7, 2^14, 2^21, 2^28, 2^31, 0, 2^32-1) for u32 and for the zig-zag pre-images for i32, the lattice k*65537, and seeded random values of uniformly chosen bit length; thorough tier in the release profile enumerates all 2^32 u32 and all 2^32 i32 values (values of an enumeration are distinct by construction and are counted, not hashed). Oracle: bytes written to Vec<u8> and BytesMut equal the independently computed LEB128 / zig-zag reference, SizeCalculator.size() == that length == minimal length, continuation bit on all but the last byte, SliceInput / OwnedInput / DeserializationContext read the value back and leave the sentinel byte that follows unread. Every fifth u32 (and every one next to a width boundary) is also read as the constructor index of an enum by AdtDeserializer. Every value is read with 1 and with 9 further bytes behind it (values within 2 of a width boundary: 0..=16 bytes, with and without continuation bits). Also streams of 1-40 values appended to one Vec<u8> and one BytesMut (fresh, or with 1-9 bytes of initial capacity so that it must grow mid-value) and read back in order through all three inputs from a buffer that continues for 0-16 bytes, written as fields of an evolved record (into the context's chunk buffers) and compared with the reference layout, and read once more from inside the three chunks of that record placed in the middle of a buffer (regions of the context that do not start at offset 0). Values are also read and WRITTEN as constructor indices through AdtDeserializer / AdtSerializer::write_constructor (version-0 enum, and enum with a step of its own: index inside chunk 0), bytes against the layout. Non-trivial = needs >= 2 bytes.",
    );
    if exhaustive {
        r.exhaustive = Some(true);
    }
    r
}

pub fn replay(case: &serde_json::Value) -> crate::run::Verdict {
    if case["kind"] == "stream" {
        let vals: Vec<u32> = serde_json::from_value(case["values"].clone()).expect("values");
        let signed = case["signed"].as_bool().unwrap_or(false);
        let cap = case["bytesmut_capacity"].as_u64().unwrap_or(0) as usize;
        let r = crate::run::guarded(|| {
            let mut reference = Vec::new();
            let mut bm = BytesMut::with_capacity(cap);
            for x in &vals {
                if signed {
                    var_u32(zigzag(*x as i32), &mut reference);
                    bm.write_var_i32(*x as i32);
                } else {
                    var_u32(*x, &mut reference);
                    bm.write_var_u32(*x);
                }
            }
            bm[..] == reference[..]
        });
        return match r {
            Ok(true) => crate::run::Verdict::Pass,
            Ok(false) => crate::run::Verdict::Fail("BytesMut stream differs from the reference".into()),
            Err(p) => crate::run::Verdict::Fail(format!("panic: {p}")),
        };
    }
    let mut b = new_bufs();
    let v = case["value"].as_i64().expect("value");
    let r = if case["kind"] == "u32" { check_u32(v as u32, &mut b) } else { check_i32(v as i32, &mut b) };
    match r {
        Ok(()) => crate::run::Verdict::Pass,
        Err(e) => crate::run::Verdict::Fail(e),
    }
}
