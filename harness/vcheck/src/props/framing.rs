//! C07 (self-delimiting), C08 (truncation), C12 (container / size-form independence) over the built-in vocabulary.
use crate::props::builtin::{tv_strategy, tv_strategy_ext, TV};
use crate::props::evolution::{compiled_evo_strategy, evo_case_strategy, materialize_evo, EvoCase};
use crate::run::{drive, parallel, to_json, Cx, Verdict};
use crate::PropResult;
use proptest::prelude::*;
use proptest::strategy::BoxedStrategy;
use serde::{Deserialize, Serialize};
use serde_json::{json, Value};
use std::sync::Arc;
use vmodel::evidence::Acc;
use vmodel::gen::{any_ty, key_ty, root_class, val_strategy, ValCfg};
use vmodel::refcodec::{ref_encode_forms, ScriptForms};
use vmodel::{canon, derive_seed, hash_json, hex, Ty, Val};

// ------------------------------------------------------------------------------------------------ C07

#[derive(Debug, Clone, Serialize, Deserialize)]
pub struct SuffixCase {
    pub items: Vec<TV>,
    pub suffix: Vec<u8>,
}

fn suffix_strategy() -> BoxedStrategy<Vec<u8>> {
    prop_oneof![
        1 => Just(vec![]),
        2 => any::<u8>().prop_map(|b| vec![b]),
        2 => prop::sample::select(vec![vec![0x80u8], vec![0x80, 0x80, 0x80], vec![1], vec![0], vec![0xff; 5], vec![1, 0, 0, 0, 2], vec![0, 1, 5]]),
        3 => proptest::collection::vec(any::<u8>(), 1..64),
    ]
    .boxed()
}

pub fn suffix_case_strategy(depth: u32) -> BoxedStrategy<SuffixCase> {
    let cfg = ValCfg { max_len: 8, ..ValCfg::default() };
    (prop_oneof![3 => proptest::collection::vec(tv_strategy(depth, cfg), 1..=1), 2 => proptest::collection::vec(tv_strategy_ext(2, cfg, true), 1..=2), 1 => proptest::collection::vec(tv_strategy(depth.min(2), cfg), 2..=5)], suffix_strategy())
        .prop_map(|(items, suffix)| SuffixCase { items, suffix })
        .boxed()
}

pub fn check_c07(c: &SuffixCase, acc: &mut Acc, record: bool) -> Verdict {
    let items: Vec<(Ty, Val)> = c.items.iter().map(|t| (t.ty.clone(), t.val.clone())).collect();
    let mut bytes = match vcat::encode_many(&items) {
        Ok(b) => b,
        Err(e) => return Verdict::Fail(format!("encoding failed: {e:?}")),
    };
    let enc_len = bytes.len();
    bytes.extend_from_slice(&c.suffix);
    if record {
        let class = if c.items.len() == 1 { format!("one:{}", root_class(&c.items[0].ty)) } else { format!("back-to-back x{}", c.items.len()) };
        acc.case(&class, hash_json(c), !c.suffix.is_empty() && enc_len >= 2);
        if acc.wants_sample(&class) {
            acc.sample(&class, json!({"types": c.items.iter().map(|t| t.ty.render()).collect::<Vec<_>>(), "values": c.items.iter().map(|t| t.val.brief()).collect::<Vec<_>>(), "encoding_len": enc_len, "suffix_hex": hex(&c.suffix)}));
        }
    }
    let tys: Vec<Ty> = c.items.iter().map(|t| t.ty.clone()).collect();
    let (results, rest) = vcat::decode_many(&tys, &bytes);
    for (i, r) in results.iter().enumerate() {
        match r {
            Ok(v) if canon(&tys[i], v) == canon(&tys[i], &vmodel::with_transient_defaults(&tys[i], &c.items[i].val)) => {}
            Ok(v) => return Verdict::Fail(format!("value {i} read back as {} instead of {} (stream {})", v.brief(), c.items[i].val.brief(), hex(&bytes))),
            Err(e) => return Verdict::Fail(format!("value {i} of {} failed to decode: {e:?} (stream {})", tys[i].render(), hex(&bytes))),
        }
    }
    if results.len() != tys.len() {
        return Verdict::Fail("not all values were read".into());
    }
    if rest != c.suffix {
        return Verdict::Fail(format!(
            "decoding consumed {} bytes but the encoder produced {}: left unread {} expected suffix {} (types {:?})",
            bytes.len() - rest.len(),
            enc_len,
            hex(&rest),
            hex(&c.suffix),
            tys.iter().map(|t| t.render()).collect::<Vec<_>>()
        ));
    }
    Verdict::Pass
}

#[derive(Debug, Clone, Serialize, Deserialize)]
pub struct EvoSuffixCase {
    pub evo: EvoCase,
    pub suffix: Vec<u8>,
}

/// an older or newer definition reads a record with an evolution header: unknown chunks are skipped in full
pub fn check_c07_evo(c: &EvoSuffixCase, acc: &mut Acc, record: bool) -> Verdict {
    let (_tw, tr, mut bytes, expected, stored_version) = match materialize_evo(&c.evo) {
        Some(x) => x,
        None => {
            if record {
                acc.exclude("stored version 0 read by a definition that removed a chunk-0 field (DESIGN section 9)");
            }
            return Verdict::Skip;
        }
    };
    let enc_len = bytes.len();
    bytes.extend_from_slice(&c.suffix);
    if record {
        let rel = if c.evo.w < c.evo.r { "w<r" } else if c.evo.w == c.evo.r { "w=r" } else { "w>r" };
        let class = format!("evolved record [{rel}]{} {:?}", if c.evo.compiled.is_some() { " compiled" } else { "" }, c.evo.placement);
        acc.case(&class, hash_json(c), !c.suffix.is_empty() && c.evo.w != c.evo.r);
        if acc.wants_sample(&class) && c.evo.w != c.evo.r {
            acc.sample(&class, json!({"writer_version": c.evo.w, "reader_version": c.evo.r, "stored_version_byte": stored_version, "value": c.evo.val.brief(), "encoding_len": enc_len, "suffix_hex": hex(&c.suffix)}));
        }
    }
    let (got, rest) = vcat::decode_with_rest(&tr, &bytes);
    match (expected, got) {
        (Ok(e), Ok(g)) => {
            if canon(&tr, &g) != canon(&tr, &e) {
                return Verdict::Fail(format!("version {} read data of version {} as {} instead of {}", c.evo.r, c.evo.w, g.brief(), e.brief()));
            }
            if rest != c.suffix {
                return Verdict::Fail(format!("version {} reading data of version {} (stored version byte {stored_version}) consumed {} bytes of an encoding of {enc_len}: left {} unread, expected the suffix {}", c.evo.r, c.evo.w, bytes.len() - rest.len(), hex(&rest), hex(&c.suffix)));
            }
            Verdict::Pass
        }
        // a record-level error is the documented outcome: the position is not asserted
        (Err(_), Err(_)) => Verdict::Pass,
        (Ok(e), Err(g)) => Verdict::Fail(format!("version {} failed to read data of version {} followed by a suffix: {g:?} (expected {})", c.evo.r, c.evo.w, e.brief())),
        (Err(e), Ok(g)) => Verdict::Fail(format!("version {} read data of version {} as {} where the documented outcome is {e:?}", c.evo.r, c.evo.w, g.brief())),
    }
}

#[derive(Debug, Clone, Serialize, Deserialize)]
pub struct IterThenCase {
    pub elem: Ty,
    pub xs: Vec<Val>,
    /// 0: exact hint, 1: (0, None), 2: bounded inexact (lo <= n <= hi, lo < hi)
    pub hint: u8,
    /// read the sequence back as a fixed-size array of exactly that many elements instead of a Vec
    #[serde(default)]
    pub as_array: bool,
    pub next: TV,
    pub suffix: Vec<u8>,
}

/// a sequence written through the public `serialize_iterator` helper, whatever its size hint says, is followed by
/// another value: both come back and exactly the suffix is left
pub fn check_c07_iter(c: &IterThenCase, acc: &mut Acc, record: bool) -> Verdict {
    let n = c.xs.len();
    let (lo, hi) = match c.hint % 3 {
        0 => (n, Some(n)),
        1 => (0, None),
        _ => (n / 2, Some(n + 1 + n % 2)),
    };
    let mut bytes = match vcat::encode_iter_then(&c.elem, &c.xs, lo, hi, &(c.next.ty.clone(), c.next.val.clone())) {
        Ok(b) => b,
        Err(e) => return Verdict::Fail(format!("encoding failed: {e:?}")),
    };
    let enc_len = bytes.len();
    bytes.extend_from_slice(&c.suffix);
    if record {
        let class = format!("serialize_iterator with size hint {} then another value", ["exact", "(0, None)", "bounded inexact"][c.hint as usize % 3]);
        acc.case(&class, hash_json(c), !c.suffix.is_empty() && n > 0);
        if acc.wants_sample(&class) {
            acc.sample(&class, json!({"element": c.elem.render(), "items": n, "size_hint": format!("({lo}, {hi:?})"), "next": c.next.ty.render(), "encoding_len": enc_len, "suffix_hex": hex(&c.suffix)}));
        }
    }
    let seq_ty = if c.as_array && [0usize, 1, 2, 3].contains(&n) { Ty::Array(Arc::new(c.elem.clone()), n) } else { Ty::Vec(Arc::new(c.elem.clone())) };
    let tys = vec![seq_ty, c.next.ty.clone()];
    let want = [Val::Seq(c.xs.clone()), vmodel::with_transient_defaults(&c.next.ty, &c.next.val)];
    let (results, rest) = vcat::decode_many(&tys, &bytes);
    for i in 0..2 {
        match results.get(i) {
            Some(Ok(v)) if canon(&tys[i], v) == canon(&tys[i], &want[i]) => {}
            other => return Verdict::Fail(format!("value {i} after a serialize_iterator sequence with size hint ({lo}, {hi:?}) and {n} items read back as {:?} instead of {} (stream {})", other.map(|r| r.as_ref().map(|v| v.brief())), want[i].brief(), hex(&bytes))),
        }
    }
    if rest != c.suffix {
        return Verdict::Fail(format!("left unread {} instead of the suffix {}", hex(&rest), hex(&c.suffix)));
    }
    Verdict::Pass
}

fn iter_then_strategy() -> BoxedStrategy<IterThenCase> {
    let cfg = ValCfg { max_len: 6, long: false, ..ValCfg::default() };
    (any_ty(1), 0u8..3, tv_strategy(2, cfg), suffix_strategy(), any::<bool>())
        .prop_filter_map("u8 sequences use the byte-array form when read as Vec<u8>", |(e, h, n, s, a)| if e == Ty::U8 { None } else { Some((e, h, n, s, a)) })
        .prop_flat_map(move |(elem, hint, next, suffix, as_array)| (proptest::collection::vec(val_strategy(&elem, cfg), if as_array { 0..4 } else { 0..7 }), Just(elem), Just(hint), Just(next), Just(suffix), Just(as_array)))
        .prop_map(|(xs, elem, hint, next, suffix, as_array)| IterThenCase { elem, xs, hint, as_array, next, suffix })
        .boxed()
}

pub fn run_c07(cx: &Cx) -> PropResult {
    let per_shard = cx.n(20_000, 500_000);
    let acc = parallel(cx, &|shard, acc| {
        let strat = suffix_case_strategy(3);
        if drive(crate::run::tag_seed(derive_seed(cx.seed, cx.prop, shard as u64, 0), 0), &strat, per_shard, acc, &|c: &SuffixCase| to_json(&json!({"Plain": c})), &mut |c, a, r| check_c07(c, a, r)) {
            return;
        }
        let strat = iter_then_strategy();
        if drive(crate::run::tag_seed(derive_seed(cx.seed, cx.prop, shard as u64, 2), 2), &strat, per_shard / 4, acc, &|c: &IterThenCase| to_json(&json!({"Iter": c})), &mut |c, a, r| check_c07_iter(c, a, r)) {
            return;
        }
        // evolved records read by older / newer definitions (run-time histories, then the compiled batch)
        let strat = (if shard % 4 == 3 { evo_case_strategy(6, 24) } else { evo_case_strategy(5, 8) }, suffix_strategy()).prop_map(|(evo, suffix)| EvoSuffixCase { evo, suffix });
        if drive(crate::run::tag_seed(derive_seed(cx.seed, cx.prop, shard as u64, 1), 1), &strat, per_shard / 2, acc, &|c: &EvoSuffixCase| to_json(&json!({"Evo": c})), &mut |c, a, r| check_c07_evo(c, a, r)) {
            return;
        }
        // borrowed / shared shapes that can only be written (&[T], &str, &T, Rc<str>, Rc<[T]>): what they write is read
        // back as the owned counterpart, followed by a suffix
        let strat = (crate::props::builtin::ser_only_tv_strategy(ValCfg { max_len: 6, long: false, ..ValCfg::default() }), suffix_strategy());
        if drive(crate::run::tag_seed(derive_seed(cx.seed, cx.prop, shard as u64, 6), 6), &strat, per_shard / 6, acc, &|c: &(TV, Vec<u8>)| to_json(&json!({"SerOnly": {"tv": c.0, "suffix": c.1}})), &mut |c, a, r| check_c07_ser_only(&c.0, &c.1, a, r)) {
            return;
        }
        // values of a user codec that stores its bytes as compressed blocks (write_compressed / read_compressed through
        // the context), between ordinary values
        let strat = blob_case_strategy();
        if drive(crate::run::tag_seed(derive_seed(cx.seed, cx.prop, shard as u64, 5), 5), &strat, per_shard / 10, acc, &|c: &BlobCase| to_json(&json!({"Blob": c})), &mut |c, a, r| check_c07_blob(c, a, r)) {
            return;
        }
        let nh = crate::props::derived::batch().histories.len();
        for h in (shard..nh).step_by(cx.shards) {
            if !crate::props::derived::group_ok(&crate::props::derived::batch().histories[h]) {
                continue;
            }
            let strat = (compiled_evo_strategy(h), suffix_strategy()).prop_map(|(evo, suffix)| EvoSuffixCase { evo, suffix });
            if drive(crate::run::tag_seed(derive_seed(cx.seed, cx.prop, h as u64, 7), 10 + h as u64), &strat, per_shard / 8, acc, &|c: &EvoSuffixCase| to_json(&json!({"Evo": c})), &mut |c, a, r| check_c07_evo(c, a, r)) {
                return;
            }
        }
    });
    let mut r = PropResult::new(
        acc,
        "exploration",
        "cases = 1 value, or 2-5 values of different types written back to back into one SerializationContext, followed by a suffix (empty, one byte, bytes that look like a continuation, random up to 64 bytes). The values are decoded in order from one DeserializationContext, which is then drained with read_u8: every value must come back and the drained bytes must equal the suffix exactly. Non-trivial = non-empty suffix and an encoding of >= 2 bytes. Sequences written through the public serialize_iterator helper with exact, unbounded-inexact and bounded-inexact size hints, followed by another value and a suffix. Values written by the borrowed / shared shapes (&[T], &str, &T, Rc<str>, Rc<[T]>, also of bytes) followed by a suffix and read back as their owned counterparts. Values of a user codec that stores compressed blocks (contents of 0, 1-7, 8-299 and 70 000 bytes, levels 0-9) written through the context, each followed by a marker value. Evolved records: the same with (history, writer version w, reader version r, value, placement) cases from run-time histories and from the compiled batch — data of version w followed by a suffix is read by version r; when the documented outcome is a value the reader must leave exactly the suffix (unknown chunks skipped in full); stored version 0 read by a definition that removed fields is outside the quantifier (counted).",
    );
    r.assumptions = vec!["DeserializationContext is a public BinaryInput: the unread remainder is observed without a hook".into()];
    r
}

fn owned_counterpart(t: &Ty) -> Ty {
    let a = |t: Ty| Arc::new(t);
    match t {
        Ty::Slice(e) | Ty::RcSlice(e) => Ty::Vec(a(owned_counterpart(e))),
        Ty::StrRef | Ty::RcStr => Ty::Str,
        Ty::Ref(e) => owned_counterpart(e),
        Ty::Vec(e) => Ty::Vec(a(owned_counterpart(e))),
        other => other.clone(),
    }
}

pub fn check_c07_ser_only(tv: &TV, suffix: &[u8], acc: &mut Acc, record: bool) -> Verdict {
    // a sequence of &u8 is written element by element, and no owned type reads bytes that way (every container of u8
    // uses the byte-array form): outside this check's pairs
    let seq_of_byte_refs = tv.ty.any(&|t| matches!(t, Ty::Vec(e) | Ty::Slice(e) | Ty::RcSlice(e) if matches!(&**e, Ty::Ref(i) if **i == Ty::U8)));
    if seq_of_byte_refs {
        if record {
            acc.exclude("sequence of &u8 (written element-wise; no owned counterpart reads that form)");
        }
        return Verdict::Skip;
    }
    let owned = owned_counterpart(&tv.ty);
    let (enc, as_written) = vcat::encode(&tv.ty, &tv.val);
    let mut bytes = match enc {
        Ok(b) => b,
        Err(e) => return Verdict::Fail(format!("encoding failed: {e:?}")),
    };
    let n = bytes.len();
    bytes.extend_from_slice(suffix);
    if record {
        let class = format!("written by a borrowed / shared shape, read as the owned type: {}", vmodel::gen::root_class(&tv.ty));
        acc.case(&class, hash_json(&(tv, suffix)), !suffix.is_empty() && n >= 2);
        if acc.wants_sample(&class) {
            acc.sample(&class, json!({"written_as": tv.ty.render(), "read_as": owned.render(), "value": tv.val.brief(), "bytes_hex": hex(&bytes[..bytes.len().min(48)])}));
        }
    }
    let (got, rest) = vcat::decode_with_rest(&owned, &bytes);
    match got {
        Ok(v) if canon(&owned, &v) == canon(&owned, &as_written) && rest == suffix => Verdict::Pass,
        Ok(v) => Verdict::Fail(format!("{} wrote {} ({} bytes); read as {} it gave {} and left {} of the {} suffix bytes", tv.ty.render(), hex(&bytes[..n]), n, owned.render(), v.brief(), rest.len(), suffix.len())),
        Err(e) => Verdict::Fail(format!("{} wrote {}; reading it as {} failed: {e:?}", tv.ty.render(), hex(&bytes[..n]), owned.render())),
    }
}

/// compressed blocks (content length, byte seed, level) each followed by a u16 marker, then a suffix
#[derive(Debug, Clone, Serialize, Deserialize)]
pub struct BlobCase {
    pub blobs: Vec<(usize, u8, u32)>,
    pub suffix: Vec<u8>,
}

fn blob_case_strategy() -> BoxedStrategy<BlobCase> {
    let len = prop_oneof![3 => Just(0usize), 3 => 1usize..8, 2 => 8usize..300, 1 => Just(70_000usize)];
    (proptest::collection::vec((len, any::<u8>(), 0u32..10), 1..4), suffix_strategy()).prop_map(|(blobs, suffix)| BlobCase { blobs, suffix }).boxed()
}

pub fn check_c07_blob(c: &BlobCase, acc: &mut Acc, record: bool) -> Verdict {
    use crate::props::compressed::{ZBlob, ZOwned};
    use desert::{BinaryDeserializer, BinaryInput, BinarySerializer};
    let contents: Vec<Vec<u8>> = c.blobs.iter().map(|(n, seed, _)| (0..*n).map(|i| if seed % 3 == 0 { *seed } else { (i as u8).wrapping_mul(*seed | 1) ^ (i >> 8) as u8 }).collect()).collect();
    let mut ctx = desert::SerializationContext::new(Vec::new());
    for (i, d) in contents.iter().enumerate() {
        if let Err(e) = ZBlob(d, flate2::Compression::new(c.blobs[i].2)).serialize(&mut ctx).and_then(|_| BinarySerializer::serialize(&(0xBE00u16 + i as u16), &mut ctx)) {
            return Verdict::Fail(format!("writing a compressed block failed: {e:?}"));
        }
    }
    let mut bytes = ctx.into_output();
    let encoded = bytes.len();
    bytes.extend_from_slice(&c.suffix);
    if record {
        let class = format!("compressed blocks between values: {}", if contents.iter().any(|d| d.is_empty()) { "with an empty block" } else { "non-empty blocks" });
        acc.case(&class, hash_json(c), !c.suffix.is_empty() || contents.len() > 1);
        if acc.wants_sample(&class) {
            acc.sample(&class, json!({"content_lengths": contents.iter().map(|d| d.len()).collect::<Vec<_>>(), "levels": c.blobs.iter().map(|b| b.2).collect::<Vec<_>>(), "encoded_bytes": encoded, "suffix_bytes": c.suffix.len()}));
        }
    }
    let mut dc = desert::DeserializationContext::new(&bytes);
    for (i, d) in contents.iter().enumerate() {
        match ZOwned::deserialize(&mut dc) {
            Ok(z) if z.0 == *d => {}
            other => return Verdict::Fail(format!("compressed block {i} ({} bytes, level {}) read back as {:?} (stream {})", d.len(), c.blobs[i].2, other.map(|z| z.0.len()).map_err(|e| vcat::errinfo(&e).kind), hex(&bytes[..bytes.len().min(48)]))),
        }
        match <u16 as BinaryDeserializer>::deserialize(&mut dc) {
            Ok(m) if m == 0xBE00 + i as u16 => {}
            other => return Verdict::Fail(format!("the value after compressed block {i} ({} bytes, level {}) read back as {:?}: the block did not consume exactly its own frame (stream {})", d.len(), c.blobs[i].2, other.map_err(|e| vcat::errinfo(&e).kind), hex(&bytes[..bytes.len().min(48)]))),
        }
    }
    let mut rest = Vec::new();
    while let Ok(b) = dc.read_u8() {
        rest.push(b);
    }
    if rest != c.suffix {
        return Verdict::Fail(format!("after {} compressed blocks {} bytes are left instead of the {}-byte suffix", contents.len(), rest.len(), c.suffix.len()));
    }
    Verdict::Pass
}

pub fn replay_c07(case: &Value) -> Verdict {
    if let Some(e) = case.get("SerOnly") {
        let tv: TV = serde_json::from_value(e["tv"].clone()).expect("replay case");
        let suffix: Vec<u8> = serde_json::from_value(e["suffix"].clone()).expect("replay case");
        return check_c07_ser_only(&tv, &suffix, &mut Acc::new(), false);
    }
    if let Some(e) = case.get("Blob") {
        let c: BlobCase = serde_json::from_value(e.clone()).expect("replay case");
        return check_c07_blob(&c, &mut Acc::new(), false);
    }
    if let Some(e) = case.get("Evo") {
        let c: EvoSuffixCase = serde_json::from_value(e.clone()).expect("replay case");
        return check_c07_evo(&c, &mut Acc::new(), false);
    }
    if let Some(e) = case.get("Iter") {
        let c: IterThenCase = serde_json::from_value(e.clone()).expect("replay case");
        return check_c07_iter(&c, &mut Acc::new(), false);
    }
    let c: SuffixCase = serde_json::from_value(case.get("Plain").cloned().unwrap_or(case.clone())).expect("replay case");
    check_c07(&c, &mut Acc::new(), false)
}

// ------------------------------------------------------------------------------------------------ C08

pub fn check_c08(c: &TV, acc: &mut Acc, record: bool) -> Verdict {
    // a valid encoding: what the writer produces, or (when the case carries form choices that select at least one
    // unknown-length node) the reference encoder's rendering in that other legal form
    let mut forms = ScriptForms::new(c.forms.clone());
    let alt = if c.forms.iter().any(|b| *b) { ref_encode_forms(&c.ty, &c.val, &mut forms).ok().filter(|_| forms.used_unknown > 0) } else { None };
    let bytes = match alt {
        Some(f) => {
            if record {
                acc.bump("values_truncated_in_unknown_length_form", 1);
            }
            f.bytes
        }
        None => match vcat::encode(&c.ty, &c.val).0 {
            Ok(b) => b,
            // characters outside the 16-bit range have no encoding (C17): nothing to truncate
            Err(e) if e.kind == "UnsupportedCharacter" => {
                if record {
                    acc.exclude("value with a character the format cannot hold (no encoding to truncate)");
                }
                return Verdict::Skip;
            }
            Err(e) => return Verdict::Fail(format!("encoding failed: {e:?}")),
        },
    };
    if bytes.is_empty() {
        if record {
            acc.exclude("empty encoding (no strict prefix exists)");
        }
        return Verdict::Skip;
    }
    if bytes.len() > 6000 {
        if record {
            acc.exclude("encoding longer than 6000 bytes (cut points would dominate the budget)");
        }
        return Verdict::Skip;
    }
    let site_kinds: Vec<(usize, &'static str)> = if record { cut_classes(&c.ty, &c.val, bytes.len()) } else { vec![] };
    for k in 0..bytes.len() {
        if record {
            let class = site_kinds.get(k).map(|x| x.1).unwrap_or("other");
            acc.case(class, hash_json(&(&c.ty, &c.val, k)), k > 0);
        }
        match vcat::decode(&c.ty, &bytes[..k]) {
            Err(_) => {}
            Ok(v) => {
                return Verdict::Fail(format!("prefix of length {k} of the {}-byte encoding {} of {} decoded to {}", bytes.len(), hex(&bytes), c.ty.render(), v.brief()));
            }
        }
    }
    if record && acc.wants_sample("value") {
        acc.sample("value", json!({"type": c.ty.render(), "value": c.val.brief(), "encoding_hex": hex(&bytes[..bytes.len().min(64)]), "cut_points": bytes.len()}));
    }
    Verdict::Pass
}

/// classifies every cut offset by the kind of site it lands in, from the reference encoder's site map
fn cut_classes(ty: &Ty, val: &Val, len: usize) -> Vec<(usize, &'static str)> {
    use vmodel::refcodec::SiteKind::*;
    let mut out: Vec<(usize, &'static str)> = (0..len).map(|i| (i, "inside fixed-width / other")).collect();
    // the writer's bytes equal the reference bytes for the as-written value (C04); for hash containers the order may
    // differ, which only blurs the classification, not the oracle
    if let Ok(f) = vmodel::refcodec::ref_encode(ty, val) {
        if f.bytes.len() == len {
            for s in &f.sites {
                let name = match s.kind {
                    Version => "at version byte",
                    ChunkSize | StepCode | Position | RemovedName => "inside evolution header",
                    SeqCount => "at/inside sequence count",
                    StrLen | BytesLen => "at/inside length varint",
                    StrBody => "inside string/bytes body",
                    Tag => "at tag byte",
                    ItemFlag | Terminator => "at item flag / terminator",
                    CtorIdx => "at constructor index",
                    DedupRef => "at string back-reference",
                    LeafVarI | LeafVarU => "inside a var-int of a leaf value",
                    FixedInt | Elem | Chunk => continue,
                };
                for i in s.off..(s.off + s.len).min(len) {
                    out[i].1 = name;
                }
            }
        }
    }
    if !out.is_empty() {
        out[0].1 = "cut at offset 0 (empty input)";
    }
    out
}

/// truncation under another definition: only when the stored version is >= 1 (version-0 data carries no sizes)
pub fn check_c08_evo(c: &EvoCase, acc: &mut Acc, record: bool) -> Verdict {
    let (_tw, tr, bytes, _expected, stored_version) = match materialize_evo(c) {
        Some(x) => x,
        None => return Verdict::Skip,
    };
    if stored_version == 0 && c.w != c.r {
        if record {
            acc.exclude("stored version 0 under a different definition (no sizes in the data)");
        }
        return Verdict::Skip;
    }
    let rel = if c.w < c.r { "w<r" } else if c.w == c.r { "w=r" } else { "w>r" };
    for k in 0..bytes.len() {
        if record {
            acc.case(&format!("evolved record cut, read by another version [{rel}]{}", if c.compiled.is_some() { " compiled" } else { "" }), hash_json(&(c, k)), k > 0 && c.w != c.r);
        }
        if let Ok(v) = vcat::decode(&tr, &bytes[..k]) {
            return Verdict::Fail(format!("version {} accepted the first {k} of {} bytes written by version {} (stored version byte {stored_version}) as {} (encoding {})", c.r, bytes.len(), c.w, v.brief(), hex(&bytes)));
        }
    }
    Verdict::Pass
}

/// sequences whose element count lies around the sizes at which an implementation may change strategy, with elements
/// of one or two bytes, so that a cut anywhere yields a stream that still looks like a (shorter) sequence
fn long_seq_strategy() -> BoxedStrategy<TV> {
    let a = |t: Ty| Arc::new(t);
    let tys = vec![Ty::Vec(a(Ty::Bool)), Ty::Vec(a(Ty::I8)), Ty::LinkedList(a(Ty::Bool)), Ty::Vec(a(Ty::Option(a(Ty::U16)))), Ty::Vec(a(Ty::U16)), Ty::Vec(a(Ty::Vec(a(Ty::Bool)))), Ty::Tuple(vec![Ty::U8, Ty::Vec(a(Ty::I8))])];
    (prop::sample::select(tys), prop::sample::select(vec![255usize, 256, 257, 1023, 1024, 1025, 1026, 1500, 2047, 2048, 2049]), any::<u64>())
        .prop_map(|(ty, n, seed)| {
            let mut s = seed | 1;
            let mut next = move || {
                s ^= s << 13;
                s ^= s >> 7;
                s ^= s << 17;
                s
            };
            fn fill(t: &Ty, n: usize, next: &mut dyn FnMut() -> u64) -> Val {
                match t {
                    Ty::Bool => Val::Bool(next() & 1 == 1),
                    Ty::I8 => Val::Int((next() as i8) as i128),
                    Ty::U8 => Val::Int((next() as u8) as i128),
                    Ty::U16 => Val::Int((next() as u16) as i128),
                    Ty::Option(i) => {
                        if next() % 3 == 0 {
                            Val::some(fill(i, n, next))
                        } else {
                            Val::None
                        }
                    }
                    // the outermost sequence has n elements, inner ones 0-2
                    Ty::Vec(e) | Ty::LinkedList(e) => Val::Seq((0..n).map(|_| fill(e, (next() % 3) as usize, next)).collect()),
                    Ty::Tuple(ts) => Val::Tuple(ts.iter().map(|t| fill(t, n, next)).collect()),
                    other => panic!("long_seq_strategy: {other:?}"),
                }
            }
            let val = fill(&ty, n, &mut next);
            TV { ty, val, forms: vec![] }
        })
        .boxed()
}

pub fn run_c08(cx: &Cx) -> PropResult {
    let per_shard = cx.n(1_500, 60_000);
    let acc = parallel(cx, &|shard, acc| {
        let cfg = ValCfg { max_len: 6, long: shard % 4 == 0, non_bmp: shard % 2 == 1, ..ValCfg::default() };
        let strat = tv_strategy(3, cfg);
        if drive(crate::run::tag_seed(derive_seed(cx.seed, cx.prop, shard as u64, 0), 0), &strat, per_shard, acc, &|c: &TV| to_json(c), &mut |c, a, r| check_c08(c, a, r)) {
            return;
        }
        let strat = tv_strategy_ext(2, ValCfg { max_len: 4, long: false, ..ValCfg::default() }, true);
        if drive(crate::run::tag_seed(derive_seed(cx.seed, cx.prop, shard as u64, 1), 1), &strat, per_shard / 2, acc, &|c: &TV| to_json(c), &mut |c, a, r| check_c08(c, a, r)) {
            return;
        }
        // evolved records cut at every offset and read by older / newer definitions
        let strat = evo_case_strategy(5, 8);
        if drive(crate::run::tag_seed(derive_seed(cx.seed, cx.prop, shard as u64, 2), 2), &strat, per_shard / 2, acc, &|c: &EvoCase| to_json(&json!({"Evo": c})), &mut |c, a, r| check_c08_evo(c, a, r)) {
            return;
        }
        let nh = crate::props::derived::batch().histories.len();
        for h in (shard..nh).step_by(cx.shards) {
            if !crate::props::derived::group_ok(&crate::props::derived::batch().histories[h]) {
                continue;
            }
            let strat = compiled_evo_strategy(h);
            if drive(crate::run::tag_seed(derive_seed(cx.seed, cx.prop, h as u64, 7), 10 + h as u64), &strat, per_shard / 10, acc, &|c: &EvoCase| to_json(&json!({"Evo": c})), &mut |c, a, r| check_c08_evo(c, a, r)) {
                return;
            }
        }
        // long sequences of short elements (hundreds to a few thousand), every cut
        let strat = long_seq_strategy();
        drive(crate::run::tag_seed(derive_seed(cx.seed, cx.prop, shard as u64, 4), 4), &strat, cx.n(4, 150), acc, &|c: &TV| to_json(c), &mut |c, a, r| check_c08(c, a, r));
    });
    let mut acc = acc;
    crate::props::builtin::reduce_violations(&mut acc, &|c, a, r| check_c08(c, a, r));
    let mut r = PropResult::new(
        acc,
        "fault_enumeration",
        "for every generated (type, value) the encoding is cut at EVERY offset 0 <= k < len (exhaustive per value) and each prefix is decoded with the writing definition; the result must be Err. evaluations = number of (value, cut) pairs; classes = kind of site the cut lands in (from the reference encoder's site map). Non-trivial = cut at an offset > 0; distinct by hash of (T, v, k). Valid encodings include the reference encoder's unknown-length renderings, and a stream of long sequences (255-2049 one- or two-byte elements, flat, nested and behind a sibling). Evolved records: (history, w, r, value, placement) cases from run-time histories and the compiled batch are cut at every offset and read by version r whenever the stored version is >= 1.",
    );
    r.assumptions = vec!["soundness of the oracle: decoding consumes exactly the encoding (C07) and control flow depends only on bytes already read, so a strict prefix forces a read past the end".into()];
    r
}

pub fn replay_c08(case: &Value) -> Verdict {
    if let Some(e) = case.get("Evo") {
        let c: EvoCase = serde_json::from_value(e.clone()).expect("replay case");
        return check_c08_evo(&c, &mut Acc::new(), false);
    }
    let c: TV = serde_json::from_value(case.clone()).expect("replay case");
    check_c08(&c, &mut Acc::new(), false)
}

// ------------------------------------------------------------------------------------------------ C12

#[derive(Debug, Clone, Copy, Serialize, Deserialize, PartialEq)]
pub enum Cont {
    Vec,
    Slice,
    Array,
    LinkedList,
    HashSet,
    BTreeSet,
    RcSlice,
    // maps (element = pair)
    HashMap,
    BTreeMap,
    // byte containers
    Bytes,
}

#[derive(Debug, Clone, Copy, Serialize, Deserialize, PartialEq)]
pub enum Form {
    Known,
    WriterUnknown,
    /// serialize_iterator over an iterator whose size hint is bounded but inexact: (lo, Some(hi)) with lo <= n <= hi, lo < hi
    WriterBoundedHint,
    RefUnknown,
    /// the reference encoder's unknown-length rendering of the list AND of every sequence inside its elements
    RefUnknownAll,
}

#[derive(Debug, Clone, Serialize, Deserialize)]
pub struct ContCase {
    pub elem: Ty,
    /// for maps: value type
    pub elem2: Option<Ty>,
    pub xs: Val,
    pub src: Cont,
    pub dst: Cont,
    pub form: Form,
    /// where the reader meets the sequence: 0 top level; 1 field of a version-0 record between two siblings; 2 field
    /// that an evolution step added (a chunk of its own, behind the chunk that holds its siblings)
    #[serde(default)]
    pub holder: u8,
}

/// the target container as a field `c` of a run-time record { p: u16, c, q: String }, and the source's bytes laid out
/// by hand as that record's encoding (what matters is the reader)
fn held(kind: u8, dty: &Ty, bytes: &[u8]) -> (Ty, Vec<u8>) {
    use vmodel::refcodec::var_i32;
    use vmodel::{Field, Record, Step};
    let fields = vec![Field::new("p", Ty::U16), Field::new("c", dty.clone()), Field::new("q", Ty::Str)];
    let mut out = Vec::new();
    let steps = if kind == 2 {
        out.push(1);
        var_i32(2 + 2, &mut out);
        var_i32(bytes.len() as i32, &mut out);
        out.extend_from_slice(&[0x12, 0x34, 2, b'q']);
        out.extend_from_slice(bytes);
        vec![Step::Added { name: "c".into(), default: vmodel::declgen::sample_val(dty, ValCfg { max_len: 1, long: false, ..ValCfg::default() }, 7) }]
    } else {
        out.push(0);
        out.extend_from_slice(&[0x12, 0x34]);
        out.extend_from_slice(bytes);
        out.extend_from_slice(&[2, b'q']);
        vec![]
    };
    (Ty::Adt(vmodel::declgen::struct_decl(&format!("DynHeld{kind}{:08x}", vmodel::fnv64(dty.render().as_bytes()) as u32), &Record { fields, steps })), out)
}

fn cont_ty(c: Cont, e: &Ty, e2: &Option<Ty>, n: usize) -> Ty {
    let a = Arc::new(e.clone());
    match c {
        Cont::Vec => match e2 {
            Some(v) => Ty::Vec(Arc::new(Ty::Tuple(vec![e.clone(), v.clone()]))),
            None => Ty::Vec(a),
        },
        Cont::Slice => match e2 {
            Some(v) => Ty::Slice(Arc::new(Ty::Tuple(vec![e.clone(), v.clone()]))),
            None => Ty::Slice(a),
        },
        Cont::RcSlice => Ty::RcSlice(a),
        Cont::Array => Ty::Array(a, n),
        Cont::LinkedList => match e2 {
            Some(v) => Ty::LinkedList(Arc::new(Ty::Tuple(vec![e.clone(), v.clone()]))),
            None => Ty::LinkedList(a),
        },
        Cont::HashSet => Ty::HashSet(a),
        Cont::BTreeSet => Ty::BTreeSet(a),
        Cont::HashMap => Ty::HashMap(a, Arc::new(e2.clone().unwrap())),
        Cont::BTreeMap => Ty::BTreeMap(a, Arc::new(e2.clone().unwrap())),
        Cont::Bytes => Ty::Bytes,
    }
}

const ARR: [usize; 4] = [0, 1, 2, 3];

pub fn cont_case_strategy() -> BoxedStrategy<ContCase> {
    let cfg = ValCfg { max_len: 10, long: false, ..ValCfg::default() };
    // (1) sequences / sets over a key-capable element type
    let seqs = (key_ty(1), prop::sample::select(vec![Cont::Vec, Cont::Slice, Cont::Array, Cont::LinkedList, Cont::HashSet, Cont::BTreeSet, Cont::RcSlice]), prop::sample::select(vec![Cont::Vec, Cont::Array, Cont::LinkedList, Cont::HashSet, Cont::BTreeSet]), prop::sample::select(vec![Form::Known, Form::Known, Form::WriterUnknown, Form::WriterBoundedHint, Form::RefUnknown]))
        .prop_filter_map("u8 elements use the byte-array form", |(e, s, d, f)| if e == Ty::U8 { None } else { Some((e, s, d, f)) })
        .prop_flat_map(move |(e, s, d, f)| {
            let n_fixed = s == Cont::Array || d == Cont::Array;
            let xs = if n_fixed {
                let inner = val_strategy(&e, cfg);
                // (sets collapse duplicates: the long lengths only between ordered containers, where the count is kept)
                let sets = matches!(s, Cont::HashSet | Cont::BTreeSet) || matches!(d, Cont::HashSet | Cont::BTreeSet);
                prop_oneof![12 => prop::sample::select(ARR.to_vec()), 1 => prop::sample::select(if sets { ARR.to_vec() } else { vec![63usize, 64, 65] })].prop_flat_map(move |n| proptest::collection::vec(inner.clone(), n..=n)).prop_map(Val::Seq).boxed()
            } else {
                val_strategy(&Ty::Vec(Arc::new(e.clone())), cfg)
            };
            (Just(e), xs, Just(s), Just(d), Just(f))
        })
        .prop_map(|(elem, xs, src, dst, form)| ContCase { elem, elem2: None, xs, src, dst, form, holder: 0 });
    // (2) sequences over any element type (ordered containers only)
    let anyseq = (any_ty(1), prop::sample::select(vec![Cont::Vec, Cont::Slice, Cont::LinkedList, Cont::RcSlice]), prop::sample::select(vec![Cont::Vec, Cont::LinkedList]), prop::sample::select(vec![Form::Known, Form::WriterUnknown, Form::WriterBoundedHint, Form::RefUnknown]))
        .prop_filter_map("u8 elements use the byte-array form", |(e, s, d, f)| if e == Ty::U8 { None } else { Some((e, s, d, f)) })
        .prop_flat_map(move |(e, s, d, f)| {
            let xs = val_strategy(&Ty::Vec(Arc::new(e.clone())), cfg);
            (Just(e), xs, Just(s), Just(d), Just(f))
        })
        .prop_map(|(elem, xs, src, dst, form)| ContCase { elem, elem2: None, xs, src, dst, form, holder: 0 });
    // (3) lists of pairs <-> maps
    let maps = (key_ty(1), any_ty(1), prop::sample::select(vec![Cont::Vec, Cont::Slice, Cont::LinkedList, Cont::HashMap, Cont::BTreeMap]), prop::sample::select(vec![Cont::Vec, Cont::LinkedList, Cont::HashMap, Cont::BTreeMap]), prop::sample::select(vec![Form::Known, Form::WriterUnknown, Form::RefUnknown]))
        .prop_flat_map(move |(k, v, s, d, f)| {
            let pair = Ty::Tuple(vec![k.clone(), v.clone()]);
            let xs = val_strategy(&Ty::Vec(Arc::new(pair)), cfg);
            (Just(k), Just(v), xs, Just(s), Just(d), Just(f))
        })
        .prop_map(|(k, v, xs, src, dst, form)| ContCase { elem: k, elem2: Some(v), xs, src, dst, form, holder: 0 });
    // (4) byte containers among themselves
    let bytes = (prop::sample::select(vec![Cont::Vec, Cont::Slice, Cont::Array, Cont::Bytes, Cont::RcSlice]), prop::sample::select(vec![Cont::Vec, Cont::Array, Cont::Bytes]), prop::sample::select(vmodel::gen::BYTE_ARRAY_LENS.to_vec()), any::<bool>())
        .prop_flat_map(|(s, d, n, fixed)| {
            let len = if fixed || s == Cont::Array || d == Cont::Array { (n..=n).boxed() } else { prop_oneof![8 => 0usize..70, 2 => 120usize..300, 1 => prop::sample::select(vec![4095usize, 4096, 4097, 8192, 70_000])].boxed() };
            (Just(s), Just(d), len.prop_flat_map(|l| proptest::collection::vec(any::<u8>(), l..=l)))
        })
        .prop_map(|(src, dst, b)| ContCase { elem: Ty::U8, elem2: None, xs: Val::Bytes(b), src, dst, form: Form::Known, holder: 0 });
    // (5) many small sequences in one value, and sequences around the sizes at which an implementation may switch
    // strategy: rows of 0-2 elements, row counts from a list of thresholds
    let rows = (
        prop::sample::select(vec![Ty::U16, Ty::Bool, Ty::Str, Ty::I8]),
        prop::sample::select(vec![0usize, 1, 2, 7, 31, 32, 33, 63, 64, 65, 100, 127, 128, 129, 200, 255, 256, 257, 300, 1023, 1024, 1025, 1100]),
        prop::sample::select(vec![Cont::Vec, Cont::LinkedList, Cont::Slice]),
        prop::sample::select(vec![Cont::Vec, Cont::LinkedList]),
        prop::sample::select(vec![Form::Known, Form::WriterUnknown, Form::RefUnknown, Form::RefUnknownAll, Form::RefUnknownAll]),
        any::<bool>(),
    )
        .prop_flat_map(move |(e, n, s, d, f, flat)| {
            // flat: one long sequence of leaves; otherwise n rows
            let elem = if flat { e.clone() } else { Ty::Vec(Arc::new(e.clone())) };
            let inner = val_strategy(&elem, ValCfg { max_len: 2, long: false, ..ValCfg::default() });
            (Just(elem), proptest::collection::vec(inner, n..=n).prop_map(Val::Seq), Just(s), Just(d), Just(f))
        })
        .prop_map(|(elem, xs, src, dst, form)| ContCase { elem, elem2: None, xs, src, dst, form, holder: 0 });
    // (6) elements without any size in memory but with an encoding: compiled unit struct, empty struct, one-constructor enum
    let zst_tys: Vec<Ty> = crate::props::derived::batch().specials.iter().filter(|d| vmodel::declgen::ZST_DECLS.contains(&d.name.as_str()) && crate::props::derived::compiled_ok(d)).cloned().map(Ty::Adt).collect();
    let zsts = if zst_tys.is_empty() {
        bytes.clone().boxed()
    } else {
        (prop::sample::select(zst_tys), prop::sample::select(vec![Cont::Vec, Cont::Slice, Cont::Array]), prop::sample::select(vec![Cont::Vec, Cont::Array, Cont::LinkedList]), prop::sample::select(vec![Form::Known, Form::Known, Form::RefUnknown]), prop::sample::select(vec![0usize, 1, 2, 3, 16, 17]))
            .prop_map(|(elem, src, dst, form, n)| {
                let one = if matches!(&elem, Ty::Adt(d) if matches!(d.body, vmodel::DeclBody::Enum { .. })) { Val::Variant(0, vec![]) } else { Val::Rec(vec![]) };
                ContCase { elem, elem2: None, xs: Val::Seq(vec![one; n]), src, dst, form, holder: 0 }
            })
            .boxed()
    };
    (prop_oneof![8 => seqs, 4 => anyseq, 6 => maps, 4 => bytes, 1 => rows, 1 => zsts], prop_oneof![3 => Just(0u8), 1 => Just(1u8), 2 => Just(2u8)])
        .prop_map(|(mut c, holder)| {
            c.holder = holder;
            c
        })
        .boxed()
}

fn as_container_val(c: Cont, xs: &Val) -> Val {
    // a list of pairs presented as a map value, or left as a sequence
    match (c, xs) {
        (Cont::HashMap | Cont::BTreeMap, Val::Seq(ps)) => Val::Map(
            ps.iter()
                .map(|p| match p {
                    Val::Tuple(kv) => (kv[0].clone(), kv[1].clone()),
                    _ => panic!("pair"),
                })
                .collect(),
        ),
        _ => xs.clone(),
    }
}

fn as_pair_list(v: &Val) -> Val {
    match v {
        Val::Map(ps) => Val::Seq(ps.iter().map(|(k, w)| Val::Tuple(vec![k.clone(), w.clone()])).collect()),
        other => other.clone(),
    }
}

pub fn check_c12(c: &ContCase, acc: &mut Acc, record: bool) -> Verdict {
    let n = match &c.xs {
        Val::Seq(x) => x.len(),
        Val::Bytes(b) => b.len(),
        _ => 0,
    };
    let sty = cont_ty(c.src, &c.elem, &c.elem2, n);
    let sval = as_container_val(c.src, &c.xs);
    // what the source container actually writes, in its iteration order
    let (written, bytes) = match c.form {
        Form::Known => {
            let (r, as_written) = vcat::encode(&sty, &sval);
            match r {
                Ok(b) => (as_pair_list(&as_written), b),
                Err(e) => return Verdict::Fail(format!("encoding failed: {e:?}")),
            }
        }
        Form::WriterUnknown => {
            let elem_ty = match &c.elem2 {
                Some(v) => Ty::Tuple(vec![c.elem.clone(), v.clone()]),
                None => c.elem.clone(),
            };
            let list = match &c.xs {
                Val::Seq(x) => x.clone(),
                _ => return Verdict::Skip,
            };
            match vcat::encode_iter_unknown(&elem_ty, &list) {
                Ok(b) => (c.xs.clone(), b),
                Err(e) => return Verdict::Fail(format!("serialize_iterator failed: {e:?}")),
            }
        }
        Form::WriterBoundedHint => {
            let elem_ty = match &c.elem2 {
                Some(v) => Ty::Tuple(vec![c.elem.clone(), v.clone()]),
                None => c.elem.clone(),
            };
            let list = match &c.xs {
                Val::Seq(x) => x.clone(),
                _ => return Verdict::Skip,
            };
            // what a `.filter(..)` adaptor reports: lower bound 0 (or something below n), upper bound above n
            let n = list.len();
            let (lo, hi) = if n % 2 == 0 { (0, n + 1 + n % 3) } else { (n - 1, n + 2) };
            match vcat::encode_iter_hint(&elem_ty, &list, lo, Some(hi)) {
                Ok(b) => (c.xs.clone(), b),
                Err(e) => return Verdict::Fail(format!("serialize_iterator failed: {e:?}")),
            }
        }
        Form::RefUnknown | Form::RefUnknownAll => {
            // the reference encoder's unknown-length rendering of the list (root node only, or every sequence node)
            let list_ty = match &c.elem2 {
                Some(v) => Ty::Vec(Arc::new(Ty::Tuple(vec![c.elem.clone(), v.clone()]))),
                None => Ty::Vec(Arc::new(c.elem.clone())),
            };
            if c.elem == Ty::U8 {
                return Verdict::Skip;
            }
            let mut forms = ScriptForms::new(if c.form == Form::RefUnknownAll { vec![true; n + 1] } else { vec![true] });
            match ref_encode_forms(&list_ty, &c.xs, &mut forms) {
                Ok(f) => (c.xs.clone(), f.bytes),
                Err(e) => return Verdict::Fail(format!("HARNESS: reference encoder: {e:?}")),
            }
        }
    };
    if record && n >= 64 {
        acc.bump(if matches!(c.elem, Ty::Vec(_)) { "values_with_64_or_more_inner_sequences" } else { "sequences_of_64_or_more_elements" }, 1);
        if n > 1024 {
            acc.bump("sequences_of_more_than_1024_elements", 1);
        }
    }
    // an array target must have the length of what was written (a set source may have collapsed duplicates)
    let written_len = match &written {
        Val::Seq(x) => x.len(),
        Val::Bytes(b) => b.len(),
        _ => 0,
    };
    let dty = cont_ty(c.dst, &c.elem, &c.elem2, written_len);
    if record {
        let class = format!("{:?}->{:?} {:?}{}", c.src, c.dst, c.form, if c.elem2.is_some() { " pairs" } else { "" });
        acc.case(&class, hash_json(c), (c.src != c.dst || c.form != Form::Known) && n > 0);
        if acc.wants_sample(&class) {
            acc.sample(&class, json!({"source": sty.render(), "target": dty.render(), "elements": c.xs.brief(), "bytes_hex": hex(&bytes[..bytes.len().min(48)])}));
        }
    }
    let expected = as_container_val(c.dst, &written);
    // the same bytes met as a field of a record (in the record's only chunk, or in a chunk of their own); in the
    // writer's own form the record is also WRITTEN by the real writer, with the source container as its field
    let (dty, bytes, expected) = if c.holder % 3 != 0 {
        let (hty, mut hbytes) = held(c.holder % 3, &dty, &bytes);
        let mut written = written;
        if c.form == Form::Known {
            let (hsty, _) = held(c.holder % 3, &sty, &[]);
            let (enc, aw) = vcat::encode(&hsty, &Val::Rec(vec![Val::Int(0x1234), sval.clone(), Val::str("q")]));
            let b = match enc {
                Ok(b) => b,
                Err(e) => return Verdict::Fail(format!("encoding a record that holds {} failed: {e:?}", sty.render())),
            };
            // a hash container iterates in an order of its own per instance: there the record's bytes stand for
            // themselves (and say what was written); everywhere else they must be the hand layout
            if sty.any(&|t| matches!(t, Ty::HashSet(_) | Ty::HashMap(..))) {
                if let Val::Rec(fs) = &aw {
                    written = as_pair_list(&fs[1]);
                }
            } else if b != hbytes {
                return Verdict::Fail(format!("{} written as a field of a record ({} chunk) gives {} bytes where the layout of header and chunks around its stand-alone encoding gives {} (first difference at {:?})", sty.render(), if c.holder % 3 == 2 { "its own" } else { "the only" }, b.len(), hbytes.len(), b.iter().zip(&hbytes).position(|(x, y)| x != y)));
            }
            hbytes = b;
        }
        let expected = as_container_val(c.dst, &written);
        if record {
            acc.bump(if c.holder % 3 == 1 { "targets_met_as_field_of_a_version_0_record" } else { "targets_met_in_a_chunk_of_their_own" }, 1);
        }
        (hty, hbytes, Val::Rec(vec![Val::Int(0x1234), expected, Val::str("q")]))
    } else {
        (dty, bytes, expected)
    };
    let (got, rest) = vcat::decode_with_rest(&dty, &bytes);
    match got {
        Ok(v) => {
            // whatever the container and the size form, the target must consume the whole encoding (else data that
            // follows the sequence would be read from the wrong offset)
            if !rest.is_empty() {
                return Verdict::Fail(format!("{} read from the bytes of {} ({:?}) left {} bytes unread: {} (bytes {})", dty.render(), sty.render(), c.form, rest.len(), hex(&rest), hex(&bytes)));
            }
            // ordered targets: canon keeps order, so this is sequence equality; unordered targets: set / map equality
            if canon(&dty, &v) == canon(&dty, &expected) {
                Verdict::Pass
            } else {
                Verdict::Fail(format!("{} read from the bytes of {} gave {} instead of {} (bytes {})", dty.render(), sty.render(), v.brief(), expected.brief(), hex(&bytes)))
            }
        }
        Err(e) => Verdict::Fail(format!("{} could not read the bytes of {} ({:?}): {e:?} (bytes {})", dty.render(), sty.render(), c.form, hex(&bytes))),
    }
}

/// several maps with text keys in ONE stream, their keys drawn from a few strings so that maps share keys, beside
/// deduplicated strings or not: what a list of HashMaps wrote is read as a list of BTreeMaps or of pair lists, and
/// the other way round (a container that keeps anything per stream shows here, not with a single map)
#[derive(Debug, Clone, Serialize, Deserialize)]
pub struct MapsCase {
    pub maps: Vec<Vec<(String, u8)>>,
    pub src: Cont,
    pub dst: Cont,
    /// deduplicated strings written before the maps (and read before them)
    pub beside: Vec<String>,
}

fn maps_strategy() -> BoxedStrategy<MapsCase> {
    let keys = vec!["", "k", "key", "x", "name", "\u{e9}t\u{e9}"];
    let one = proptest::collection::vec((prop::sample::select(keys.clone()), any::<u8>()), 0..5).prop_map(|ps| {
        // distinct keys within one map
        let mut out: Vec<(String, u8)> = Vec::new();
        for (k, v) in ps {
            if !out.iter().any(|(x, _)| x == k) {
                out.push((k.to_string(), v));
            }
        }
        out
    });
    let kinds = vec![Cont::Vec, Cont::LinkedList, Cont::HashMap, Cont::BTreeMap];
    (proptest::collection::vec(one, 1..5), prop::sample::select(kinds.clone()), prop::sample::select(kinds), proptest::collection::vec(prop::sample::select(keys), 0..4))
        .prop_map(|(maps, src, dst, beside)| MapsCase { maps, src, dst, beside: beside.into_iter().map(|s| s.to_string()).collect() })
        .boxed()
}

pub fn check_c12_maps(c: &MapsCase, acc: &mut Acc, record: bool) -> Verdict {
    // at the REAL static types (the run-time bridge instantiates containers at its own element type, which hides
    // whatever a codec does for particular key types)
    use desert::DeduplicatedString as DS;
    use std::collections::{BTreeMap, HashMap, LinkedList};
    type P = (String, u8);
    fn enc<M: desert::BinarySerializer>(beside: &[String], maps: Vec<M>) -> desert::Result<Vec<u8>> {
        desert::serialize_to_byte_vec(&(beside.iter().map(|s| DS(s.clone())).collect::<Vec<DS>>(), maps))
    }
    fn dec<M: desert::BinaryDeserializer + IntoIterator<Item = P>>(bytes: &[u8]) -> desert::Result<(Vec<String>, Vec<Vec<P>>)> {
        let (b, ms): (Vec<DS>, Vec<M>) = desert::deserialize(bytes)?;
        Ok((b.into_iter().map(|d| d.0).collect(), ms.into_iter().map(|m| m.into_iter().collect()).collect()))
    }
    let name = |k: Cont| match k {
        Cont::HashMap => "Vec<HashMap<String, u8>>",
        Cont::BTreeMap => "Vec<BTreeMap<String, u8>>",
        Cont::LinkedList => "Vec<LinkedList<(String, u8)>>",
        _ => "Vec<Vec<(String, u8)>>",
    };
    if record {
        let shared = c.maps.iter().enumerate().any(|(i, m)| c.maps[..i].iter().any(|o| o.iter().any(|(k, _)| m.iter().any(|(x, _)| x == k))));
        acc.case("several text-keyed maps in one stream (static types)", hash_json(c), shared && c.src != c.dst);
    }
    let maps = c.maps.clone();
    let bytes = crate::run::guarded(|| match c.src {
        Cont::HashMap => enc(&c.beside, maps.iter().map(|m| m.iter().cloned().collect::<HashMap<String, u8>>()).collect()),
        Cont::BTreeMap => enc(&c.beside, maps.iter().map(|m| m.iter().cloned().collect::<BTreeMap<String, u8>>()).collect()),
        Cont::LinkedList => enc(&c.beside, maps.iter().map(|m| m.iter().cloned().collect::<LinkedList<P>>()).collect()),
        _ => enc(&c.beside, maps.clone()),
    });
    let bytes = match bytes {
        Ok(Ok(b)) => b,
        other => return Verdict::Fail(format!("encoding {} failed: {other:?}", name(c.src))),
    };
    let back = crate::run::guarded(|| match c.dst {
        Cont::HashMap => dec::<HashMap<String, u8>>(&bytes),
        Cont::BTreeMap => dec::<BTreeMap<String, u8>>(&bytes),
        Cont::LinkedList => dec::<LinkedList<P>>(&bytes),
        _ => dec::<Vec<P>>(&bytes),
    });
    let sorted = |ms: &Vec<Vec<P>>| -> Vec<Vec<P>> {
        ms.iter()
            .map(|m| {
                let mut m = m.clone();
                m.sort();
                m
            })
            .collect()
    };
    match back {
        Ok(Ok((beside, got))) => {
            if beside != c.beside || sorted(&got) != sorted(&c.maps) {
                return Verdict::Fail(format!("(Vec<DeduplicatedString>, {}) read from the bytes of (.., {}) gives {:?} / {:?}, written were {:?} / {:?} (bytes {})", name(c.dst), name(c.src), beside, got, c.beside, c.maps, hex(&bytes)));
            }
            Verdict::Pass
        }
        other => Verdict::Fail(format!("(Vec<DeduplicatedString>, {}) could not read the bytes of (.., {}): {other:?} (bytes {})", name(c.dst), name(c.src), hex(&bytes))),
    }
}

pub fn run_c12(cx: &Cx) -> PropResult {
    let per_shard = cx.n(100_000, 2_000_000);
    let acc = parallel(cx, &|shard, acc| {
        let strat = cont_case_strategy();
        if drive(crate::run::tag_seed(derive_seed(cx.seed, cx.prop, shard as u64, 0), 0), &strat, per_shard, acc, &|c: &ContCase| to_json(c), &mut |c, a, r| check_c12(c, a, r)) {
            return;
        }
        let strat = maps_strategy();
        drive(crate::run::tag_seed(derive_seed(cx.seed, cx.prop, shard as u64, 4), 4), &strat, per_shard / 10, acc, &|c: &MapsCase| to_json(&json!({"Maps": c})), &mut |c, a, r| check_c12_maps(c, a, r));
    });
    PropResult::new(
        acc,
        "exploration",
        "cases = (element type E, element list xs with likely duplicates, source container S, target container D, size form): S in {Vec, &[E], [E;N], LinkedList, HashSet, BTreeSet, Rc<[E]>}, D in {Vec, [E;N], LinkedList, HashSet, BTreeSet}; lists of pairs <-> HashMap / BTreeMap / Vec<(K,V)>; byte containers Vec<u8>, &[u8], [u8;N], Bytes, Rc<[u8]> among themselves; forms: the writer's known-length form, the writer's unknown-length form (serialize_iterator over an iterator with an inexact size hint: unbounded (0, None) and bounded (lo, Some(hi)) with lo <= n <= hi as a filter adaptor reports) and the reference encoder's unknown-length form (of the list, or of the list and every sequence inside its elements); one case in 23 is a long list (up to 1100 leaves) or a list of up to 1100 small rows, with lengths taken around powers of two. The target is met at top level, as a field of a version-0 record between two siblings, or as a field in a chunk of its own of an evolved record (record bytes laid out by hand around S's bytes). Oracle: D decoded from S's bytes equals the elements as S wrote them (sequence equality for ordered targets, set/map equality with last-key-wins otherwise). Several text-keyed maps in one stream beside deduplicated strings, at the real static types Vec<HashMap<String, u8>> / Vec<BTreeMap<..>> / Vec<Vec<(String, u8)>> / Vec<LinkedList<..>>, every source read as every target. Non-trivial = S != D or an unknown-length form, with a non-empty list.",
    )
}

pub fn replay_c12(case: &Value) -> Verdict {
    if let Some(m) = case.get("Maps") {
        let c: MapsCase = serde_json::from_value(m.clone()).expect("replay case");
        return check_c12_maps(&c, &mut Acc::new(), false);
    }
    let c: ContCase = serde_json::from_value(case.clone()).expect("replay case");
    check_c12(&c, &mut Acc::new(), false)
}
