//! C03: every writer/reader version pair of a legal evolution history gives the documented outcome (E3 volume;
//! the compiled declarations of E2 run the same check on the derive macro's output).
use crate::run::{drive, parallel, to_json, Cx, Verdict};
use crate::PropResult;
use proptest::prelude::*;
use proptest::strategy::BoxedStrategy;
use serde::{Deserialize, Serialize};
use serde_json::{json, Value};
use std::sync::Arc;
use vmodel::declgen::{build_history, dynamic_menu, expected_read, expected_read_adapt, history_spec_strategy, struct_decl, unframed_removal, HistorySpec, ReadErr};
use vmodel::evidence::Acc;
use vmodel::gen::{pick, val_strategy, ValCfg};
use vmodel::{canon, derive_seed, hash_json, hex, Record, Ty, Val};

#[derive(Debug, Clone, Copy, Serialize, Deserialize, PartialEq)]
pub enum Placement {
    Top,
    /// (u16, REC, String): a sibling before and a sibling after the record
    Between,
    /// Vec<REC>
    InVec,
    /// Option<REC>
    InOption,
    /// the record is the body of a struct variant of an enum (evolution annotations on the variant)
    InVariant,
}

#[derive(Debug, Clone, Serialize, Deserialize)]
pub struct EvoCase {
    /// Some(h): history h of the compiled batch (types H{h}V{i}, derive-macro code); None: run-time history from `spec`
    #[serde(default)]
    pub compiled: Option<usize>,
    pub spec: HistorySpec,
    pub w: usize,
    pub r: usize,
    pub placement: Placement,
    /// value of the *wrapped* writer type
    pub val: Val,
}

pub fn wrap(p: Placement, t: Ty) -> Ty {
    match p {
        Placement::Top => t,
        Placement::Between => Ty::Tuple(vec![Ty::U16, t, Ty::Str]),
        Placement::InVec => Ty::Vec(Arc::new(t)),
        Placement::InOption => Ty::Option(Arc::new(t)),
        Placement::InVariant => match &t {
            Ty::Adt(d) => match &d.body {
                vmodel::DeclBody::Struct(r) => Ty::Adt(Arc::new(vmodel::Decl {
                    name: format!("{}Holder", d.name),
                    body: vmodel::DeclBody::Enum {
                        sorted: false,
                        steps: vec![],
                        variants: vec![
                            vmodel::Variant { name: "Empty".into(), shape: vmodel::Shape::Unit, transient: false, record: Record { fields: vec![], steps: vec![] } },
                            vmodel::Variant { name: "Rec".into(), shape: vmodel::Shape::Struct, transient: false, record: r.clone() },
                        ],
                    },
                })),
                _ => t,
            },
            _ => t,
        },
    }
}

/// field types of the run-time histories: the plain menu plus nested records that have histories of their own (the
/// same definition on both sides). Three of them carry removed-field names in their headers; the names are chosen to
/// collide with declared fields of the other ones, so that a misresolved name has a visible consequence (F17).
pub fn evo_menu() -> Vec<Ty> {
    thread_local! {
        static MENU: Vec<Ty> = {
            let a = |t: Ty| Arc::new(t);
            let f = |n: &str, t: Ty| vmodel::Field::new(n, t);
            let nest_a = Ty::Adt(struct_decl("NestA", &Record { fields: vec![f("k", Ty::U8), f("y", Ty::Option(a(Ty::U16)))], steps: vec![vmodel::Step::Removed { name: "x".into() }] }));
            let nest_b = Ty::Adt(struct_decl("NestB", &Record { fields: vec![f("s", Ty::Str)], steps: vec![vmodel::Step::Removed { name: "y".into() }] }));
            let nest_c = Ty::Adt(struct_decl(
                "NestC",
                &Record { fields: vec![f("x", Ty::Option(a(Ty::Bool))), f("n", Ty::U32)], steps: vec![vmodel::Step::Added { name: "n".into(), default: Val::Int(5) }, vmodel::Step::Removed { name: "k".into() }] },
            ));
            let nest_plain = Ty::Adt(struct_decl(
                "NestP",
                &Record { fields: vec![f("a", Ty::U8), f("b", Ty::Option(a(Ty::Str))), f("c", Ty::I32)], steps: vec![vmodel::Step::MadeOptional { name: "b".into() }, vmodel::Step::Added { name: "c".into(), default: Val::Int(-1) }] },
            ));
            let mut m = dynamic_menu(false);
            m.extend([nest_a.clone(), Ty::Option(a(nest_a.clone())), Ty::Vec(a(nest_a)), nest_b.clone(), Ty::Option(a(nest_b)), nest_c.clone(), Ty::Option(a(nest_c)), nest_plain.clone(), Ty::Vec(a(nest_plain))]);
            m
        };
    }
    MENU.with(|m| m.clone())
}

pub fn versions_of(spec: &HistorySpec) -> Vec<Record> {
    build_history(spec, &evo_menu())
}

/// Finding F17 (known_findings.json): removed-field names in record headers are deduplicated strings, and a reader that
/// skips the bytes holding the first occurrence of one (a chunk its definition does not know, a removed field's
/// bytes) numbers the following strings differently from the writer. Some(why) when exactly that explains the
/// outcome `got`: a back-reference the reader resolves means another string (or none) to it than to the writer, and
/// the outcome is the one a faithful implementation of the format gives (the reference decoder's). Any other
/// deviation stays a violation.
pub fn f17_explains(tw: &Ty, tr: &Ty, bytes: &[u8], got: &Result<Val, vmodel::ErrInfo>) -> Option<String> {
    if !vmodel::refcodec::has_dedup_sources(tw) {
        return None;
    }
    let why = vmodel::refcodec::shadowed_string_ids(tw, bytes, tr)?;
    let same = match (vmodel::refcodec::ref_decode(tr, bytes), got) {
        (Ok((v, _)), Ok(g)) => canon(tr, &v) == canon(tr, g),
        (Err(_), Err(_)) => true,
        _ => false,
    };
    if same {
        Some(why)
    } else {
        None
    }
}

const F17_EXCLUDED: &str = "F17: the reader skipped the first occurrence of a removed-field name and resolves a later back-reference differently from the writer";

pub fn decl_name(spec: &HistorySpec, i: usize) -> String {
    format!("DynH{:08x}v{i}", hash_json(spec) as u32)
}

fn case_versions(c: &EvoCase) -> Vec<Record> {
    match c.compiled {
        Some(h) => crate::props::derived::batch().histories[h]
            .iter()
            .map(|d| match &d.body {
                vmodel::DeclBody::Struct(r) => r.clone(),
                _ => unreachable!(),
            })
            .collect(),
        None => versions_of(&c.spec),
    }
}

fn case_decl_name(c: &EvoCase, i: usize) -> String {
    match c.compiled {
        Some(h) => format!("H{h}V{i}"),
        None => decl_name(&c.spec, i),
    }
}

pub fn compiled_evo_strategy(h: usize) -> BoxedStrategy<EvoCase> {
    let decls = crate::props::derived::batch().histories[h].clone();
    let n = decls.len();
    // a user-level DeduplicatedString anywhere inside (also in nested declarations) rules out cross-version reading
    // (documented in lib.rs); removed-field names in nested headers do not: see F17
    let dedup = crate::props::derived::batch().dedup_histories[h] || decls.iter().any(|d| Ty::Adt(d.clone()).any(&|t| *t == Ty::Dedup));
    let ok: Vec<usize> = (0..n).filter(|i| crate::props::derived::compiled_ok(&decls[*i])).collect();
    let m = ok.len().max(1);
    (0..m, 0..m, prop::sample::select(vec![Placement::Top, Placement::Top, Placement::Between, Placement::Between, Placement::InVec, Placement::InOption]))
        .prop_flat_map(move |(w, r, placement)| {
            let (w, r) = (ok.get(w).copied().unwrap_or(0), ok.get(r).copied().unwrap_or(0));
            // cross-version reading with DeduplicatedString fields is documented as unsupported
            let r = if dedup { w } else { r };
            let tw = wrap(placement, Ty::Adt(decls[w].clone()));
            let cfg = ValCfg { max_len: 3, long: false, ..ValCfg::default() };
            (Just(w), Just(r), Just(placement), val_strategy(&tw, cfg))
        })
        .prop_map(move |(w, r, placement, val)| EvoCase { compiled: Some(h), spec: HistorySpec { init: vec![], steps: vec![], seed: 0 }, w, r, placement, val })
        .boxed()
}

pub fn evo_case_strategy(max_init: usize, max_steps: usize) -> BoxedStrategy<EvoCase> {
    (history_spec_strategy(max_init, max_steps), any::<u16>(), any::<u16>(), prop::sample::select(vec![Placement::Top, Placement::Top, Placement::Between, Placement::Between, Placement::InVec, Placement::InOption, Placement::InVariant, Placement::InVariant]))
        .prop_flat_map(|(spec, ws, rs, placement)| {
            let versions = versions_of(&spec);
            let w = pick(ws, versions.len());
            let r = pick(rs, versions.len());
            let tw = wrap(placement, Ty::Adt(struct_decl(&decl_name(&spec, w), &versions[w])));
            let cfg = ValCfg { max_len: 3, long: false, ..ValCfg::default() };
            (Just(spec), Just(w), Just(r), Just(placement), val_strategy(&tw, cfg))
        })
        .prop_map(|(spec, w, r, placement, val)| EvoCase { compiled: None, spec, w, r, placement, val })
        .boxed()
}

/// maps the per-record expectation over the wrapper
fn expected_wrapped(p: Placement, versions: &[Record], w: usize, r: usize, v: &Val, classes: &mut Vec<String>) -> Result<Val, ReadErr> {
    let mut one = |x: &Val| {
        let (res, cls) = expected_read(versions, w, r, x);
        for c in cls {
            classes.push(format!("{c:?}"));
        }
        res
    };
    match (p, v) {
        (Placement::Top, x) => one(x),
        (Placement::Between, Val::Tuple(xs)) => Ok(Val::Tuple(vec![xs[0].clone(), one(&xs[1])?, xs[2].clone()])),
        (Placement::InVec, Val::Seq(xs)) => {
            let mut out = Vec::new();
            for x in xs {
                out.push(one(x)?);
            }
            Ok(Val::Seq(out))
        }
        (Placement::InOption, Val::None) => Ok(Val::None),
        (Placement::InOption, Val::Some(x)) => Ok(Val::some(one(x)?)),
        (Placement::InVariant, Val::Variant(0, _)) => Ok(v.clone()),
        (Placement::InVariant, Val::Variant(1, fs)) => match one(&Val::Rec(fs.clone()))? {
            Val::Rec(out) => Ok(Val::Variant(1, out)),
            other => Ok(other),
        },
        (p, v) => panic!("expected_wrapped {p:?} {v:?}"),
    }
}

pub fn check_c03(c: &EvoCase, acc: &mut Acc, record: bool) -> Verdict {
    let versions = case_versions(c);
    if c.w >= versions.len() || c.r >= versions.len() {
        return Verdict::Skip; // a shrunk spec lost the step the indices referred to
    }
    let embedded = c.placement != Placement::Top;
    if embedded && unframed_removal(&versions, c.w, c.r) {
        if record {
            acc.exclude("embedded + stored version 0 + reader removed a chunk-0 field (DESIGN section 9: the format has no framing)");
        }
        return Verdict::Skip;
    }
    let tw = wrap(c.placement, Ty::Adt(struct_decl(&case_decl_name(c, c.w), &versions[c.w])));
    let tr = wrap(c.placement, Ty::Adt(struct_decl(&case_decl_name(c, c.r), &versions[c.r])));
    let mut classes = Vec::new();
    let expected = expected_wrapped(c.placement, &versions, c.w, c.r, &c.val, &mut classes);
    let (enc, _) = vcat::encode(&tw, &c.val);
    let bytes = match enc {
        Ok(b) => b,
        Err(e) => return Verdict::Fail(format!("version {} of the history cannot be encoded: {e:?}; steps {:?}", c.w, versions[c.w].steps)),
    };
    if record {
        classes.sort();
        classes.dedup();
        let rel = if c.w < c.r { "w<r" } else if c.w == c.r { "w=r" } else { "w>r" };
        let h = hash_json(c);
        if classes.is_empty() {
            classes.push("no serialized field".into());
        }
        for cl in &classes {
            acc.case(&format!("{}{cl} [{rel}] {:?}", if c.compiled.is_some() { "compiled: " } else { "" }, c.placement), h, c.w != c.r);
        }
        // count the case once
        acc.evaluations -= classes.len() as u64 - 1;
        let cl = format!("{}{} [{rel}] {:?}", if c.compiled.is_some() { "compiled: " } else { "" }, classes[0], c.placement);
        if c.w != c.r && acc.wants_sample(&cl) {
            acc.sample(&cl, json!({"steps": format!("{:?}", versions.last().unwrap().steps), "writer_version": c.w, "reader_version": c.r, "placement": format!("{:?}", c.placement), "value": c.val.brief(), "bytes_hex": hex(&bytes[..bytes.len().min(64)]), "expected": format!("{:?}", expected.as_ref().map(|v| v.brief()))}));
        }
    }
    let (got, rest) = vcat::decode_with_rest(&tr, &bytes);
    // at top level the value is also read through the `deserialize` entry point: the same outcome (it may leave the
    // bytes of a removed trailing field of version-0 data unread, DESIGN section 9)
    if c.placement == Placement::Top {
        let via_entry = vcat::decode(&tr, &bytes);
        let same = match (&via_entry, &got) {
            (Ok(a), Ok(b)) => canon(&tr, a) == canon(&tr, b),
            (Err(a), Err(b)) => a.kind == b.kind,
            _ => false,
        };
        if !same {
            return Verdict::Fail(format!("version {} reading data of version {}: deserialize() gives {:?} where reading the same bytes through a DeserializationContext gives {:?} (steps {:?}, bytes {})", c.r, c.w, via_entry.as_ref().map(|v| v.brief()), got.as_ref().map(|v| v.brief()), versions.last().unwrap().steps, hex(&bytes)));
        }
    }
    let verdict = compare_c03(c, &versions, &tr, &bytes, &expected, &got, &rest);
    if let Verdict::Fail(_) = &verdict {
        if c.w != c.r && f17_explains(&tw, &tr, &bytes, &got).is_some() {
            if record {
                acc.exclude(F17_EXCLUDED);
                *acc.known.entry("F17".into()).or_insert(0) += 1;
                let how = match (&expected, &got) {
                    (_, Err(e)) => format!("F17 outcome: error {}", e.kind),
                    (Ok(_), Ok(_)) => "F17 outcome: a silently different value".to_string(),
                    (Err(_), Ok(_)) => "F17 outcome: a value where the documented outcome is an error".to_string(),
                };
                acc.bump(&how, 1);
                if acc.wants_sample(&how) {
                    acc.sample(&how, json!({"steps": format!("{:?}", versions.last().unwrap().steps), "writer_version": c.w, "reader_version": c.r, "placement": format!("{:?}", c.placement), "value": c.val.brief(), "bytes_hex": hex(&bytes[..bytes.len().min(96)]), "documented": format!("{:?}", expected.as_ref().map(|v| v.brief())), "got": format!("{:?}", got.as_ref().map(|v| v.brief()))}));
                }
            }
            return Verdict::Skip;
        }
    }
    verdict
}

fn compare_c03(c: &EvoCase, versions: &[Record], tr: &Ty, bytes: &[u8], expected: &Result<Val, ReadErr>, got: &Result<Val, vmodel::ErrInfo>, rest: &[u8]) -> Verdict {
    match (expected, got) {
        (Ok(e), Ok(g)) => {
            // nested declarations inside the fields have transient fields of their own
            let e = &vmodel::with_transient_defaults(tr, e);
            if canon(tr, g) != canon(tr, e) {
                return Verdict::Fail(format!("version {} read data of version {} as {} — documented outcome is {} (steps {:?}, bytes {})", c.r, c.w, g.brief(), e.brief(), versions.last().unwrap().steps, hex(bytes)));
            }
            // stored version 0 read by a definition that dropped trailing fields: at top level the dropped field's
            // bytes simply stay unread (DESIGN section 9), everywhere else the buffer must be consumed exactly
            if !rest.is_empty() && !unframed_removal(versions, c.w, c.r) {
                return Verdict::Fail(format!("version {} read data of version {} correctly but left {} bytes unread ({}): data that follows the record would be disturbed (steps {:?})", c.r, c.w, rest.len(), hex(rest), versions.last().unwrap().steps));
            }
            Verdict::Pass
        }
        (Err(e), Err(g)) => {
            let (kind, field) = match e {
                ReadErr::FieldRemovedInSerializedVersion(f) => ("FieldRemovedInSerializedVersion", f),
                ReadErr::NonOptionalFieldSerializedAsNone(f) => ("NonOptionalFieldSerializedAsNone", f),
            };
            if g.kind == kind && g.detail.contains(&format!("\"{field}\"")) {
                Verdict::Pass
            } else {
                Verdict::Fail(format!("version {} reading version {}: expected {kind}({field}), got {g:?} (steps {:?})", c.r, c.w, versions.last().unwrap().steps))
            }
        }
        (Ok(e), Err(g)) => Verdict::Fail(format!("version {} failed to read data of version {}: {g:?}; documented outcome is {} (steps {:?}, value {}, bytes {})", c.r, c.w, e.brief(), versions.last().unwrap().steps, c.val.brief(), hex(bytes))),
        (Err(e), Ok(g)) => Verdict::Fail(format!("version {} read data of version {} as {} — documented outcome is the error {e:?} (steps {:?})", c.r, c.w, g.brief(), versions.last().unwrap().steps)),
    }
}

pub fn run_c03(cx: &Cx) -> PropResult {
    let per_shard = cx.n(30_000, 1_000_000);
    let per_compiled = cx.n(6_000, 150_000);
    let acc = parallel(cx, &|shard, acc| {
        // mostly short histories (every pair is then likely to be hit), some long ones
        // E2: every history of the compiled batch, all version pairs, through the derive macro's code
        let nh = crate::props::derived::batch().histories.len();
        for h in 0..nh {
            // (versions that the macro of this tree does not compile are left out — C02 reports them — the rest of the
            // history stays in play)
            if h % cx.shards != shard || crate::props::derived::batch().histories[h].iter().filter(|d| crate::props::derived::compiled_ok(d)).count() < 1 {
                continue;
            }
            let strat = compiled_evo_strategy(h);
            if drive(crate::run::tag_seed(derive_seed(cx.seed, cx.prop, h as u64, 7), 10 + h as u64), &strat, per_compiled, acc, &|c: &EvoCase| to_json(c), &mut |c, a, r| check_c03(c, a, r)) {
                return;
            }
            acc.bump("compiled_histories", 1);
        }
        let nt = crate::props::derived::batch().tuple_histories.len();
        for t in (shard..nt).step_by(cx.shards) {
            if crate::props::derived::batch().tuple_histories[t].iter().filter(|d| crate::props::derived::compiled_ok(d)).count() < 1 {
                continue;
            }
            let strat = tuple_evo_strategy(t);
            if drive(crate::run::tag_seed(derive_seed(cx.seed, cx.prop, t as u64, 8), 1000 + t as u64), &strat, per_compiled, acc, &|c: &TupleEvoCase| to_json(&json!({"Tuple": c})), &mut |c, a, r| check_c03_tuple(c, a, r)) {
                return;
            }
            acc.bump("compiled_tuple_variant_histories", 1);
        }
        let strat = if shard % 4 == 3 { evo_case_strategy(6, 40) } else { evo_case_strategy(5, 8) };
        if drive(crate::run::tag_seed(derive_seed(cx.seed, cx.prop, shard as u64, 0), 0), &strat, per_shard, acc, &|c: &EvoCase| to_json(c), &mut |c, a, r| check_c03(c, a, r)) {
            return;
        }
        // co-evolving nested declarations
        drive(crate::run::tag_seed(derive_seed(cx.seed, cx.prop, shard as u64, 3), 3), &nested_case_strategy(), per_shard / 2, acc, &|c: &NestedCase| to_json(&json!({"Nested": c})), &mut |c, a, r| check_c03_nested(c, a, r));
    });
    let mut r = PropResult::new(
        acc,
        "exploration",
        "E3 cases = (legal evolution history H built by construction from a generated spec: 0-6 initial fields incl. transient ones, up to 8 (every 4th shard: 40) steps of FieldAdded at a random declaration position / FieldMadeOptional / FieldRemoved / FieldMadeTransient; writer version w; reader version r; value of version w; placement: top level, between two sibling fields of a tuple, element of a Vec, inside Option, body of a struct variant of an enum). Both versions are driven through AdtSerializer / AdtDeserializer exactly as the derive expansion does (E3; validated against the real expansion by C02). Oracle: expected(H, w, r, v) computed on the logical level from the documentation (default / wrap / unwrap / absent-if-optional / the two specific errors with the field name, first error in declaration order), siblings intact and the whole buffer consumed. Non-trivial = w != r; classes = reader branch x (w<r, w=r, w>r) x placement. E2 cases: the same check on all versions of the 36 histories of the compiled batch (types H{h}V{i} generated by vgen and compiled with the real derive macro), all (w, r) pairs; histories whose types contain a user-level DeduplicatedString only with w = r. Field types include nested records with histories of their own (same definition on both sides), three of them with removed-field names in their headers. Tuple variants: histories whose fields are only appended (positional names stay stable) are compiled as enums T{t}V{v} = { Nil, Rec(..) } with the history on the tuple variant, and all (w, r) pairs are read through the macro's positional-field code. Co-evolving nested declarations: the outer record and a record it contains (directly, in Option / Vec / tuple / BTreeMap values) both have generated histories; writer and reader are application versions (outer version, inner version), monotone; the oracle composes the documented outcome of both levels in field order (first error wins, with the inner field's name).",
    );
    r.assumptions = vec![
        "DESIGN section 9: embedded placement with stored version 0 and a removed chunk-0 field is outside the quantifier (counted under excluded_by_construction)".into(),
        "field types come from a fixed menu without user-level DeduplicatedString (cross-version dedup is documented as unsupported in lib.rs); nested records with removed-field names in their headers ARE in the menu: the cases they break are finding F17, recognised by an exact criterion (a back-reference the reader resolves differently from the writer, outcome equal to the reference decoder's) and counted under excluded_by_construction".into(),
    ];
    known_f17(&mut r);
    r
}

/// F17 re-exhibited on a fixed history: V1 { a: NestA, b: NestA } written, V2 (a removed) reads. NestA's header carries
/// the removed-field name "x": first occurrence inside a's bytes, which V2 never visits, back-reference inside b.
fn known_f17(r: &mut PropResult) {
    let a = |t: Ty| Arc::new(t);
    let nest_a = Ty::Adt(struct_decl("NestA", &Record { fields: vec![vmodel::Field::new("k", Ty::U8), vmodel::Field::new("y", Ty::Option(a(Ty::U16)))], steps: vec![vmodel::Step::Removed { name: "x".into() }] }));
    let dflt = Val::Rec(vec![Val::Int(0), Val::None]);
    let v1 = Record { fields: vec![vmodel::Field::new("a", nest_a.clone()), vmodel::Field::new("b", nest_a.clone())], steps: vec![vmodel::Step::Added { name: "b".into(), default: dflt.clone() }] };
    let v2 = Record { fields: vec![vmodel::Field::new("b", nest_a)], steps: vec![vmodel::Step::Added { name: "b".into(), default: dflt }, vmodel::Step::Removed { name: "a".into() }] };
    let (tw, tr) = (Ty::Adt(struct_decl("F17V1", &v1)), Ty::Adt(struct_decl("F17V2", &v2)));
    let val = Val::Rec(vec![Val::Rec(vec![Val::Int(1), Val::None]), Val::Rec(vec![Val::Int(2), Val::some(Val::Int(7))])]);
    let expected = Val::Rec(vec![Val::Rec(vec![Val::Int(2), Val::some(Val::Int(7))])]);
    let bytes = match vcat::encode(&tw, &val).0 {
        Ok(b) => b,
        Err(_) => return,
    };
    let got = vcat::decode(&tr, &bytes);
    let as_documented = matches!(&got, Ok(g) if canon(&tr, g) == canon(&tr, &expected));
    if !as_documented && f17_explains(&tw, &tr, &bytes, &got).is_some() {
        r.lines.push(format!(
            "KNOWN-FINDING: property=C03 F17 V1 {{ a: NestA, b: NestA }} (b added) written as {} and read by V2 (a removed) gives {} instead of {{ b: {{ k: 2, y: Some(7) }} }}: NestA's header names its removed field \"x\" as a deduplicated string whose first occurrence lies in the bytes of a, which V2 never visits, so the back-reference inside b has no (or another) meaning for the reader",
            hex(&bytes),
            match &got {
                Ok(g) => g.brief(),
                Err(e) => e.detail.clone(),
            }
        ));
        *r.acc.known.entry("F17".into()).or_insert(0) += 1;
    }
}

pub fn replay_c03(case: &Value) -> Verdict {
    if let Some(t) = case.get("Nested") {
        let c: NestedCase = serde_json::from_value(t.clone()).expect("replay case");
        return check_c03_nested(&c, &mut Acc::new(), false);
    }
    if let Some(t) = case.get("Tuple") {
        let c: TupleEvoCase = serde_json::from_value(t.clone()).expect("replay case");
        return check_c03_tuple(&c, &mut Acc::new(), false);
    }
    let c: EvoCase = serde_json::from_value(case.clone()).expect("replay case");
    check_c03(&c, &mut Acc::new(), false)
}

/// writer / reader types and the encoding of an evolution case (shared with C07 / C08, which add a suffix or cut the
/// encoding); None when the case is outside the quantifier
pub fn materialize_evo(c: &EvoCase) -> Option<(Ty, Ty, Vec<u8>, Result<Val, ReadErr>, usize)> {
    let versions = case_versions(c);
    if c.w >= versions.len() || c.r >= versions.len() {
        return None;
    }
    if unframed_removal(&versions, c.w, c.r) {
        return None;
    }
    let tw = wrap(c.placement, Ty::Adt(struct_decl(&case_decl_name(c, c.w), &versions[c.w])));
    let tr = wrap(c.placement, Ty::Adt(struct_decl(&case_decl_name(c, c.r), &versions[c.r])));
    let mut classes = Vec::new();
    let expected = expected_wrapped(c.placement, &versions, c.w, c.r, &c.val, &mut classes).map(|e| vmodel::with_transient_defaults(&tr, &e));
    let bytes = vcat::encode(&tw, &c.val).0.ok()?;
    if c.w != c.r && vmodel::refcodec::has_dedup_sources(&tw) && vmodel::refcodec::shadowed_string_ids(&tw, &bytes, &tr).is_some() {
        return None; // F17, reported by C03
    }
    Some((tw, tr, bytes, expected, versions[c.w].steps.len()))
}

// ---- tuple-variant histories of the compiled batch (the macro's positional-field branches across versions)

#[derive(Debug, Clone, Serialize, Deserialize)]
pub struct TupleEvoCase {
    pub t: usize,
    pub w: usize,
    pub r: usize,
    pub val: Val,
}

fn tuple_records(t: usize) -> Vec<Record> {
    crate::props::derived::batch().tuple_histories[t]
        .iter()
        .map(|d| match &d.body {
            vmodel::DeclBody::Enum { variants, .. } => variants[1].record.clone(),
            _ => unreachable!(),
        })
        .collect()
}

pub fn tuple_evo_strategy(t: usize) -> BoxedStrategy<TupleEvoCase> {
    let decls = crate::props::derived::batch().tuple_histories[t].clone();
    let n = decls.len();
    let ok: Vec<usize> = (0..n).filter(|i| crate::props::derived::compiled_ok(&decls[*i])).collect();
    let m = ok.len().max(1);
    (0..m, 0..m)
        .prop_flat_map(move |(w, r)| {
            let (w, r) = (ok.get(w).copied().unwrap_or(0), ok.get(r).copied().unwrap_or(0));
            let cfg = ValCfg { max_len: 3, long: false, ..ValCfg::default() };
            (Just(w), Just(r), val_strategy(&Ty::Adt(decls[w].clone()), cfg))
        })
        .prop_map(move |(w, r, val)| TupleEvoCase { t, w, r, val })
        .boxed()
}

pub fn check_c03_tuple(c: &TupleEvoCase, acc: &mut Acc, record: bool) -> Verdict {
    let decls = &crate::props::derived::batch().tuple_histories[c.t];
    let records = tuple_records(c.t);
    let (tw, tr) = (Ty::Adt(decls[c.w].clone()), Ty::Adt(decls[c.r].clone()));
    let (expected, classes) = match &c.val {
        Val::Variant(1, fs) => {
            let (e, cls) = expected_read(&records, c.w, c.r, &Val::Rec(fs.clone()));
            (e.map(|v| match v {
                Val::Rec(out) => Val::Variant(1, out),
                o => o,
            }), cls)
        }
        other => (Ok(other.clone()), vec![]),
    };
    let bytes = match vcat::encode(&tw, &c.val).0 {
        Ok(b) => b,
        Err(e) => return Verdict::Fail(format!("T{}V{} cannot encode {}: {e:?}", c.t, c.w, c.val.brief())),
    };
    if record {
        let rel = if c.w < c.r { "w<r" } else if c.w == c.r { "w=r" } else { "w>r" };
        let mut cl: Vec<String> = classes.iter().map(|c| format!("{c:?}")).collect();
        cl.sort();
        cl.dedup();
        let class = format!("compiled tuple variant: {} [{rel}]", if cl.is_empty() { "unit".to_string() } else { cl.join("+") });
        acc.case(&class, hash_json(c), c.w != c.r);
        if c.w != c.r && acc.wants_sample(&class) {
            acc.sample(&class, json!({"writer": vmodel::render::decl_src(&decls[c.w]), "reader": vmodel::render::decl_src(&decls[c.r]), "value": c.val.brief(), "bytes_hex": hex(&bytes[..bytes.len().min(48)])}));
        }
    }
    let (got, rest) = vcat::decode_with_rest(&tr, &bytes);
    match (expected, got) {
        (Ok(e), Ok(g)) => {
            if canon(&tr, &g) != canon(&tr, &vmodel::with_transient_defaults(&tr, &e)) {
                return Verdict::Fail(format!("T{}V{} read data of T{}V{} as {} — documented outcome is {} (steps {:?})", c.t, c.r, c.t, c.w, g.brief(), e.brief(), records.last().unwrap().steps));
            }
            if !rest.is_empty() && !unframed_removal(&records, c.w, c.r) {
                return Verdict::Fail(format!("{} bytes left unread", rest.len()));
            }
            Verdict::Pass
        }
        (Err(e), Err(g)) => {
            let (kind, field) = match &e {
                ReadErr::FieldRemovedInSerializedVersion(f) => ("FieldRemovedInSerializedVersion", f),
                ReadErr::NonOptionalFieldSerializedAsNone(f) => ("NonOptionalFieldSerializedAsNone", f),
            };
            if g.kind == kind && g.detail.contains(&format!("\"{field}\"")) {
                Verdict::Pass
            } else {
                Verdict::Fail(format!("expected {kind}({field}), got {g:?}"))
            }
        }
        (Ok(e), Err(g)) => Verdict::Fail(format!("T{}V{} failed to read data of T{}V{}: {g:?}; documented outcome is {} (steps {:?}, bytes {})", c.t, c.r, c.t, c.w, e.brief(), records.last().unwrap().steps, hex(&bytes))),
        (Err(e), Ok(g)) => Verdict::Fail(format!("T{}V{} read data of T{}V{} as {} — documented outcome is the error {e:?}", c.t, c.r, c.t, c.w, g.brief())),
    }
}

// ---- co-evolving nested declarations: the outer record and a record it contains both have histories; an application
// version is a pair (outer version, inner version), monotone along the application's life

#[derive(Debug, Clone, Serialize, Deserialize)]
pub struct NestedCase {
    pub outer: HistorySpec,
    pub inner: HistorySpec,
    /// writer = (ow, iw), reader = (or, ir); (ow - or) and (iw - ir) never have opposite signs
    pub ow: usize,
    pub or: usize,
    pub iw: usize,
    pub ir: usize,
    pub placement: Placement,
    pub val: Val,
}

fn inner_name(c_inner: &HistorySpec, j: usize) -> String {
    format!("DynI{:08x}v{j}", hash_json(c_inner) as u32)
}

fn inner_versions(spec: &HistorySpec) -> Vec<Record> {
    let a = |t: Ty| Arc::new(t);
    build_history(spec, &[Ty::U8, Ty::Str, Ty::Option(a(Ty::U32)), Ty::Vec(a(Ty::U16)), Ty::Bool, Ty::I64, Ty::Tuple(vec![Ty::U8, Ty::Str]), Ty::Char])
}

/// the outer history spelled with inner version `j`: the same spec picks the same shapes from a menu of the same
/// length, only the nested declaration (and the default expressions of its type) differ
fn outer_versions(outer: &HistorySpec, inner: &HistorySpec, iv: &[Record], j: usize) -> Vec<Record> {
    let a = |t: Ty| Arc::new(t);
    let it = Ty::Adt(struct_decl(&inner_name(inner, j), &iv[j]));
    build_history(outer, &[Ty::U8, it.clone(), Ty::Str, Ty::Option(a(it.clone())), Ty::Vec(a(it.clone())), Ty::Option(a(Ty::U32)), it.clone(), Ty::Tuple(vec![Ty::U8, it.clone(), Ty::Str]), Ty::Vec(a(Ty::U16)), Ty::BTreeMap(a(Ty::U8), a(it))])
}

pub fn nested_case_strategy() -> BoxedStrategy<NestedCase> {
    (history_spec_strategy(3, 5), history_spec_strategy(3, 4), any::<(u16, u16, u16, u16)>(), prop::sample::select(vec![Placement::Top, Placement::Top, Placement::Between, Placement::InVec, Placement::InOption, Placement::InVariant]))
        .prop_flat_map(|(outer, inner, (a, b, x, y), placement)| {
            let iv = inner_versions(&inner);
            let no = outer_versions(&outer, &inner, &iv, 0).len();
            let (ow, or) = (pick(a, no), pick(b, no));
            let (mut iw, mut ir) = (pick(x, iv.len()), pick(y, iv.len()));
            // monotone: the side with the newer outer definition does not have the older inner one
            if (ow < or && iw > ir) || (ow > or && iw < ir) {
                std::mem::swap(&mut iw, &mut ir);
            }
            let tw = wrap(placement, Ty::Adt(struct_decl("W", &outer_versions(&outer, &inner, &iv, iw)[ow])));
            let cfg = ValCfg { max_len: 3, long: false, ..ValCfg::default() };
            (Just((outer, inner, ow, or, iw, ir, placement)), val_strategy(&tw, cfg))
        })
        .prop_map(|((outer, inner, ow, or, iw, ir, placement), val)| NestedCase { outer, inner, ow, or, iw, ir, placement, val })
        .boxed()
}

/// what the reader makes of a written value whose type mentions the nested declaration
fn adapt_nested(iv: &[Record], iw: usize, ir: usize, tw: &Ty, tr: &Ty, x: &Val, classes: &mut Vec<String>, unframed: &mut bool) -> Result<Val, ReadErr> {
    match (tw, tr, x) {
        (Ty::Adt(dw), Ty::Adt(_), v) if dw.name.starts_with("DynI") => {
            if unframed_removal(iv, iw, ir) {
                *unframed = true;
            }
            let (res, cls) = expected_read(iv, iw, ir, v);
            for c in cls {
                classes.push(format!("inner {c:?}"));
            }
            res
        }
        (Ty::Option(a), Ty::Option(b), Val::Some(v)) => Ok(Val::some(adapt_nested(iv, iw, ir, a, b, v, classes, unframed)?)),
        (Ty::Vec(a), Ty::Vec(b), Val::Seq(xs)) => Ok(Val::Seq(xs.iter().map(|v| adapt_nested(iv, iw, ir, a, b, v, classes, unframed)).collect::<Result<_, _>>()?)),
        // what is written is the map, not the generated pair list: one entry per key (the last one), in key order
        (Ty::BTreeMap(_, a), Ty::BTreeMap(_, b), Val::Map(_)) => {
            let kvs = match canon(tw, x) {
                Val::Map(kvs) => kvs,
                _ => unreachable!(),
            };
            Ok(Val::Map(kvs.iter().map(|(k, v)| Ok((k.clone(), adapt_nested(iv, iw, ir, a, b, v, classes, unframed)?))).collect::<Result<_, ReadErr>>()?))
        }
        (Ty::Tuple(ta), Ty::Tuple(tb), Val::Tuple(xs)) => Ok(Val::Tuple(xs.iter().enumerate().map(|(i, v)| adapt_nested(iv, iw, ir, &ta[i], &tb[i], v, classes, unframed)).collect::<Result<_, _>>()?)),
        (_, _, v) => Ok(v.clone()),
    }
}

pub fn check_c03_nested(c: &NestedCase, acc: &mut Acc, record: bool) -> Verdict {
    let iv = inner_versions(&c.inner);
    if c.iw >= iv.len() || c.ir >= iv.len() {
        return Verdict::Skip;
    }
    let wv = outer_versions(&c.outer, &c.inner, &iv, c.iw);
    let rv = outer_versions(&c.outer, &c.inner, &iv, c.ir);
    if c.ow >= wv.len() || c.or >= rv.len() {
        return Verdict::Skip;
    }
    let embedded = c.placement != Placement::Top;
    if embedded && unframed_removal(&wv, c.ow, c.or) {
        if record {
            acc.exclude("embedded + stored version 0 + reader removed a chunk-0 field (DESIGN section 9: the format has no framing)");
        }
        return Verdict::Skip;
    }
    let tw = wrap(c.placement, Ty::Adt(struct_decl(&format!("DynO{:08x}i{}v{}", hash_json(&c.outer) as u32, c.iw, c.ow), &wv[c.ow])));
    let tr = wrap(c.placement, Ty::Adt(struct_decl(&format!("DynO{:08x}i{}v{}", hash_json(&c.outer) as u32, c.ir, c.or), &rv[c.or])));
    let mut classes: Vec<String> = Vec::new();
    let mut unframed = false;
    let mut one = |x: &Val, classes: &mut Vec<String>, unframed: &mut bool| {
        let mut inner_cls = Vec::new();
        let (res, cls) = expected_read_adapt(&wv[c.ow], &rv[c.or], rv.last().unwrap(), c.ow, c.or, x, &mut |a, b, v| adapt_nested(&iv, c.iw, c.ir, a, b, v, &mut inner_cls, unframed));
        for k in cls {
            classes.push(format!("outer {k:?}"));
        }
        classes.extend(inner_cls);
        res
    };
    let expected: Result<Val, ReadErr> = match (c.placement, &c.val) {
        (Placement::Top, x) => one(x, &mut classes, &mut unframed),
        (Placement::Between, Val::Tuple(xs)) => one(&xs[1], &mut classes, &mut unframed).map(|v| Val::Tuple(vec![xs[0].clone(), v, xs[2].clone()])),
        (Placement::InVec, Val::Seq(xs)) => xs.iter().map(|x| one(x, &mut classes, &mut unframed)).collect::<Result<Vec<_>, _>>().map(Val::Seq),
        (Placement::InOption, Val::None) => Ok(Val::None),
        (Placement::InOption, Val::Some(x)) => one(x, &mut classes, &mut unframed).map(Val::some),
        (Placement::InVariant, Val::Variant(0, _)) => Ok(c.val.clone()),
        (Placement::InVariant, Val::Variant(1, fs)) => one(&Val::Rec(fs.clone()), &mut classes, &mut unframed).map(|v| match v {
            Val::Rec(out) => Val::Variant(1, out),
            o => o,
        }),
        (p, v) => panic!("nested placement {p:?} {v:?}"),
    };
    if unframed {
        // the nested record is embedded by nature: stored version 0 read by a definition that dropped a chunk-0 field
        if record {
            acc.exclude("nested record: stored version 0 + reader removed a chunk-0 field (DESIGN section 9)");
        }
        return Verdict::Skip;
    }
    let bytes = match vcat::encode(&tw, &c.val).0 {
        Ok(b) => b,
        Err(e) => return Verdict::Fail(format!("application version (outer {}, inner {}) cannot encode its own value: {e:?}", c.ow, c.iw)),
    };
    if record {
        classes.sort();
        classes.dedup();
        let rel = |a: usize, b: usize| if a < b { "<" } else if a == b { "=" } else { ">" };
        let class = format!("nested: outer w{}r inner w{}r {:?}", rel(c.ow, c.or), rel(c.iw, c.ir), c.placement);
        let h = hash_json(c);
        acc.case(&class, h, c.iw != c.ir);
        for cl in &classes {
            acc.bump(&format!("nested branch: {cl}"), 1);
        }
        if c.iw != c.ir && acc.wants_sample(&class) {
            acc.sample(&class, json!({"writer": vmodel::render::decl_src(&struct_decl("W", &wv[c.ow])), "writer_inner": vmodel::render::decl_src(&struct_decl("I", &iv[c.iw])), "reader": vmodel::render::decl_src(&struct_decl("R", &rv[c.or])), "reader_inner": vmodel::render::decl_src(&struct_decl("I", &iv[c.ir])), "value": c.val.brief(), "bytes_hex": hex(&bytes[..bytes.len().min(64)]), "expected": format!("{:?}", expected.as_ref().map(|v| v.brief()))}));
        }
    }
    let (got, rest) = vcat::decode_with_rest(&tr, &bytes);
    let ctx = || format!("writer = (outer v{}, inner v{}), reader = (outer v{}, inner v{}), outer steps {:?}, inner steps {:?}, value {}, bytes {}", c.ow, c.iw, c.or, c.ir, rv.last().unwrap().steps, iv.last().unwrap().steps, c.val.brief(), hex(&bytes));
    let verdict = match (&expected, &got) {
        (Ok(e), Ok(g)) => {
            let e = &vmodel::with_transient_defaults(&tr, e);
            if canon(&tr, g) != canon(&tr, e) {
                Verdict::Fail(format!("read as {} — documented outcome is {} ({})", g.brief(), e.brief(), ctx()))
            } else if !rest.is_empty() && !unframed_removal(&wv, c.ow, c.or) {
                Verdict::Fail(format!("read correctly but {} bytes left unread ({})", rest.len(), ctx()))
            } else {
                Verdict::Pass
            }
        }
        (Err(e), Err(g)) => {
            let (kind, field) = match e {
                ReadErr::FieldRemovedInSerializedVersion(f) => ("FieldRemovedInSerializedVersion", f),
                ReadErr::NonOptionalFieldSerializedAsNone(f) => ("NonOptionalFieldSerializedAsNone", f),
            };
            if g.kind == kind && g.detail.contains(&format!("\"{field}\"")) {
                Verdict::Pass
            } else {
                Verdict::Fail(format!("expected {kind}({field}), got {g:?} ({})", ctx()))
            }
        }
        (Ok(e), Err(g)) => Verdict::Fail(format!("failed with {g:?}; documented outcome is {} ({})", e.brief(), ctx())),
        (Err(e), Ok(g)) => Verdict::Fail(format!("read as {} — documented outcome is the error {e:?} ({})", g.brief(), ctx())),
    };
    if let Verdict::Fail(_) = &verdict {
        if (c.ow != c.or || c.iw != c.ir) && f17_explains(&tw, &tr, &bytes, &got).is_some() {
            if record {
                acc.exclude(F17_EXCLUDED);
                *acc.known.entry("F17".into()).or_insert(0) += 1;
            }
            return Verdict::Skip;
        }
    }
    verdict
}
