//! C17: encoding never panics — unsupported values are reported as errors.
use crate::props::builtin::{tv_strategy_ext, TV};
use crate::run::{drive, guarded, parallel, tag_seed, to_json, Cx, Tier, Verdict};
use crate::PropResult;
use desert::{BinaryOutput, BinarySerializer, SerializationContext, SizeCalculator};
use serde::{Deserialize, Serialize};
use serde_json::{json, Value};
use std::sync::Arc;
use vmodel::declgen::struct_decl;
use vmodel::evidence::Acc;
use vmodel::gen::{root_class, ValCfg};
use vmodel::refcodec::{ref_encode, EncErr};
use vmodel::{derive_seed, hash_json, hex, Field, Record, Step, Ty, Val};

#[derive(Debug, Clone, Serialize, Deserialize)]
pub enum EncCase {
    /// a generated (type, value), possibly containing non-BMP chars and transient constructors
    Value(TV),
    /// serialize_iterator over an iterator claiming `hint` items (exactly, or as a range) and yielding `real`
    Iter { lo: usize, hi: Option<usize>, real: usize },
    /// a zero-sized-element container of that many elements
    Zst { len: usize, shape: u8 },
    /// evolution metadata naming a field the declaration does not have
    UnknownField { kind: u8 },
    /// a generated legal history whose metadata is then made to name a field that is never written: renamed, dropped
    /// from the declaration while its FieldAdded step stays, or marked #[transient] without the FieldMadeTransient step
    IllFormed { spec: vmodel::declgen::HistorySpec, mutation: u8, sel: u16 },
}

struct Claim {
    lo: usize,
    hi: Option<usize>,
    left: usize,
}
impl Iterator for Claim {
    type Item = u8;
    fn next(&mut self) -> Option<u8> {
        if self.left == 0 {
            None
        } else {
            self.left -= 1;
            Some(7)
        }
    }
    fn size_hint(&self) -> (usize, Option<usize>) {
        (self.lo, self.hi)
    }
}

fn model_err_matches(real: &vmodel::ErrInfo, model: &EncErr) -> bool {
    match model {
        EncErr::UnsupportedCharacter(c) => real.kind == "UnsupportedCharacter" && char::from_u32(*c).map(|ch| real.detail.contains(&format!("{ch:?}"))).unwrap_or(false),
        EncErr::SerializingTransientConstructor { type_name, constructor_name } => real.kind == "SerializingTransientConstructor" && real.detail.contains(&format!("\"{constructor_name}\"")) && real.detail.contains(&format!("\"{}\"", type_name)),
        EncErr::UnknownFieldReferenceInEvolutionStep(n) => real.kind == "UnknownFieldReferenceInEvolutionStep" && real.detail.contains(&format!("\"{n}\"")),
        EncErr::Shape(_) => false,
    }
}

pub fn check_c17(c: &EncCase, acc: &mut Acc, record: bool) -> Verdict {
    match c {
        EncCase::Value(tv) => {
            let rep = match guarded(|| vcat::encode_all_sinks(&tv.ty, &tv.val)) {
                Ok(r) => r,
                Err(p) => return Verdict::Fail(format!("encoding {} of {} panicked: {p}", tv.val.brief(), tv.ty.render())),
            };
            let model = ref_encode(&tv.ty, &rep.as_written);
            if record {
                let class = format!("{}: {}", if model.is_err() { "unsupported value" } else { "supported value (control)" }, root_class(&tv.ty));
                acc.case(&class, hash_json(&(&tv.ty, &tv.val)), model.is_err());
                if model.is_err() && acc.wants_sample(&class) {
                    acc.sample(&class, json!({"type": tv.ty.render(), "value": tv.val.brief(), "result": format!("{:?}", rep.outputs[0].1.as_ref().map(|b| hex(&b[..b.len().min(32)])))}));
                }
            }
            for (name, out) in &rep.outputs {
                match (out, &model) {
                    (Ok(b), Ok(m)) if *b == m.bytes => {}
                    (Err(e), Err(m)) if model_err_matches(e, m) => {}
                    (o, m) => return Verdict::Fail(format!("{name}: encoding {} of {} gave {:?}; expected {:?}", tv.val.brief(), tv.ty.render(), o.as_ref().map(|b| hex(b)), m.as_ref().map(|f| hex(&f.bytes)))),
                }
            }
            Verdict::Pass
        }
        EncCase::Iter { lo, hi, real } => {
            let exact = *hi == Some(*lo);
            let r = guarded(|| {
                let mut it = Claim { lo: *lo, hi: *hi, left: *real };
                let mut ctx = SerializationContext::new(SizeCalculator::new());
                desert::serialize_iterator(&mut it, &mut ctx).map(|_| ctx.into_output().size()).map_err(|e| vcat::errinfo(&e))
            });
            if record {
                let class = if exact && *lo > i32::MAX as usize { "iterator: exact hint beyond i32::MAX" } else if exact { "iterator: exact (possibly lying) hint" } else { "iterator: inexact hint" };
                acc.case(class, hash_json(c), exact && *lo > i32::MAX as usize);
                if acc.wants_sample(class) {
                    acc.sample(class, json!({"size_hint": format!("({lo}, {hi:?})"), "items_yielded": real, "result": format!("{r:?}")}));
                }
            }
            match r {
                Err(p) => Verdict::Fail(format!("serialize_iterator panicked for size hint ({lo}, {hi:?}) yielding {real}: {p}")),
                Ok(Err(e)) if exact && *lo > i32::MAX as usize && e.kind == "LengthTooLarge" => Verdict::Pass,
                Ok(Err(e)) => Verdict::Fail(format!("serialize_iterator failed with {e:?} for size hint ({lo}, {hi:?})")),
                Ok(Ok(_)) if exact && *lo > i32::MAX as usize => Verdict::Fail(format!("a length of {lo} does not fit the format's 31-bit count but was accepted")),
                Ok(Ok(n)) => {
                    // known-length form: count varint + items as yielded; unknown-length form: -1, flagged items, terminator
                    let want = if exact { vmodel::refcodec::var_i32_bytes(*lo as i32).len() + real } else { 1 + 2 * real + 1 };
                    if n == want {
                        Verdict::Pass
                    } else {
                        Verdict::Fail(format!("serialize_iterator wrote {n} bytes for hint ({lo}, {hi:?}) yielding {real}; the format prescribes {want}"))
                    }
                }
            }
        }
        EncCase::Zst { len, shape } => {
            let r = guarded(|| {
                let v: Vec<()> = vec![(); *len];
                let e = |r: desert::Result<SizeCalculator>| r.map(|s| s.size()).map_err(|e| vcat::errinfo(&e));
                match shape % 3 {
                    0 => e(desert::serialize(&v, SizeCalculator::new())),
                    1 => e(desert::serialize(&v.as_slice(), SizeCalculator::new())),
                    _ => e(desert::serialize(&std::rc::Rc::<[()]>::from(v), SizeCalculator::new())),
                }
            });
            // the same length as a fixed-size array type (zero-sized, so it costs nothing to build)
            let arr = guarded(|| {
                let e = |r: desert::Result<SizeCalculator>| r.map(|s| s.size()).map_err(|e| vcat::errinfo(&e).kind);
                match *len {
                    2147483648 => Some(e(desert::serialize(&[(); 2147483648], SizeCalculator::new()))),
                    3000000000 => Some(e(desert::serialize(&[(); 3000000000], SizeCalculator::new()))),
                    4294967296 => Some(e(desert::serialize(&[(); 4294967296], SizeCalculator::new()))),
                    _ => None,
                }
            });
            match &arr {
                Ok(None) => {}
                Ok(Some(Err(k))) if k == "LengthTooLarge" => {}
                other => return Verdict::Fail(format!("serializing [(); {len}] gave {other:?}; expected Err(LengthTooLarge)")),
            }
            let too_large = *len > i32::MAX as usize;
            if record {
                let class = format!("zero-sized elements x {}", if too_large { "> i32::MAX" } else { "<= i32::MAX" });
                acc.case(&class, hash_json(c), too_large);
                if acc.wants_sample(&class) {
                    acc.sample(&class, json!({"len": len, "shape": (["Vec<()>", "&[()]", "Rc<[()]>"][*shape as usize % 3]), "result": format!("{r:?}")}));
                }
            }
            match r {
                Err(p) => Verdict::Fail(format!("serializing {len} unit values panicked: {p}")),
                Ok(Err(e)) if too_large && e.kind == "LengthTooLarge" => Verdict::Pass,
                Ok(Ok(n)) if !too_large && n == vmodel::refcodec::var_i32_bytes(*len as i32).len() => Verdict::Pass,
                other => Verdict::Fail(format!("serializing {len} unit values gave {other:?}")),
            }
        }
        EncCase::IllFormed { spec, mutation, sel } => {
            let versions = vmodel::declgen::build_history(spec, &vmodel::declgen::dynamic_menu(false));
            let mut r = versions.last().unwrap().clone();
            let serialized: Vec<String> = r.fields.iter().filter(|f| f.transient.is_none()).map(|f| f.name.clone()).collect();
            let added: Vec<String> = r.steps.iter().filter_map(|s| match s { Step::Added { name, .. } if serialized.contains(name) => Some(name.clone()), _ => None }).collect();
            let what = match mutation % 4 {
                0 => {
                    match r.steps.iter_mut().find(|s| matches!(s, Step::MadeOptional { .. })) {
                        Some(Step::MadeOptional { name }) => *name = "nope".into(),
                        _ => r.steps.push(Step::MadeOptional { name: "nope".into() }),
                    }
                    "a FieldMadeOptional step renamed to a name no step or field knows"
                }
                1 if !added.is_empty() => {
                    let name = added[vmodel::gen::pick(*sel, added.len())].clone();
                    r.fields.retain(|f| f.name != name);
                    r.steps.push(Step::MadeOptional { name });
                    "a field with a FieldAdded step dropped from the declaration, then FieldMadeOptional on it"
                }
                2 if !serialized.is_empty() => {
                    let name = serialized[vmodel::gen::pick(*sel, serialized.len())].clone();
                    for f in r.fields.iter_mut() {
                        if f.name == name {
                            f.transient = Some(vmodel::declgen::sample_val(&f.ty, ValCfg { max_len: 2, long: false, ..ValCfg::default() }, *sel as u64));
                        }
                    }
                    r.steps.push(Step::MadeOptional { name });
                    "a field marked transient without FieldMadeTransient, then FieldMadeOptional on it"
                }
                _ => {
                    r.steps.push(Step::MadeOptional { name: String::new() });
                    "FieldMadeOptional on the empty name"
                }
            };
            // a name that is added, removed and added again (the metadata meets the same name twice): whatever the
            // outcome, it is a value or an error
            if mutation % 8 >= 4 && !added.is_empty() && r.steps.len() < 250 {
                let name = added[vmodel::gen::pick(sel.wrapping_mul(31), added.len())].clone();
                if let Some(f) = r.fields.iter().find(|f| f.name == name) {
                    let dflt = vmodel::declgen::sample_val(&f.ty, ValCfg { max_len: 2, long: false, ..ValCfg::default() }, 5);
                    let mut re = r.clone();
                    re.steps.push(Step::Removed { name: name.clone() });
                    re.steps.push(Step::Added { name, default: dflt });
                    let ty = Ty::Adt(struct_decl(&format!("DynRe{:08x}", hash_json(c) as u32), &re));
                    let val = vmodel::declgen::sample_val(&ty, ValCfg { max_len: 2, long: false, ..ValCfg::default() }, *sel as u64);
                    if record {
                        acc.bump("declarations_with_a_re_added_name", 1);
                    }
                    if let Err(p) = guarded(|| vcat::encode(&ty, &val).0.map(|b| b.len())) {
                        return Verdict::Fail(format!("encoding a record whose history adds, removes and adds again one name panicked: {p} (steps {:?})", re.steps));
                    }
                }
            }
            if r.steps.len() > 254 {
                return Verdict::Skip;
            }
            let ty = Ty::Adt(struct_decl(&format!("DynIll{:08x}", hash_json(c) as u32), &r));
            let val = vmodel::declgen::sample_val(&ty, ValCfg { max_len: 2, long: false, ..ValCfg::default() }, *sel as u64 ^ 0x5a5a);
            let res = guarded(|| vcat::encode(&ty, &val));
            let model = ref_encode(&ty, &val);
            if record {
                let class = format!("ill-formed metadata: {what}");
                acc.case(&class, hash_json(c), model.is_err());
                if acc.wants_sample(&class) {
                    acc.sample(&class, json!({"steps": format!("{:?}", r.steps), "fields": r.fields.iter().map(|f| f.name.clone()).collect::<Vec<_>>(), "result": format!("{:?}", res.as_ref().map(|x| x.0.as_ref().map(|b| hex(&b[..b.len().min(24)]))))}));
                }
            }
            match (res, &model) {
                (Err(p), _) => Verdict::Fail(format!("encoding a record with {what} panicked: {p} (steps {:?})", r.steps)),
                (Ok((Ok(b), _)), Ok(m)) if b == m.bytes => Verdict::Pass,
                (Ok((Err(e), _)), Err(m)) if model_err_matches(&e, m) => Verdict::Pass,
                (Ok((o, _)), m) => Verdict::Fail(format!("a record with {what}: encoding gave {:?}, expected {:?} (steps {:?}, fields {:?})", o.as_ref().map(|b| hex(b)), m.as_ref().map(|f| hex(&f.bytes)), r.steps, r.fields.iter().map(|f| &f.name).collect::<Vec<_>>())),
            }
        }
        EncCase::UnknownField { kind } => {
            let step = match kind % 3 {
                0 => Step::MadeOptional { name: "nope".into() },
                1 => Step::MadeOptional { name: "".into() },
                _ => Step::MadeOptional { name: "x2".into() },
            };
            let d = struct_decl("DynUnknownRef", &Record { fields: vec![Field::new("x", Ty::U8)], steps: vec![Step::Added { name: "x".into(), default: Val::Int(0) }, step.clone()] });
            let ty = Ty::Adt(d);
            let r = guarded(|| vcat::encode(&ty, &Val::Rec(vec![Val::Int(5)])).0);
            if record {
                acc.case("evolution metadata names an unknown field", hash_json(c), true);
                if acc.wants_sample("evolution metadata names an unknown field") {
                    acc.sample("evolution metadata names an unknown field", json!({"step": format!("{step:?}"), "result": format!("{r:?}")}));
                }
            }
            match r {
                Err(p) => Verdict::Fail(format!("encoding a record whose metadata names an unknown field panicked: {p}")),
                Ok(Err(e)) if e.kind == "UnknownFieldReferenceInEvolutionStep" && e.detail.contains(&format!("{:?}", step.name())) => Verdict::Pass,
                other => Verdict::Fail(format!("expected UnknownFieldReferenceInEvolutionStep({:?}), got {other:?}", step.name())),
            }
        }
    }
}

fn char_sweep(cx: &Cx, shard: usize, acc: &mut Acc) -> bool {
    // every Unicode scalar value (exhaustive): <= U+FFFF encodes as its code unit, above is UnsupportedCharacter(c)
    let mut nontrivial = 0u64;
    let mut n = 0u64;
    for cp in (shard as u32..0x110000).step_by(cx.shards) {
        let ch = match char::from_u32(cp) {
            Some(c) => c,
            None => continue,
        };
        n += 1;
        let r = guarded(|| desert::serialize_to_byte_vec(&ch).map_err(|e| vcat::errinfo(&e)));
        let ok = match (&r, cp <= 0xFFFF) {
            (Ok(Ok(b)), true) => b[..] == (cp as u16).to_be_bytes()[..],
            (Ok(Err(e)), false) => {
                nontrivial += 1;
                e.kind == "UnsupportedCharacter" && e.detail == format!("UnsupportedCharacter({ch:?})")
            }
            _ => false,
        };
        if !ok {
            acc.violation(format!("char U+{cp:04X}: serialize gave {r:?}"), to_json(&EncCase::Value(TV { ty: Ty::Char, val: Val::Char(cp), forms: vec![] })));
            return true;
        }
    }
    acc.evaluations += n;
    *acc.classes.entry("char sweep (every Unicode scalar value)".into()).or_insert(0) += n;
    acc.nontrivial_enumerated += nontrivial;
    false
}

fn known_f14(r: &mut PropResult) {
    // F14: DateTime<FixedOffset> whose *local* time lies outside chrono's range panics inside naive_local()
    use chrono::TimeZone;
    let res = guarded(|| {
        let dt = chrono::FixedOffset::east_opt(3600).unwrap().from_utc_datetime(&chrono::NaiveDateTime::MAX);
        desert::serialize_to_byte_vec(&dt).map(|b| b.len()).map_err(|e| vcat::errinfo(&e).kind)
    });
    if let Err(p) = res {
        r.lines.push(format!("KNOWN-FINDING: property=C17 F14 encoding FixedOffset::east(3600).from_utc_datetime(&NaiveDateTime::MAX) panics ({p}): a DateTime<FixedOffset> whose local time is not representable is not reported through the error type"));
        *r.acc.known.entry("F14".into()).or_insert(0) += 1;
    }
}

/// F19: field positions that do not fit the header's position byte. (a) a record of 130 chunk-0 fields whose 129th
/// (position 128) was made optional: `FieldPosition::to_byte` negates 128 as i8; (b) a record that writes 257 fields
/// into one chunk while buffering: `record_field_index` increments a u8 past 255. Both unwind where overflow checks
/// are on (and write a wrong position where they are off). Generated declarations stay below 100 fields.
fn known_f19(r: &mut PropResult) {
    let wide = |n: usize, steps: Vec<Step>, opt_at: Option<usize>| {
        let fields: Vec<Field> = (0..n).map(|i| Field::new(&format!("f{i}"), if Some(i) == opt_at { Ty::Option(Arc::new(Ty::U8)) } else { Ty::U8 })).collect();
        let val = Val::Rec((0..n).map(|i| if Some(i) == opt_at { Val::some(Val::Int(1)) } else { Val::Int(i as i128 % 200) }).collect());
        (Ty::Adt(struct_decl(&format!("DynWide{n}"), &Record { fields, steps })), val)
    };
    // (position 129 and beyond do not unwind on this tree — they are written wrongly, which is F19 too — and must not start to)
    let (tc, vc) = wide(140, vec![Step::MadeOptional { name: "f129".into() }, Step::MadeOptional { name: "f139".into() }], Some(129));
    let vc = match vc {
        Val::Rec(mut fs) => {
            fs[139] = Val::some(Val::Int(3));
            Val::Rec(fs)
        }
        v => v,
    };
    let tc = match &tc {
        Ty::Adt(d) => match &d.body {
            vmodel::DeclBody::Struct(r) => {
                let mut r = r.clone();
                r.fields[139].ty = Ty::Option(Arc::new(Ty::U8));
                Ty::Adt(struct_decl("DynWide140", &r))
            }
            _ => tc.clone(),
        },
        _ => tc.clone(),
    };
    if let Err(p) = guarded(|| vcat::encode(&tc, &vc).0.map(|b| b.len())) {
        r.acc.violation(format!("encoding a record of 140 fields whose 130th and 140th chunk-0 fields were made optional panicked: {p}"), json!({"special": "wide record, positions 129 and 139"}));
    }
    let (ta, va) = wide(130, vec![Step::MadeOptional { name: "f128".into() }], Some(128));
    let a = guarded(|| vcat::encode(&ta, &va).0.map(|b| b.len()));
    let mut fb: Vec<Field> = (0..257).map(|i| Field::new(&format!("f{i}"), Ty::U8)).collect();
    fb.push(Field::new("late", Ty::U8));
    let tb = Ty::Adt(struct_decl("DynWide257", &Record { fields: fb, steps: vec![Step::Added { name: "late".into(), default: Val::Int(0) }] }));
    let vb = Val::Rec((0..258).map(|i| Val::Int(i as i128 % 200)).collect());
    let b = guarded(|| vcat::encode(&tb, &vb).0.map(|x| x.len()));
    if let (Err(pa), Err(pb)) = (&a, &b) {
        r.lines.push(format!("KNOWN-FINDING: property=C17 F19 encoding a record whose 129th chunk-0 field was made optional panics ({}), and so does a record that writes 257 fields into one chunk of an evolved record ({}): field positions beyond what the header's position byte can hold are not reported through the error type", pa.split('@').next().unwrap_or(pa).trim(), pb.split('@').next().unwrap_or(pb).trim()));
        *r.acc.known.entry("F19".into()).or_insert(0) += 1;
    } else if a.is_err() || b.is_err() {
        r.lines.push(format!("KNOWN-FINDING: property=C17 F19 field positions beyond the position byte: 129th field made optional -> {a:?}; 257 fields in one chunk -> {b:?}"));
        *r.acc.known.entry("F19".into()).or_insert(0) += 1;
    }
}

fn case_strategy() -> proptest::strategy::BoxedStrategy<EncCase> {
    use proptest::prelude::*;
    let cfg = ValCfg { non_bmp: true, transient_ctors: true, max_len: 5, long: false, ..ValCfg::default() };
    let big = prop_oneof![Just(i32::MAX as usize), Just(i32::MAX as usize + 1), Just(u32::MAX as usize), Just(u32::MAX as usize + 1), Just(usize::MAX), (i32::MAX as usize..usize::MAX), 0usize..40];
    prop_oneof![
        10 => tv_strategy_ext(3, cfg, true).prop_map(EncCase::Value),
        2 => (big.clone(), 0usize..6).prop_map(|(h, real)| EncCase::Iter { lo: h, hi: Some(h), real: if h < 40 { h } else { real } }),
        1 => (0usize..20, 0usize..20, 0usize..6).prop_map(|(a, b, real)| EncCase::Iter { lo: a.min(b), hi: if a == b { None } else { Some(a.max(b)) }, real }),
        // (a count of exactly i32::MAX is legal and would be iterated 2^31 times: the boundary itself is covered by Iter)
        1 => (prop_oneof![0usize..100, Just(100_000usize), Just(i32::MAX as usize + 1), Just(3_000_000_000usize), Just(4_294_967_296usize), Just(usize::MAX)], 0u8..3).prop_map(|(len, shape)| EncCase::Zst { len, shape }),
        1 => (0u8..3).prop_map(|kind| EncCase::UnknownField { kind }),
        2 => (vmodel::declgen::history_spec_strategy(4, 6), any::<u8>(), any::<u16>()).prop_map(|(spec, mutation, sel)| EncCase::IllFormed { spec, mutation, sel }),
    ]
    .boxed()
}

pub fn run_c17(cx: &Cx) -> PropResult {
    let per_shard = cx.n(40_000, 1_000_000);
    let acc = parallel(cx, &|shard, acc| {
        if char_sweep(cx, shard, acc) {
            return;
        }
        let strat = case_strategy();
        drive(tag_seed(derive_seed(cx.seed, cx.prop, shard as u64, 0), 0), &strat, per_shard, acc, &|c: &EncCase| to_json(c), &mut |c, a, r| check_c17(c, a, r));
        if shard == 1 % cx.shards {
            // a text of exactly 2^31 bytes (the first length that does not fit the format's 31-bit count) and one byte
            // less, as &str over untouched zeroed memory, counted by the size calculator: nothing is copied
            acc.case("text of 2^31 and of 2^31 - 1 bytes (&str over zeroed memory)", 7, true);
            if let Err(e) = text_at_the_limit() {
                acc.violation(e, json!({"special": "str 2^31"}));
            }
        }
        if shard == 0 && cx.tier == Tier::Thorough {
            // lengths beyond the format on real buffers: the conversion fails before a byte is touched
            let r = guarded(|| {
                let v = vec![0u8; 1usize << 32];
                let a = desert::serialize(&v, SizeCalculator::new()).map(|s| s.size()).map_err(|e| vcat::errinfo(&e).kind);
                let b = desert::serialize(&bytes::Bytes::from(v), SizeCalculator::new()).map(|s| s.size()).map_err(|e| vcat::errinfo(&e).kind);
                (a, b)
            });
            acc.case("byte buffers of 2^32 bytes", 1, true);
            match r {
                Ok((Err(a), Err(b))) if a == "LengthTooLarge" && b == "LengthTooLarge" => {}
                other => acc.violation(format!("a byte buffer of 2^32 bytes: {other:?}"), json!({"special": "bytes 2^32"})),
            }
            let r = guarded(|| {
                let s = "a".repeat(1usize << 31);
                let mut ctx = SerializationContext::new(SizeCalculator::new());
                BinarySerializer::serialize(&s, &mut ctx).map(|_| ctx.into_output().size()).map_err(|e| vcat::errinfo(&e).kind)
            });
            acc.case("string of 2^31 bytes", 2, true);
            match r {
                Ok(Err(a)) if a == "LengthTooLarge" => {}
                other => acc.violation(format!("a string of 2^31 bytes: {other:?}"), json!({"special": "string 2^31"})),
            }
            // a chunk of 2^31 bytes: of a record, and of an enum that has evolution steps of its own (whose chunk 0 is
            // filled by write_constructor); bytes are counted, not kept, but the chunk buffer is real: about 5 GiB
            for enum_level in [false, true] {
                let r = guarded(|| {
                    use desert::adt::{AdtMetadata, AdtSerializer};
                    use desert::Evolution;
                    let payload = vec![7u16; 1usize << 30];
                    let top = AdtMetadata::new(vec![Evolution::InitialVersion, Evolution::FieldRemoved { name: "legacy".into() }]);
                    let v0 = AdtMetadata::new(vec![Evolution::InitialVersion]);
                    let mut ctx = SerializationContext::new(SizeCalculator::new());
                    let res = if enum_level {
                        let mut ser = AdtSerializer::new(&top, &mut ctx);
                        ser.write_constructor(0, |c| {
                            let mut inner = AdtSerializer::new_v0(&v0, c);
                            inner.write_field("p", &payload)?;
                            inner.finish()
                        })
                        .and_then(|_| ser.finish())
                    } else {
                        let mut ser = AdtSerializer::new(&top, &mut ctx);
                        ser.write_field("p", &payload).and_then(|_| ser.finish())
                    };
                    res.map(|_| ctx.into_output().size()).map_err(|e| vcat::errinfo(&e).kind)
                });
                acc.case(if enum_level { "chunk of 2^31 bytes in an enum with evolution steps of its own" } else { "chunk of 2^31 bytes in a record" }, 3 + enum_level as u64, true);
                match r {
                    Ok(Err(a)) if a == "LengthTooLarge" => {}
                    other => acc.violation(format!("a chunk of 2^31 bytes ({}): {other:?} — expected Err(LengthTooLarge)", if enum_level { "enum with evolution steps of its own" } else { "record" }), json!({"special": "chunk 2^31"})),
                }
            }
        }
    });
    let mut r = PropResult::new(
        acc,
        "exploration",
        "(1) exhaustive: every Unicode scalar value as a char (1 112 064 values): code unit bytes up to U+FFFF, Err(UnsupportedCharacter(c)) above; (2) generated (type, value) cases over the built-in vocabulary and derived declarations with non-BMP chars and transient constructors allowed at any depth, through six sinks and the size calculator: Ok(bytes == reference) or the documented error, identical on every sink, no unwind; (3) serialize_iterator over iterators with exact size hints of i32::MAX, i32::MAX+1, u32::MAX, usize::MAX and random values beyond (expected LengthTooLarge), lying exact hints and inexact hints (byte count per the format); (4) Vec<()>, &[()] and Rc<[()]> of up to 3*10^9 elements; (5) declarations whose evolution metadata names unknown fields (expected UnknownFieldReferenceInEvolutionStep(name)); thorough adds a 2^32-byte Vec<u8> / Bytes and a 2^31-byte String. The 254-step declaration is part of C02's compiled batch. Quick tier too: a &str of exactly 2^31 bytes (Err(LengthTooLarge)) and of 2^31 - 1 bytes (Ok) over untouched zeroed memory, counted by the size calculator. Non-trivial = the value is unsupported (an error is the expected result); supported values are the control.",
    );
    r.assumptions = vec!["known finding F14 (DateTime<FixedOffset> with unrepresentable local time) is excluded by construction: the value generators only build datetimes whose local time is representable".into()];
    known_f14(&mut r);
    known_f19(&mut r);
    r
}

fn text_at_the_limit() -> Result<(), String> {
    let r = guarded(|| {
        let v = vec![0u8; 1usize << 31];
        let s = std::str::from_utf8(&v).expect("zero bytes are text");
        let size = |t: &str| {
            let mut ctx = SerializationContext::new(SizeCalculator::new());
            BinarySerializer::serialize(&t, &mut ctx).map(|_| ctx.into_output().size()).map_err(|e| vcat::errinfo(&e).kind)
        };
        (size(s), size(&s[..(1usize << 31) - 1]))
    });
    match r {
        Ok((Err(a), Ok(n))) if a == "LengthTooLarge" && n == (1usize << 31) - 1 + 5 => Ok(()),
        other => Err(format!("a &str of 2^31 bytes / of 2^31 - 1 bytes gives {other:?} — expected Err(LengthTooLarge) / Ok(2^31 - 1 + 5 bytes)")),
    }
}

pub fn replay_c17(case: &Value) -> Verdict {
    if case.get("special").and_then(|s| s.as_str()) == Some("str 2^31") {
        return match text_at_the_limit() {
            Ok(()) => Verdict::Pass,
            Err(e) => Verdict::Fail(e),
        };
    }
    let c: EncCase = serde_json::from_value(case.clone()).expect("replay case");
    check_c17(&c, &mut Acc::new(), false)
}
