//! C09: string deduplication (E5 write/read streams + typed placements).
use crate::run::{drive, guarded, parallel, regen as regen_case, tag_seed, to_json, Cx, Verdict};
use crate::PropResult;
use proptest::prelude::*;
use proptest::strategy::BoxedStrategy;
use serde::{Deserialize, Serialize};
use serde_json::{json, Value};
use std::sync::Arc;
use vmodel::declgen::struct_decl;
use vmodel::evidence::Acc;
use vmodel::gen::{val_strategy, ValCfg, SMALL_ALPHABET};
use vmodel::refcodec::{ref_encode_many, var_i32_bytes, SiteKind};
use vmodel::{canon, derive_seed, hash_json, hex, Field, Record, Step, Ty, Val};

#[derive(Debug, Clone, Serialize, Deserialize)]
pub struct DedupCase {
    /// values written back to back into one stream
    pub items: Vec<(Ty, Val)>,
    pub placement: String,
    /// which back-reference to corrupt (fault part), and how
    pub fault_sel: u16,
    pub fault_kind: u8,
}

fn a(t: Ty) -> Arc<Ty> {
    Arc::new(t)
}

/// declarations that carry deduplicated strings, with 0, 1 and 2 removed/transient names in the header
pub fn templates() -> Vec<(&'static str, Ty)> {
    use Ty::*;
    let f = |n: &str, t: Ty| Field::new(n, t);
    let d0 = Adt(struct_decl("DynD0", &Record { fields: vec![f("x", Dedup), f("p", Str), f("y", Dedup)], steps: vec![] }));
    let d1 = Adt(struct_decl("DynD1", &Record { fields: vec![f("x", Dedup), f("y", Dedup)], steps: vec![Step::Removed { name: "gone".into() }] }));
    let d2 = Adt(struct_decl(
        "DynD2",
        &Record {
            fields: vec![f("x", Dedup), f("inner", d1.clone()), Field { name: "t".into(), ty: Dedup, transient: Some(Val::str("a")), opt_spelling: 0 }, f("z", Vec(a(Dedup)))],
            steps: vec![Step::Added { name: "z".into(), default: Val::Seq(vec![]) }, Step::Removed { name: "gone".into() }, Step::MadeTransient { name: "t".into() }],
        },
    ));
    let d3 = Adt(struct_decl(
        "DynD3",
        &Record { fields: vec![f("o", Option(a(Dedup))), f("m", BTreeMap(a(U8), a(Dedup)))], steps: vec![Step::MadeOptional { name: "o".into() }, Step::Removed { name: "a".into() }] },
    ));
    vec![
        ("Vec<DS>", Vec(a(Dedup))),
        ("tuple of DS and String", Tuple(vec![Dedup, Str, Dedup, Dedup])),
        ("v0 record", d0.clone()),
        ("evolved record, 1 removed name", d1.clone()),
        ("evolved record, 2 removed names + nested + Vec<DS>", d2.clone()),
        ("Vec of evolved records (header names become back-references)", Vec(a(d1.clone()))),
        ("Vec of nested evolved records", Vec(a(d2.clone()))),
        ("tuple of records", Tuple(vec![d1, d0, d3.clone()])),
        ("record with Option<DS> and map of DS", d3),
        ("Option / Result / LinkedList of DS", Tuple(vec![Option(a(Dedup)), Result(a(Dedup), a(Str)), LinkedList(a(Dedup))])),
    ]
}

fn cfg() -> ValCfg {
    ValCfg { small_alphabet: true, max_len: 5, long: false, ..ValCfg::default() }
}

pub fn dedup_case_strategy() -> BoxedStrategy<DedupCase> {
    // (i) flat write sequences over the alphabet
    // (plus time zones, which carry their name as a plain string, and deduplicated strings that spell a zone name)
    const ZONES: [&str; 3] = ["UTC", "Europe/Budapest", "Asia/Tokyo"];
    let flat = proptest::collection::vec((0u8..20, 0usize..SMALL_ALPHABET.len()), 0..40)
        .prop_map(|ops| {
            ops.into_iter()
                .map(|(k, i)| match k {
                    0..=12 => (Ty::Dedup, Val::str(SMALL_ALPHABET[i])),
                    13..=15 => (Ty::Str, Val::str(SMALL_ALPHABET[i])),
                    16 | 17 => (Ty::Tz, Val::Tz(ZONES[i % 3].to_string())),
                    18 => (Ty::Dedup, Val::str(ZONES[i % 3])),
                    _ => (Ty::Str, Val::str(ZONES[i % 3])),
                })
                .collect::<Vec<_>>()
        })
        .prop_map(|items| ("flat stream".to_string(), items));
    // (ii)-(iv) typed placements, 1-3 values back to back
    let ts = templates();
    let typed = (proptest::collection::vec(0..ts.len(), 1..=3))
        .prop_flat_map(move |idx| {
            let label = if idx.len() == 1 { ts[idx[0]].0.to_string() } else { format!("{} (+{} more values in the same stream)", ts[idx[0]].0, idx.len() - 1) };
            let strategies: Vec<BoxedStrategy<(Ty, Val)>> = idx
                .iter()
                .map(|i| {
                    let ty = ts[*i].1.clone();
                    val_strategy(&ty, cfg()).prop_map(move |v| (ty.clone(), v)).boxed()
                })
                .collect();
            (Just(label), strategies)
        });
    // run-time generated declarations with DS in the menu
    let random = vmodel::declgen::adt_ty_strategy(true).prop_flat_map(|ty| {
        let t2 = ty.clone();
        (Just("generated declaration".to_string()), proptest::collection::vec(val_strategy(&ty, cfg()).prop_map(move |v| (t2.clone(), v)), 1..=2))
    });
    (prop_oneof![3 => flat, 5 => typed, 2 => random], any::<u16>(), any::<u8>()).prop_map(|((placement, items), fault_sel, fault_kind)| DedupCase { items, placement, fault_sel, fault_kind }).boxed()
}

/// deduplicated strings before, inside and after a sequence written through `serialize_iterator` from an iterator that
/// does not know its length exactly (what a filter adaptor reports): one table for the whole stream
#[derive(Debug, Clone, Serialize, Deserialize)]
pub struct IterDedupCase {
    pub before: Vec<usize>,
    pub inner: Vec<usize>,
    pub after: Vec<usize>,
    /// 0: exact hint, 1: (0, None), 2: (0, Some(n)), 3: (n/2, Some(n + 3))
    pub hint: u8,
}

pub fn check_c09_iter(c: &IterDedupCase, acc: &mut Acc, record: bool) -> Verdict {
    let pick = |ix: &Vec<usize>| -> Vec<String> { ix.iter().map(|i| SMALL_ALPHABET[*i % SMALL_ALPHABET.len()].to_string()).collect() };
    let (before, inner, after) = (pick(&c.before), pick(&c.inner), pick(&c.after));
    let n = inner.len();
    let (lo, hi) = match c.hint % 4 {
        0 => (n, Some(n)),
        1 => (0, None),
        2 => (0, Some(n)),
        _ => (n / 2, Some(n + 3)),
    };
    let exact = lo == n && hi == Some(n);
    if record {
        let repeats = before.iter().chain(&inner).chain(&after).enumerate().any(|(i, s)| before.iter().chain(&inner).chain(&after).take(i).any(|t| t == s));
        acc.case(if exact { "around a sequence written from an iterator (exact hint)" } else { "around a sequence written from an iterator that hides its length" }, hash_json(c), repeats && !inner.is_empty());
    }
    // the model: one table, ids in first-occurrence order; the sequence in the known-length form for an exact hint,
    // else -1, (1, element)*, 0
    let mut table: Vec<&str> = Vec::new();
    let mut want = Vec::new();
    let mut ds = |s: &'_ str, out: &mut Vec<u8>, table: &mut Vec<&str>| match table.iter().position(|t| *t == s) {
        Some(k) => vmodel::refcodec::var_i32(-(k as i32 + 1), out),
        None => {
            vmodel::refcodec::var_i32(s.len() as i32, out);
            out.extend_from_slice(s.as_bytes());
        }
    };
    let all: Vec<&String> = before.iter().chain(&inner).chain(&after).collect();
    for (i, s) in all.iter().enumerate() {
        if i == before.len() {
            vmodel::refcodec::var_i32(if exact { n as i32 } else { -1 }, &mut want);
        }
        if i == before.len() + n && !exact {
            want.push(0);
        }
        if !exact && i >= before.len() && i < before.len() + n {
            want.push(1);
        }
        ds(s, &mut want, &mut table);
        if !table.contains(&s.as_str()) {
            table.push(s.as_str());
        }
    }
    if all.len() == before.len() {
        vmodel::refcodec::var_i32(if exact { n as i32 } else { -1 }, &mut want);
    }
    if all.len() == before.len() + n && !exact {
        want.push(0);
    }
    match crate::run::guarded(|| vcat::dedup_around_iterator(&before, &inner, &after, lo, hi)) {
        Ok(Ok((bytes, back))) => {
            if bytes != want {
                return Verdict::Fail(format!("deduplicated strings {before:?}, then {inner:?} through serialize_iterator (size hint ({lo}, {hi:?})), then {after:?} encode as {}; one table for the whole stream gives {}", hex(&bytes), hex(&want)));
            }
            match back {
                Ok((b, m, a)) if b == before && m == inner && a == after => Verdict::Pass,
                other => Verdict::Fail(format!("deduplicated strings {before:?} / {inner:?} (iterator) / {after:?} read back as {other:?} (bytes {})", hex(&bytes))),
            }
        }
        Ok(Err(e)) => Verdict::Fail(format!("encoding failed: {e:?}")),
        Err(p) => Verdict::Fail(format!("panic: {p}")),
    }
}

fn big_table_strategy() -> BoxedStrategy<DedupCase> {
    let many = (prop_oneof![4 => 60usize..70, 1 => 8188usize..8198], proptest::collection::vec(0u8..5, 1..12), any::<bool>()).prop_map(|(n, tail, wrap)| {
        let mut strings: Vec<String> = (0..n.saturating_sub(2)).map(|i| format!("s{i}")).collect();
        strings.push(String::new());
        strings.push("x".into());
        for t in tail {
            strings.push(match t {
                0 => String::new(),
                1 => "x".into(),
                2 => "s0".into(),
                3 => format!("s{}", n / 2),
                _ => format!("s{}", n.saturating_sub(3)),
            });
        }
        let items: Vec<(Ty, Val)> = if wrap { vec![(Ty::Vec(a(Ty::Dedup)), Val::Seq(strings.iter().map(|s| Val::str(s)).collect()))] } else { strings.iter().map(|s| (Ty::Dedup, Val::str(s))).collect() };
        (format!("table of {n} strings, then repeats of the shortest ones"), items)
    });
    let long = (prop::sample::select(vec![40_000usize, 65_536, 70_000]), prop::sample::select(vec![40usize, 101, 130]), any::<bool>()).prop_map(|(l, k, two)| {
        let s1 = "a".repeat(l);
        let s2 = "b".repeat(l);
        let items: Vec<(Ty, Val)> = vec![(Ty::Vec(a(Ty::Dedup)), Val::Seq((0..=k).map(|i| Val::str(if two && i % 2 == 1 { &s2 } else { &s1 })).collect()))];
        (format!("a string of {l} bytes written {} times", k + 1), items)
    });
    (prop_oneof![5 => many, 1 => long], any::<u16>(), any::<u8>()).prop_map(|((placement, items), fault_sel, fault_kind)| DedupCase { items, placement, fault_sel, fault_kind }).boxed()
}

fn as_plain(t: &Ty) -> Ty {
    // the same shape with every DeduplicatedString replaced by String (flat items only need the leaf)
    match t {
        Ty::Dedup => Ty::Str,
        other => other.clone(),
    }
}

pub fn check_c09(c: &DedupCase, acc: &mut Acc, record: bool) -> Verdict {
    // one case in seven is preceded, on this thread, by a stream that registers deduplicated strings (two from the
    // alphabet, one of its own) and then FAILS (a character the format cannot hold): numbering restarts regardless
    if hash_json(&c.items) % 7 == 0 {
        let junk = Ty::Tuple(vec![Ty::Dedup, Ty::Dedup, Ty::Dedup, Ty::Char]);
        let jv = Val::Tuple(vec![Val::str(SMALL_ALPHABET[1]), Val::str(SMALL_ALPHABET[2]), Val::str("left over"), Val::Char(0x1F600)]);
        let failed = vcat::encode(&junk, &jv).0.is_err();
        if record && failed {
            acc.bump("cases_preceded_by_a_failing_stream_with_deduplicated_strings", 1);
        }
    }
    let (enc, written) = vcat::encode_many_written(&c.items);
    let bytes = match enc {
        Ok(b) => b,
        Err(e) if e.kind == "SerializingTransientConstructor" => return Verdict::Skip,
        Err(e) => return Verdict::Fail(format!("encoding failed: {e:?}")),
    };
    // the model: ids from 1 in first-occurrence order, header names first, a repeat is zigzag(-id); containers in
    // the order the serialized instances iterate
    let as_written: Vec<(Ty, Val)> = c.items.iter().zip(written).map(|((t, _), w)| (t.clone(), w)).collect();
    let model = match ref_encode_many(&as_written) {
        Ok(f) => f,
        Err(e) => return Verdict::Fail(format!("HARNESS: model rejected the case: {e:?}")),
    };
    let repeats: Vec<&vmodel::refcodec::Site> = model.sites.iter().filter(|s| s.kind == SiteKind::DedupRef).collect();
    let first_after_repeat = {
        // a full string (StrLen site) that comes after some back-reference
        let first_ref = repeats.iter().map(|s| s.off).min();
        first_ref.map(|o| model.sites.iter().any(|s| s.kind == SiteKind::StrLen && s.off > o)).unwrap_or(false)
    };
    if record {
        let class = c.placement.clone();
        acc.case(&class, hash_json(&c.items), !repeats.is_empty() && first_after_repeat);
        acc.bump("back_references_checked", repeats.len() as u64);
        if acc.wants_sample(&class) && !repeats.is_empty() {
            acc.sample(&class, json!({"items": c.items.iter().map(|(t, v)| format!("{}: {}", t.render(), v.brief())).collect::<Vec<_>>(), "stream_hex": hex(&bytes[..bytes.len().min(96)]), "back_references": repeats.len()}));
        }
    }
    // (b) byte-exact agreement with the model
    if bytes != model.bytes {
        return Verdict::Fail(format!("stream {} differs from the model {} ({}; items {:?})", hex(&bytes), hex(&model.bytes), c.placement, c.items.iter().map(|(t, v)| format!("{}: {}", t.render(), v.brief())).collect::<Vec<_>>()));
    }
    // every repeat is exactly the zig-zag varint of minus its id, hence at most five bytes
    for s in &repeats {
        let want = var_i32_bytes(s.value as i32);
        if s.len > 5 || bytes[s.off..s.off + s.len] != want[..] || s.value >= 0 {
            return Verdict::Fail(format!("back-reference at offset {} is {} (expected {})", s.off, hex(&bytes[s.off..s.off + s.len]), hex(&want)));
        }
    }
    // (c) without repeats deduplication costs nothing: flat streams are compared with their all-plain twin
    if c.placement == "flat stream" && repeats.is_empty() {
        let plain: Vec<(Ty, Val)> = c.items.iter().map(|(t, v)| (as_plain(t), v.clone())).collect();
        match vcat::encode_many(&plain) {
            Ok(p) if p == bytes => {}
            other => return Verdict::Fail(format!("a stream without repeats is not byte-identical to the plain-string stream: {} vs {:?}", hex(&bytes), other.map(|b| hex(&b)))),
        }
    }
    // (a) decode == the strings written
    let tys: Vec<Ty> = c.items.iter().map(|x| x.0.clone()).collect();
    let (results, rest) = vcat::decode_many(&tys, &bytes);
    if results.len() != tys.len() || !rest.is_empty() {
        return Verdict::Fail(format!("decoding stopped early or left bytes: {:?}, rest {}", results.last(), hex(&rest)));
    }
    for (i, r) in results.iter().enumerate() {
        let want = vmodel::with_transient_defaults(&tys[i], &c.items[i].1);
        match r {
            Ok(v) if canon(&tys[i], v) == canon(&tys[i], &want) => {}
            other => return Verdict::Fail(format!("item {i} ({}) read back as {:?}, written {} (stream {})", tys[i].render(), other.as_ref().map(|v| v.brief()), want.brief(), hex(&bytes))),
        }
    }
    // (e) fault: a forward reference. The first removed-field name in the header of a top-level evolved record is the
    // first deduplicated string a reader meets; written as a back-reference to the id it is about to get (1), it
    // refers to nothing the stream has introduced
    if let Some((Ty::Adt(d), _)) = c.items.first() {
        let names_in_header = match &d.body {
            vmodel::DeclBody::Struct(r) => r.steps.iter().any(|s| matches!(s, Step::Removed { .. } | Step::MadeTransient { .. })),
            _ => false,
        };
        if let (true, Some(s)) = (names_in_header, model.sites.iter().filter(|s| s.kind == SiteKind::RemovedName).min_by_key(|s| s.off)) {
            let mut t = bytes.clone();
            t.splice(s.off..s.off + s.len, var_i32_bytes(-1));
            if record {
                acc.bump("forward_reference_faults_injected", 1);
            }
            let (results, _) = match guarded(|| vcat::decode_many(&tys, &t)) {
                Ok(r) => r,
                Err(p) => return Verdict::Fail(format!("decoding a stream whose first header name is a forward reference panicked: {p} (stream {})", hex(&t))),
            };
            match results.first() {
                Some(Err(e)) if e.kind == "InvalidStringId" => {}
                other => return Verdict::Fail(format!("the first removed-field name of the stream written as a back-reference to id 1 (nothing introduced yet) was not rejected as InvalidStringId: {:?} (stream {})", other.map(|r| r.as_ref().map(|v| v.brief())), hex(&t))),
            }
        }
    }
    // (d) fault: a back-reference to an id that was never introduced must be InvalidStringId
    if !repeats.is_empty() {
        let s = repeats[vmodel::gen::pick(c.fault_sel, repeats.len())];
        // strings written in full anywhere in the stream = ids ever introduced (chunks are laid out by generation, not in
        // processing order, so 'before this offset' would not be 'before this read')
        let introduced = model.sites.iter().filter(|x| x.kind == SiteKind::StrLen).count() as i32;
        // inside an evolved record the chunk sizes in the header pin the length of every field: there the corrupted
        // reference must keep its byte length; in a flat stream any length will do
        let flat = c.placement == "flat stream";
        let candidates: Vec<i32> = if flat { vec![-(introduced + 1), i32::MIN, -(introduced + 1000)] } else { vec![-(introduced + 1), -64, -8192, -1048576] };
        let usable: Vec<i32> = candidates.into_iter().filter(|b| (-(*b as i64)) > introduced as i64 && (flat || var_i32_bytes(*b).len() == s.len)).collect();
        if usable.is_empty() {
            if record {
                acc.bump("fault_skipped_no_same_length_unknown_id", 1);
            }
            return Verdict::Pass;
        }
        let bad = usable[c.fault_kind as usize % usable.len()];
        let mut t = bytes.clone();
        t.splice(s.off..s.off + s.len, var_i32_bytes(bad));
        if record {
            acc.bump("unknown_id_faults_injected", 1);
        }
        let (results, _) = match guarded(|| vcat::decode_many(&tys, &t)) {
            Ok(r) => r,
            Err(p) => return Verdict::Fail(format!("decoding a stream with an unknown string id panicked: {p} (stream {})", hex(&t))),
        };
        // only ids that were never introduced *at that point* are certain errors: StrLen sites before the reference
        // count strings written in full, which is exactly the number of ids introduced so far
        match results.last() {
            Some(Err(e)) if e.kind == "InvalidStringId" => {}
            other => return Verdict::Fail(format!("a back-reference to id {} (only {introduced} introduced) was not rejected as InvalidStringId: {:?} (stream {})", -(bad as i64), other.map(|r| r.as_ref().map(|v| v.brief())), hex(&t))),
        }
    }
    Verdict::Pass
}

/// compiled (derive-macro) declarations that carry deduplicated strings somewhere inside: the writer's and the
/// reader's order of assigning ids is then the order the *macro expansion* visits the fields in
fn compiled_dedup_strategy(d: &Arc<vmodel::Decl>) -> BoxedStrategy<DedupCase> {
    let ty = Ty::Adt(d.clone());
    let name = d.name.clone();
    (proptest::collection::vec(val_strategy(&ty, cfg()), 1..=2), any::<u16>(), any::<u8>())
        .prop_map(move |(vals, fault_sel, fault_kind)| DedupCase { items: vals.into_iter().map(|v| (ty.clone(), v)).collect(), placement: format!("compiled declaration {}", if name.starts_with('E') { "(enum)" } else { "(struct)" }), fault_sel, fault_kind })
        .boxed()
}

pub fn run_c09(cx: &Cx) -> PropResult {
    let per_shard = cx.n(50_000, 1_500_000);
    let compiled: Vec<Arc<vmodel::Decl>> = crate::props::derived::batch().all().into_iter().filter(|d| crate::props::derived::compiled_ok(d) && Ty::Adt(d.clone()).any(&|t| *t == Ty::Dedup)).collect();
    let per_decl = cx.n(1_500, 30_000);
    let acc = parallel(cx, &|shard, acc| {
        for (i, d) in compiled.iter().enumerate() {
            if i % cx.shards != shard {
                continue;
            }
            let strat = compiled_dedup_strategy(d);
            if drive(tag_seed(derive_seed(cx.seed, cx.prop, i as u64, 7), 10 + i as u64), &strat, per_decl, acc, &|c: &DedupCase| to_json(c), &mut |c, a, r| check_c09(c, a, r)) {
                return;
            }
            acc.bump("compiled_declarations_with_deduplicated_strings", 1);
        }
        let strat = dedup_case_strategy();
        if drive(tag_seed(derive_seed(cx.seed, cx.prop, shard as u64, 0), 0), &strat, per_shard, acc, &|c: &DedupCase| to_json(c), &mut |c, a, r| check_c09(c, a, r)) {
            return;
        }
        // tables that grow past the var-int boundaries of the ids (a back-reference to id 64 / 8192 takes one byte more,
        // and may then be longer than the string it stands for), and long strings repeated often (what the repeats
        // expand to is many times the input)
        let strat = big_table_strategy();
        if drive(tag_seed(derive_seed(cx.seed, cx.prop, shard as u64, 6), 6), &strat, cx.n(24, 400), acc, &|c: &DedupCase| to_json(c), &mut |c, a, r| check_c09(c, a, r)) {
            return;
        }
        let ix = || proptest::collection::vec(0usize..SMALL_ALPHABET.len(), 0..5);
        let strat = (ix(), ix(), ix(), 0u8..4).prop_map(|(before, inner, after, hint)| IterDedupCase { before, inner, after, hint });
        if drive(tag_seed(derive_seed(cx.seed, cx.prop, shard as u64, 7), 7), &strat, per_shard / 10, acc, &|c: &IterDedupCase| to_json(&json!({"Iter": c})), &mut |c, a, r| check_c09_iter(c, a, r)) {
            return;
        }
        // the string table next to the other per-stream table: graphs of tracked objects whose bodies carry one of four
        // deduplicated tags (C10's codec and byte model): string ids stay 1, 2, 3 ... whatever objects are numbered
        let strat = (1usize..25)
            .prop_flat_map(|n| (proptest::collection::vec(any::<u32>(), n..=n), proptest::collection::vec(proptest::collection::vec(0..n, 0..3), n..=n), any::<bool>(), any::<u16>(), any::<u8>()))
            .prop_map(|(labels, edges, th, fault_sel, fault_kind)| crate::props::graphs::GraphCase { g: crate::props::graphs::Graph { labels, edges }, tracked_header: th, tagged: true, sentinel: false, seq: false, fault_sel, fault_kind });
        drive(tag_seed(derive_seed(cx.seed, cx.prop, shard as u64, 5), 5), &strat, per_shard / 20, acc, &|c: &crate::props::graphs::GraphCase| to_json(&json!({"Graph": c})), &mut |c, a, r| {
            match crate::props::graphs::check_graph(c, &mut Acc::new(), false) {
                Verdict::Fail(e) => Verdict::Fail(format!("deduplicated strings beside tracked objects: {e}")),
                v => {
                    if r {
                        a.case("tagged graph (string ids beside object numbers)", hash_json(c), c.g.labels.len() >= 4);
                    }
                    v
                }
            }
        });
    });
    PropResult::new(
        acc,
        "exploration",
        "cases = write sequences over a six-string alphabet (empty, ASCII, non-ASCII, long, one equal to a removed field's name): (i) flat streams of 0-40 (dedup | plain | time-zone) writes into one SerializationContext (zone names also occur as deduplicated and as plain strings); (ii) tuples, Vec<DS>, Option/Result/LinkedList of DS; (iii) DS fields of version-0 records; (iv) DS fields of evolved records whose header carries 1-2 removed/transient names, nested in each other and repeated in a Vec so that the second instance's header names are back-references; plus run-time generated declarations with DS fields, and every declaration of the compiled batch (real derive-macro code) that contains a DS anywhere inside; 1-3 values back to back. Oracles: decode == strings written; stream byte-identical to the model (ids from 1 in first-occurrence order, header names before field strings, every repeat exactly zigzag_varint(-id), first occurrences as plain strings); flat streams without repeats identical to the all-plain stream; a rewritten back-reference to an id never introduced (introduced+1, i32::MIN, introduced+1000) decodes to Err(InvalidStringId); so does a forward reference (the first header name of a top-level evolved record rewritten as a back-reference to the id it would get). Also graphs of tracked objects whose bodies carry deduplicated tags (the codec and byte model of C10): string ids are 1, 2, 3 ... in first-occurrence order whatever numbers the objects take. Tables of 60-70 and 8188-8198 distinct strings followed by repeats of the empty and of a one-byte string (back-references that take more bytes than the string), and one string of 40 000-70 000 bytes written 41-131 times. Same definition on both sides. Non-trivial = at least one repeat and a first occurrence after a repeat.",
    )
}

pub fn replay_c09(case: &Value) -> Verdict {
    if let Some(i) = case.get("Iter") {
        let c: IterDedupCase = serde_json::from_value(i.clone()).expect("replay case");
        return check_c09_iter(&c, &mut Acc::new(), false);
    }
    if let Some(g) = case.get("Graph") {
        let c: crate::props::graphs::GraphCase = serde_json::from_value(g.clone()).expect("replay case");
        return crate::props::graphs::check_graph(&c, &mut Acc::new(), false);
    }
    let c: DedupCase = serde_json::from_value(case.clone()).expect("replay case");
    check_c09(&c, &mut Acc::new(), false)
}

pub fn regen_c09(cx: &Cx, shard: usize, _stream: u64, index: u64) -> Option<Value> {
    Some(to_json(&regen_case(tag_seed(derive_seed(cx.seed, cx.prop, shard as u64, 0), 0), &dedup_case_strategy(), index)))
}
