//! C16: compressed blocks — round trip, framing, truncation, corruption under the allocation counters.
use crate::alloc::measure;
use crate::run::{drive, guarded, parallel, regen as regen_case, tag_seed, to_json, Cx, Tier, Verdict};
use crate::PropResult;
use bytes::BytesMut;
use desert::{BinaryInput, BinaryOutput, DeserializationContext, OwnedInput, SerializationContext, SliceInput};
use flate2::Compression;
use proptest::prelude::*;
use proptest::strategy::BoxedStrategy;
use serde::{Deserialize, Serialize};
use serde_json::{json, Value};
use std::io::Read;
use vmodel::evidence::Acc;
use vmodel::refcodec::var_u32_bytes;
use vmodel::{derive_seed, hash_json, hex};

#[derive(Debug, Clone, Serialize, Deserialize, PartialEq)]
pub enum Content {
    Empty,
    Random { len: usize, seed: u64 },
    Repeat { byte: u8, len: usize },
    Period { unit: Vec<u8>, len: usize },
    Text { len: usize, seed: u64 },
    Concat(Vec<Content>),
}

#[derive(Debug, Clone, Serialize, Deserialize, PartialEq)]
pub enum Fault {
    None,
    /// every truncation point (exhaustive for short frames, `sample` points otherwise)
    Truncations { sample: Vec<u16> },
    BitFlips { at: Vec<(u16, u8)> },
    Header { which: u8, choice: u8 },
}

#[derive(Debug, Clone, Serialize, Deserialize)]
pub struct ZCase {
    pub content: Content,
    pub level: u32,
    pub suffix: Vec<u8>,
    pub fault: Fault,
}

fn lcg(seed: &mut u64) -> u64 {
    *seed = seed.wrapping_mul(6364136223846793005).wrapping_add(1442695040888963407);
    *seed >> 33
}

pub fn materialize(c: &Content) -> Vec<u8> {
    match c {
        Content::Empty => vec![],
        Content::Random { len, seed } => {
            let mut s = *seed;
            (0..*len).map(|_| lcg(&mut s) as u8).collect()
        }
        Content::Repeat { byte, len } => vec![*byte; *len],
        Content::Period { unit, len } => {
            if unit.is_empty() {
                return vec![];
            }
            (0..*len).map(|i| unit[i % unit.len()]).collect()
        }
        Content::Text { len, seed } => {
            let words = ["the ", "quick ", "brown ", "fox ", "desert ", "binary ", "codec ", "\n", "0123456789 ", "evolution "];
            let mut s = *seed;
            let mut out = Vec::new();
            while out.len() < *len {
                out.extend_from_slice(words[lcg(&mut s) as usize % words.len()].as_bytes());
            }
            out.truncate(*len);
            out
        }
        Content::Concat(cs) => cs.iter().flat_map(materialize).collect(),
    }
}

fn content_strategy(max: usize) -> BoxedStrategy<Content> {
    let len = prop_oneof![4 => 0usize..300, 3 => 300usize..5_000, 2 => 5_000usize..=max.min(70_000), 1 => (max / 2)..=max, 1 => prop::sample::select(vec![1usize, 63, 64, 127, 128, 16383, 16384, 32767, 32768, 65535, 65536]), 2 => prop_oneof![100usize..140, 16_360usize..16_400]];
    let leaf = prop_oneof![
        1 => Just(Content::Empty),
        3 => (len.clone(), any::<u64>()).prop_map(|(len, seed)| Content::Random { len, seed }),
        3 => (any::<u8>(), len.clone()).prop_map(|(byte, len)| Content::Repeat { byte, len }),
        2 => (proptest::collection::vec(any::<u8>(), 1..9), len.clone()).prop_map(|(unit, len)| Content::Period { unit, len }),
        3 => (len, any::<u64>()).prop_map(|(len, seed)| Content::Text { len, seed }),
    ];
    prop_oneof![5 => leaf.clone(), 1 => proptest::collection::vec(leaf, 2..4).prop_map(Content::Concat)].boxed()
}

pub fn zcase_strategy(max: usize) -> BoxedStrategy<ZCase> {
    let fault = prop_oneof![
        3 => Just(Fault::None),
        2 => proptest::collection::vec(any::<u16>(), 24..=24).prop_map(|sample| Fault::Truncations { sample }),
        3 => proptest::collection::vec((any::<u16>(), 0u8..8), 1..=2).prop_map(|at| Fault::BitFlips { at }),
        3 => (0u8..2, any::<u8>()).prop_map(|(which, choice)| Fault::Header { which, choice }),
    ];
    (content_strategy(max), 0u32..=9, prop_oneof![1 => Just(vec![]), 2 => proptest::collection::vec(any::<u8>(), 1..20)], fault).prop_map(|(content, level, suffix, fault)| ZCase { content, level, suffix, fault }).boxed()
}

/// independent inflate (flate2 used directly): how many bytes come out before it ends or fails
fn inflate_count(z: &[u8]) -> (usize, bool) {
    let mut d = flate2::read::DeflateDecoder::new(z);
    let mut buf = [0u8; 8192];
    let mut n = 0;
    loop {
        match d.read(&mut buf) {
            Ok(0) => return (n, true),
            Ok(k) => n += k,
            Err(_) => return (n, false),
        }
    }
}

fn read_all_three(frame: &[u8]) -> [(Result<Vec<u8>, String>, usize); 3] {
    let e = |r: desert::Result<Vec<u8>>| r.map_err(|e| vcat::errinfo(&e).kind);
    let mut s = SliceInput::new(frame);
    let a = e(s.read_compressed());
    let mut rest_a = 0;
    while s.read_u8().is_ok() {
        rest_a += 1;
    }
    let mut o = OwnedInput::new(frame.to_vec());
    let b = e(o.read_compressed());
    let mut rest_b = 0;
    while o.read_u8().is_ok() {
        rest_b += 1;
    }
    let mut c = DeserializationContext::new(frame);
    let cc = e(c.read_compressed());
    let mut rest_c = 0;
    while c.read_u8().is_ok() {
        rest_c += 1;
    }
    [(a, rest_a), (b, rest_b), (cc, rest_c)]
}

fn header_choices(v: u32) -> Vec<u32> {
    vec![0, 1, v.wrapping_add(1), v.saturating_sub(1), v.wrapping_mul(2), 1 << 31, u32::MAX, 1 << 20, 65_536, v / 2]
}

pub fn check_c16(c: &ZCase, acc: &mut Acc, record: bool) -> Verdict {
    let d = materialize(&c.content);
    let level = Compression::new(c.level);
    // ---- write through three sinks
    let mut v = Vec::new();
    if let Err(e) = v.write_compressed(&d, level) {
        return Verdict::Fail(format!("write_compressed failed: {e:?}"));
    }
    let mut bm = BytesMut::new();
    bm.write_compressed(&d, level).unwrap();
    let mut sc = SerializationContext::new(Vec::new());
    sc.write_compressed(&d, level).unwrap();
    let scv = sc.into_output();
    if v != bm[..] || v != scv {
        let at = v.iter().zip(bm.iter()).position(|(a, b)| a != b).or_else(|| v.iter().zip(scv.iter()).position(|(a, b)| a != b));
        return Verdict::Fail(format!("sinks disagree on the frame of {} bytes at level {}: Vec {} bytes, BytesMut {} bytes, context {} bytes, first difference at {at:?}", d.len(), c.level, v.len(), bm.len(), scv.len()));
    }
    // a BytesMut that already holds data, and the size calculator (bare and behind a context); the writer-side extras
    // run on the cases that carry no fault (their subject is the frame, not what happens to it afterwards)
    let writer_extras = c.fault == Fault::None;
    let mut bm2 = BytesMut::from(&b"prefix"[..]);
    if !writer_extras {
        bm2.extend_from_slice(&v);
    } else {
        bm2.write_compressed(&d, level).unwrap();
    }
    if bm2[6..] != v[..] {
        return Verdict::Fail(format!("a BytesMut that already holds 6 bytes writes another frame for {} bytes at level {} than an empty Vec does", d.len(), c.level));
    }
    let (s1, s2) = if writer_extras {
        let mut calc = desert::SizeCalculator::new();
        calc.write_compressed(&d, level).unwrap();
        let mut calc_ctx = SerializationContext::new(desert::SizeCalculator::new());
        calc_ctx.write_compressed(&d, level).unwrap();
        (calc.size(), calc_ctx.into_output().size())
    } else {
        (v.len(), v.len())
    };
    if s1 != v.len() || s2 != v.len() {
        return Verdict::Fail(format!("SizeCalculator reports {s1} (bare) / {s2} (behind a context) bytes for a frame of {} bytes ({} content bytes, level {})", v.len(), d.len(), c.level));
    }
    // ---- frame == varint(len d) ++ varint(len z) ++ z, z inflating (independently) to d
    let h1 = var_u32_bytes(d.len() as u32);
    if v.len() < h1.len() || v[..h1.len()] != h1[..] {
        return Verdict::Fail(format!("frame does not start with the uncompressed length {}: {}", d.len(), hex(&v[..v.len().min(12)])));
    }
    let z_len = v.len() - h1.len();
    // the second varint: find the split such that varint(len z) ++ z fills the rest
    let mut ok = false;
    let mut z_off = 0;
    for l2 in 1..=5usize {
        if z_len >= l2 {
            let zl = z_len - l2;
            if var_u32_bytes(zl as u32) == v[h1.len()..h1.len() + l2] {
                ok = true;
                z_off = h1.len() + l2;
                break;
            }
        }
    }
    if !ok {
        return Verdict::Fail(format!("frame does not record the compressed length: {}", hex(&v[..v.len().min(16)])));
    }
    let z = &v[z_off..];
    let mut back = Vec::new();
    if flate2::read::DeflateDecoder::new(z).read_to_end(&mut back).is_err() || back != d {
        return Verdict::Fail(format!("the payload does not inflate to the content ({} bytes, level {})", d.len(), c.level));
    }
    let kind = match &c.content {
        Content::Empty => "empty",
        Content::Random { .. } => "random",
        Content::Repeat { .. } => "repeat",
        Content::Period { .. } => "period",
        Content::Text { .. } => "text",
        Content::Concat(_) => "concat",
    };
    let fault_name = match &c.fault {
        Fault::None => "none",
        Fault::Truncations { .. } => "truncations",
        Fault::BitFlips { .. } => "bit flips",
        Fault::Header { .. } => "header rewrite",
    };
    if record {
        let class = format!("{kind} / level {} / {fault_name}", c.level);
        acc.case(&class, hash_json(c), d.len() >= 64 || c.fault != Fault::None);
        if acc.wants_sample(&format!("{kind} / {fault_name}")) {
            acc.sample(&format!("{kind} / {fault_name}"), json!({"content": format!("{:?}", c.content).chars().take(120).collect::<String>(), "content_len": d.len(), "level": c.level, "frame_len": v.len(), "frame_head_hex": hex(&v[..v.len().min(16)]), "fault": format!("{:?}", c.fault).chars().take(100).collect::<String>()}));
        }
    }
    // ---- read back with a suffix through the three sources
    let mut framed = v.clone();
    framed.extend_from_slice(&c.suffix);
    for (i, (r, rest)) in read_all_three(&framed).iter().enumerate() {
        match r {
            Ok(b) if *b == d && *rest == c.suffix.len() => {}
            other => return Verdict::Fail(format!("source {i}: read_compressed gave {:?} leaving {rest} bytes (content {} bytes, suffix {})", other.as_ref().map(|b| b.len()), d.len(), c.suffix.len())),
        }
    }
    // ---- the frame written and read through a context that is inside a record: as a field of a version-0 record
    // (straight to the output) and of an evolved record (the field's chunk is buffered and the header written first),
    // between sibling fields and before data that follows the record
    if writer_extras {
        if let Err(e) = embedded_frames(&d, level, &v) {
            return Verdict::Fail(format!("{e} (content {} bytes, level {})", d.len(), c.level));
        }
        if record {
            acc.bump("frames_embedded_in_records", 3);
        }
    }
    // ---- faults
    match &c.fault {
        Fault::None => {}
        Fault::Truncations { sample } => {
            let cuts: Vec<usize> = if v.len() <= 2048 { (0..v.len()).collect() } else { sample.iter().map(|s| vmodel::gen::pick(*s, v.len())).collect() };
            for k in cuts {
                if record {
                    acc.bump("truncation_points", 1);
                }
                for (i, (r, _)) in read_all_three(&v[..k]).iter().enumerate() {
                    if r.is_ok() {
                        return Verdict::Fail(format!("source {i}: a frame of {} bytes cut to {k} bytes was read successfully", v.len()));
                    }
                }
            }
        }
        Fault::BitFlips { .. } | Fault::Header { .. } => {
            let mut t = v.clone();
            match &c.fault {
                Fault::BitFlips { at } => {
                    for (p, b) in at {
                        let i = vmodel::gen::pick(*p, t.len());
                        t[i] ^= 1 << b;
                    }
                }
                Fault::Header { which, choice } => {
                    let (off, len, val) = if *which == 0 { (0, h1.len(), d.len() as u32) } else { (h1.len(), z_off - h1.len(), z.len() as u32) };
                    let cs = header_choices(val);
                    t.splice(off..off + len, var_u32_bytes(cs[*choice as usize % cs.len()]));
                }
                _ => unreachable!(),
            }
            // what an independent inflate of the same payload yields (the frame is re-parsed with the model varint)
            let produced = {
                let mut p = 0usize;
                let a = model_var(&t, &mut p);
                let b = model_var(&t, &mut p);
                match (a, b) {
                    (Some(_), Some(cl)) if (cl as usize) <= t.len() - p => inflate_count(&t[p..p + cl as usize]).0,
                    _ => 0,
                }
            };
            // whatever a damaged frame decodes to, it is made of inflated bytes only: the result may not depend on what
            // fresh heap memory contains (allocator pre-fill 0x53 / 0xAC)
            let pa = crate::alloc::with_poison(0x53, || guarded(|| SliceInput::new(&t).read_compressed().ok()));
            let pb = crate::alloc::with_poison(0xAC, || guarded(|| SliceInput::new(&t).read_compressed().ok()));
            if let (Ok(a), Ok(b)) = (&pa, &pb) {
                if a != b {
                    return Verdict::Fail(format!("read_compressed on a damaged frame (head {}) returns bytes that depend on the content of fresh heap memory: {} vs {} bytes, first difference at {:?} — uninitialised memory is exposed", hex(&t[..t.len().min(16)]), a.as_ref().map(|x| x.len()).unwrap_or(0), b.as_ref().map(|x| x.len()).unwrap_or(0), a.as_ref().zip(b.as_ref()).and_then(|(x, y)| x.iter().zip(y.iter()).position(|(p, q)| p != q))));
                }
            }
            let bound = (64usize << 10).max(2 * produced + 4096);
            for i in 0..3 {
                let (r, stats) = measure(|| {
                    guarded(|| match i {
                        0 => SliceInput::new(&t).read_compressed().map(|b| b.len()).map_err(|e| vcat::errinfo(&e).kind),
                        1 => DeserializationContext::new(&t).read_compressed().map(|b| b.len()).map_err(|e| vcat::errinfo(&e).kind),
                        _ => OwnedInput::new(Vec::new()).read_compressed().map(|b| b.len()).map_err(|e| vcat::errinfo(&e).kind),
                    })
                });
                if let Err(p) = r {
                    return Verdict::Fail(format!("read_compressed panicked on a damaged frame: {p} (frame head {})", hex(&t[..t.len().min(16)])));
                }
                if i < 2 && stats.max_request > bound {
                    return Verdict::Fail(format!("read_compressed on a damaged frame of {} bytes requested {} bytes in one allocation; the payload inflates to {produced} bytes (bound {bound}); frame head {}", t.len(), stats.max_request, hex(&t[..t.len().min(16)])));
                }
            }
        }
    }
    Verdict::Pass
}

/// a user codec that stores its bytes as a compressed block through the context it is handed
pub(crate) struct ZBlob<'a>(pub &'a [u8], pub Compression);
impl desert::BinarySerializer for ZBlob<'_> {
    fn serialize<O: BinaryOutput>(&self, context: &mut SerializationContext<O>) -> desert::Result<()> {
        context.write_compressed(self.0, self.1)
    }
}
pub(crate) struct ZOwned(pub Vec<u8>);
impl desert::BinaryDeserializer for ZOwned {
    fn deserialize(context: &mut DeserializationContext<'_>) -> desert::Result<Self> {
        Ok(ZOwned(context.read_compressed()?))
    }
}

fn embedded_frames(d: &[u8], level: Compression, frame: &[u8]) -> Result<(), String> {
    use desert::adt::{AdtDeserializer, AdtMetadata, AdtSerializer};
    use desert::{BinaryDeserializer, BinarySerializer, Evolution};
    let v0 = AdtMetadata::new(vec![Evolution::InitialVersion]);
    let v2 = AdtMetadata::new(vec![Evolution::InitialVersion, Evolution::FieldAdded { name: "z".into() }, Evolution::FieldAdded { name: "t".into() }]);
    let e = |x: desert::Error| format!("{x:?}");
    // the block between two siblings INSIDE one chunk of an evolved record (chunk 0; "q" alone is in chunk 1)
    {
        let v1 = AdtMetadata::new(vec![Evolution::InitialVersion, Evolution::FieldAdded { name: "q".into() }]);
        let mut ctx = SerializationContext::new(vec![0xC3, 0x3C]);
        {
            let mut ser = AdtSerializer::new(&v1, &mut ctx);
            ser.write_field("a", &0x1234u16).map_err(e)?;
            ser.write_field("z", &ZBlob(d, level)).map_err(e)?;
            ser.write_field("t", &0x77u8).map_err(e)?;
            ser.write_field("q", &0x99u8).map_err(e)?;
            ser.finish().map_err(e)?;
        }
        let bytes = ctx.into_output();
        let mut want = vec![0xC3, 0x3C, 1];
        vmodel::refcodec::var_i32(3 + frame.len() as i32, &mut want);
        vmodel::refcodec::var_i32(1, &mut want);
        want.extend_from_slice(&[0x12, 0x34]);
        want.extend_from_slice(frame);
        want.extend_from_slice(&[0x77, 0x99]);
        if bytes != want {
            return Err(format!("a compressed block written between two siblings of one chunk is not laid out as header ++ chunks ({} bytes against {})", bytes.len(), want.len()));
        }
        let mut dc = DeserializationContext::new(&bytes);
        dc.read_u8().map_err(e)?;
        dc.read_u8().map_err(e)?;
        let stored = dc.read_u8().map_err(e)?;
        let mut de = AdtDeserializer::new(&v1, &mut dc, stored).map_err(e)?;
        let a: u16 = de.read_field("a", None).map_err(e)?;
        let z: ZOwned = de.read_field("z", None).map_err(|x| format!("the compressed block inside a chunk could not be read: {x:?}"))?;
        let t: u8 = de.read_field("t", None).map_err(|x| format!("the sibling after a compressed block in the same chunk could not be read: {x:?}"))?;
        let q: u8 = de.read_field("q", None).map_err(e)?;
        if a != 0x1234 || z.0 != d || t != 0x77 || q != 0x99 {
            return Err(format!("a compressed block between two siblings of one chunk: siblings read back as {a:#x} {t:#x} {q:#x}, {} content bytes", z.0.len()));
        }
    }
    for evolved in [false, true] {
        let mut ctx = SerializationContext::new(Vec::new());
        {
            let mut ser = if evolved { AdtSerializer::new(&v2, &mut ctx) } else { AdtSerializer::new_v0(&v0, &mut ctx) };
            ser.write_field("a", &0x1234u16).map_err(e)?;
            ser.write_field("z", &ZBlob(d, level)).map_err(e)?;
            ser.write_field("t", &0x77u8).map_err(e)?;
            ser.finish().map_err(e)?;
        }
        BinarySerializer::serialize(&0xEEu8, &mut ctx).map_err(e)?;
        let bytes = ctx.into_output();
        // the layout the format prescribes, with the stand-alone frame as the field's bytes
        let mut want = Vec::new();
        if evolved {
            want.push(2);
            vmodel::refcodec::var_i32(2, &mut want);
            vmodel::refcodec::var_i32(frame.len() as i32, &mut want);
            vmodel::refcodec::var_i32(1, &mut want);
        } else {
            want.push(0);
        }
        want.extend_from_slice(&[0x12, 0x34]);
        want.extend_from_slice(frame);
        want.extend_from_slice(&[0x77, 0xEE]);
        if bytes != want {
            let at = bytes.iter().zip(&want).position(|(a, b)| a != b).unwrap_or(bytes.len().min(want.len()));
            return Err(format!("a compressed block written as field of {} record is not laid out as header ++ chunks: {} bytes against {} expected, first difference at {at} (head {})", if evolved { "an evolved" } else { "a version-0" }, bytes.len(), want.len(), hex(&bytes[..bytes.len().min(16)])));
        }
        let mut dc = DeserializationContext::new(&bytes);
        let stored = dc.read_u8().map_err(e)?;
        let meta = if evolved { &v2 } else { &v0 };
        let (a, z, t) = {
            let mut de = if stored == 0 { AdtDeserializer::new_v0(meta, &mut dc).map_err(e)? } else { AdtDeserializer::new(meta, &mut dc, stored).map_err(e)? };
            let a: u16 = de.read_field("a", None).map_err(e)?;
            let z: ZOwned = de.read_field("z", None).map_err(e)?;
            let t: u8 = de.read_field("t", None).map_err(e)?;
            (a, z, t)
        };
        let after = <u8 as BinaryDeserializer>::deserialize(&mut dc).map_err(e)?;
        if a != 0x1234 || z.0 != d || t != 0x77 || after != 0xEE || dc.read_u8().is_ok() {
            return Err(format!("a compressed block read back as field of {} record: siblings {a:#x} {t:#x} {after:#x}, {} content bytes", if evolved { "an evolved" } else { "a version-0" }, z.0.len()));
        }
    }
    // a frame that claims more compressed bytes than its chunk holds (the chunk ends where the honest frame ends):
    // the block is the only content of chunk 1, which is the last chunk of the record or is followed by chunk 2, and
    // other data follows the record. The reader has to stop at the end of the chunk: Err, never the neighbour's bytes.
    let (mut p, _ulen) = (0usize, ());
    let _ = model_var(frame, &mut p);
    let clen_at = p;
    if let Some(clen) = model_var(frame, &mut p) {
        let clen_len = p - clen_at;
        for more in [1u32, 2, 5] {
            let mut lie = Vec::new();
            vmodel::refcodec::var_u32(clen + more, &mut lie);
            if lie.len() != clen_len {
                continue;
            }
            let mut bad = frame.to_vec();
            bad[clen_at..clen_at + clen_len].copy_from_slice(&lie);
            for last in [true, false] {
                let meta = if last { AdtMetadata::new(vec![Evolution::InitialVersion, Evolution::FieldAdded { name: "z".into() }]) } else { AdtMetadata::new(vec![Evolution::InitialVersion, Evolution::FieldAdded { name: "z".into() }, Evolution::FieldAdded { name: "t".into() }]) };
                let mut bytes = vec![0x5A, 0xA5, if last { 1u8 } else { 2 }];
                vmodel::refcodec::var_i32(2, &mut bytes);
                vmodel::refcodec::var_i32(bad.len() as i32, &mut bytes);
                if !last {
                    vmodel::refcodec::var_i32(6, &mut bytes);
                }
                bytes.extend_from_slice(&[0x12, 0x34]);
                bytes.extend_from_slice(&bad);
                if !last {
                    bytes.extend_from_slice(&[0x77; 6]);
                }
                bytes.extend_from_slice(&[0xEE; 8]);
                let got = crate::run::guarded(|| {
                    let mut dc = DeserializationContext::new(&bytes);
                    dc.read_u8()?;
                    dc.read_u8()?;
                    let stored = dc.read_u8()?;
                    let mut de = AdtDeserializer::new(&meta, &mut dc, stored)?;
                    let _a: u16 = de.read_field("a", None)?;
                    let z: ZOwned = de.read_field("z", None)?;
                    Ok::<_, desert::Error>(z.0.len())
                });
                match got {
                    Ok(Err(_)) => {}
                    Ok(Ok(n)) => return Err(format!("a frame whose header claims {more} compressed byte(s) more than its chunk holds ({}) was accepted ({n} content bytes): the reader took bytes of {}", if last { "last chunk of the record" } else { "a chunk in the middle" }, if last { "whatever follows the record" } else { "the next chunk" })),
                    Err(p) => return Err(format!("a frame whose header claims {more} compressed byte(s) more than its chunk holds ({}) makes the reader panic: {p}", if last { "last chunk of the record" } else { "a chunk in the middle" })),
                }
            }
        }
    }
    Ok(())
}

fn model_var(data: &[u8], pos: &mut usize) -> Option<u32> {
    let mut r: u32 = 0;
    for i in 0..5 {
        if *pos >= data.len() {
            return None;
        }
        let b = data[*pos];
        *pos += 1;
        r |= ((b & 0x7f) as u32).wrapping_shl(7 * i);
        if i < 4 && b & 0x80 == 0 {
            return Some(r);
        }
    }
    Some(r)
}

fn max_content(cx: &Cx) -> usize {
    if cx.tier == Tier::Quick {
        256 << 10
    } else {
        8 << 20
    }
}

pub fn run_c16(cx: &Cx) -> PropResult {
    // (thorough: 6 000 cases per shard, one in eleven of them 4-8 MiB: about half an hour of 16 cores in two profiles)
    let per_shard = cx.n(2_000, 6_000);
    let max = max_content(cx);
    let acc = parallel(cx, &|shard, acc| {
        let strat = zcase_strategy(max);
        drive(tag_seed(derive_seed(cx.seed, cx.prop, shard as u64, 0), 0), &strat, per_shard, acc, &|c: &ZCase| to_json(c), &mut |c, a, r| check_c16(c, a, r));
    });
    let mut r = PropResult::new(
        acc,
        "fault_enumeration",
        "cases = (content: empty / random (incompressible) / one byte repeated / short period / text-like / concatenations, 0 .. 256 KiB (thorough 8 MiB) incl. the lengths 63/64/127/128/16383/16384/65535/65536; compression level 0-9; suffix; fault). Oracles: Vec<u8>, BytesMut and SerializationContext produce the same frame; frame == varint(len d) ++ varint(len z) ++ z with z inflating to d under an independent flate2 decoder; SliceInput, OwnedInput and DeserializationContext read d back and leave exactly the suffix; faults: every truncation point (exhaustive for frames <= 2 KiB, 24 sampled points above) must be Err on all three sources; 1-2 bit flips anywhere and rewrites of either header varint to 0, 1, v+-1, 2v, v/2, 65536, 2^20, 2^31, 2^32-1 must give Ok or Err without panic and without a single allocation request above max(64 KiB, 2 x bytes an independent streaming inflate of the same payload produces + 4 KiB); a request above 3 GiB traps in the allocator and is reported by the supervisor; the result of reading a damaged frame must not depend on the content of fresh heap memory (allocator pre-fill 0x53 / 0xAC). Embedded in records: frames whose compressed-length header claims 1, 2 or 5 bytes more than their chunk holds (last chunk / a chunk follows) must give Err, never the neighbour's bytes and no panic. Non-trivial = content >= 64 bytes or a fault injected.",
    );
    r.assumptions = vec!["flate2 is used directly (not through desert) as the independent inflate".into()];
    r
}

pub fn replay_c16(case: &Value) -> Verdict {
    let c: ZCase = serde_json::from_value(case.clone()).expect("replay case");
    check_c16(&c, &mut Acc::new(), false)
}

pub fn regen_c16(cx: &Cx, shard: usize, _stream: u64, index: u64) -> Option<Value> {
    Some(to_json(&regen_case(tag_seed(derive_seed(cx.seed, cx.prop, shard as u64, 0), 0), &zcase_strategy(max_content(cx)), index)))
}
