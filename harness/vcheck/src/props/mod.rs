pub mod builtin;
pub mod compressed;
pub mod dedup;
pub mod derived;
pub mod encoding;
pub mod graphs;
pub mod isolation;
pub mod safety;
pub mod evolution;
pub mod faults;
pub mod framing;
pub mod sinks;
pub mod varint;

use crate::run::{Cx, Verdict};
use crate::PropResult;
use serde_json::Value;

pub fn run(cx: &Cx) -> PropResult {
    match cx.prop {
        "C01" => builtin::run_c01(cx),
        "C02" => derived::run_c02(cx),
        "C03" => evolution::run_c03(cx),
        "C04" => builtin::run_c04(cx),
        "C05" => faults::run_c05(cx),
        "C06" => faults::run_c06(cx),
        "C07" => framing::run_c07(cx),
        "C08" => framing::run_c08(cx),
        "C09" => dedup::run_c09(cx),
        "C10" => graphs::run_c10(cx),
        "C11" => varint::run(cx),
        "C12" => framing::run_c12(cx),
        "C13" => derived::run_c13(cx),
        "C14" => derived::run_c14(cx),
        "C15" => sinks::run(cx),
        "C16" => compressed::run_c16(cx),
        "C17" => encoding::run_c17(cx),
        "C18" => isolation::run_c18(cx),
        "C19" => safety::run_c19(cx),
        other => {
            eprintln!("unknown property {other}");
            std::process::exit(2)
        }
    }
}

pub fn replay(cx: &Cx, case: &Value) -> Verdict {
    match cx.prop {
        "C01" => builtin::replay_c01(case),
        "C02" => derived::replay_c02(case),
        "C03" => evolution::replay_c03(case),
        "C04" => builtin::replay_c04(case),
        "C05" => faults::replay_c05(case),
        "C06" => faults::replay_c06(case),
        "C07" => framing::replay_c07(case),
        "C08" => framing::replay_c08(case),
        "C09" => dedup::replay_c09(case),
        "C10" => graphs::replay_c10(case),
        "C11" => varint::replay(case),
        "C12" => framing::replay_c12(case),
        "C13" => derived::replay_c13(case),
        "C14" => derived::replay_c14(case),
        "C15" => sinks::replay(case),
        "C16" => compressed::replay_c16(case),
        "C17" => encoding::replay_c17(case),
        "C18" => isolation::replay_c18(cx, case),
        "C19" => safety::replay_c19(case),
        other => {
            eprintln!("unknown property {other}");
            std::process::exit(2)
        }
    }
}

/// regenerates the case a worker thread was executing (crash / hang forensics): the property's own run is executed in
/// regeneration mode (see run::regen_via_run); enumerated streams have their own decoders
pub fn regen(cx: &Cx, shard: usize, stream: u64, index: u64) -> Option<Value> {
    if cx.prop == "C05" && stream == 0 {
        return faults::regen_c05(cx, shard, stream, index);
    }
    crate::run::regen_via_run(shard, stream, index, || {
        let _ = run(cx);
    })
}
