pub mod builtin;

use crate::run::{Cx, Verdict};
use crate::PropResult;
use serde_json::Value;

pub fn run(cx: &Cx) -> PropResult {
    match cx.prop {
        "C01" => builtin::run_c01(cx),
        "C04" => builtin::run_c04(cx),
        other => {
            eprintln!("unknown property {other}");
            std::process::exit(2)
        }
    }
}

pub fn replay(cx: &Cx, case: &Value) -> Verdict {
    match cx.prop {
        "C01" => builtin::replay_c01(case),
        "C04" => builtin::replay_c04(case),
        other => {
            eprintln!("unknown property {other}");
            std::process::exit(2)
        }
    }
}
