//! C05 (decoding untrusted bytes is total) and C06 (accepted input means what the format says).
use crate::alloc::measure;
use crate::props::builtin::{tv_strategy_ext, ty_strategy_ext};
use crate::props::sinks::{ops_strategy, OpsCase};
use crate::run::{drive, guarded, parallel, regen as regen_case, slot_begin, slot_end, tag_seed, to_json, Cx, Tier, Verdict};
use crate::PropResult;
use proptest::prelude::*;
use proptest::strategy::BoxedStrategy;
use serde::{Deserialize, Serialize};
use serde_json::{json, Value};
use std::sync::Arc;
use vmodel::evidence::Acc;
use vmodel::gen::{leaf_tys, root_class, ValCfg};
use vmodel::refcodec::{ref_decode, ref_encode, DecErr};
use vmodel::tamper::{apply, tops_strategy, TOp};
use vmodel::{canon, derive_seed, hash_json, hex, Ty, Val};

#[derive(Debug, Clone, Serialize, Deserialize)]
pub enum FaultCase {
    /// an input saved by a libFuzzer target (first two bytes select the type from the target's list)
    FuzzArtifact { target: String, bytes: Vec<u8> },
    Raw { ty: Ty, bytes: Vec<u8> },
    /// a valid encoding of one definition read with ANOTHER definition of the same (possibly illegally evolved)
    /// record: version `w` writes, version `r` reads; then tampered
    CrossDef { spec: vmodel::declgen::HistorySpec, w: usize, r: usize, val: Val, ops: Vec<TOp> },
    Tampered {
        ty: Ty,
        val: Val,
        ops: Vec<TOp>,
        donor: Option<Val>,
        /// form choices of the valid encoding that is tampered with (true = unknown-length form for that sequence node)
        #[serde(default)]
        forms: Vec<bool>,
    },
    Ops(OpsCase),
}

fn bytes_strategy() -> BoxedStrategy<Vec<u8>> {
    let b = prop_oneof![3 => any::<u8>(), 2 => prop::sample::select(vec![0u8, 1, 2, 0x7f, 0x80, 0xff, 0xfe, 3, 4, 5])];
    prop_oneof![
        6 => proptest::collection::vec(b.clone(), 0..12),
        3 => proptest::collection::vec(b.clone(), 12..64),
        1 => proptest::collection::vec(b, 64..600),
        1 => proptest::collection::vec(any::<u8>(), 600..4096),
    ]
    .boxed()
}

pub fn raw_strategy() -> BoxedStrategy<FaultCase> {
    prop_oneof![16 => (ty_strategy_ext(3, true), bytes_strategy()).prop_map(|(ty, bytes)| FaultCase::Raw { ty, bytes }), 2 => bad_utf8_strategy(), 2 => date_corner_strategy(), 1 => deep_strategy()].boxed()
}

/// encodings of the recursive compiled declarations nested 20-300 deep (RecTree is an evolved record: every level
/// is a chunk inside a chunk), intact, cut, or with one byte changed: well inside what the stack allows (F13 starts far
/// beyond), so the answer has to be a value or an Err
fn deep_strategy() -> BoxedStrategy<FaultCase> {
    let decls: Vec<Arc<vmodel::Decl>> = crate::props::derived::batch().specials.iter().filter(|d| ["RecTree", "RecList", "RecEnum"].contains(&d.name.as_str()) && crate::props::derived::compiled_ok(d)).cloned().collect();
    if decls.is_empty() {
        return bad_utf8_strategy();
    }
    (prop::sample::select(decls), prop_oneof![3 => 20usize..70, 1 => 70usize..300], 0u8..4, any::<u16>(), any::<u8>())
        .prop_map(|(d, depth, how, sel, x)| {
            let ty = Ty::Adt(d.clone());
            let mut bytes = vmodel::refcodec::ref_encode(&ty, &crate::props::derived::deep_value(&d.name, depth)).map(|f| f.bytes).unwrap_or_default();
            match how {
                1 => {
                    let k = vmodel::gen::pick(sel, bytes.len() + 1);
                    bytes.truncate(k)
                }
                2 if !bytes.is_empty() => {
                    let k = vmodel::gen::pick(sel, bytes.len());
                    bytes[k] ^= x | 1
                }
                _ => {}
            }
            FaultCase::Raw { ty, bytes }
        })
        .boxed()
}

/// well-formed looking dates and times at the ends of chrono's range combined with offsets that push the instant
/// over the edge (each part is acceptable on its own)
fn date_corner_strategy() -> BoxedStrategy<FaultCase> {
    let a = |t: Ty| Arc::new(t);
    let tys = vec![Ty::DtFixed, Ty::DtFixed, Ty::DtTz, Ty::DtLocal, Ty::NaiveDateTime, Ty::Option(a(Ty::DtFixed)), Ty::Vec(a(Ty::DtFixed))];
    let years = vec![-262143i32, -262142, -262144, 262142, 262143, 262141, 0, 1970];
    let offs = vec![0i32, 3600, -3600, 50_400, -50_400, 86_399, -86_399, 86_400, 1, -1];
    (prop::sample::select(tys), prop::sample::select(years), prop::sample::select(vec![(1u8, 1u8), (12, 31), (2, 29), (12, 30), (1, 2)]), prop::sample::select(vec![(0u8, 0u8, 0u8), (23, 59, 59), (23, 30, 0), (0, 30, 0), (23, 59, 60)]), prop::sample::select(vec![0u32, 999_999_999, 1_999_999_999]), prop::sample::select(offs))
        .prop_map(|(ty, y, (m, d), (h, mi, sec), nanos, off)| {
            let mut b = Vec::new();
            match &ty {
                Ty::Option(_) => b.push(1),
                Ty::Vec(_) => vmodel::refcodec::var_i32(1, &mut b),
                _ => {}
            }
            vmodel::refcodec::var_u32(y as u32, &mut b);
            b.extend_from_slice(&[m, d, h, mi, sec]);
            vmodel::refcodec::var_u32(nanos, &mut b);
            let inner = match &ty {
                Ty::Option(t) | Ty::Vec(t) => (**t).clone(),
                t => t.clone(),
            };
            match inner {
                Ty::DtFixed => {
                    b.push(0);
                    vmodel::refcodec::var_i32(off, &mut b);
                }
                Ty::DtTz => {
                    b.push(1);
                    let z = if off >= 0 { "Pacific/Kiritimati" } else { "Pacific/Pago_Pago" };
                    vmodel::refcodec::var_i32(z.len() as i32, &mut b);
                    b.extend_from_slice(z.as_bytes());
                }
                _ => {}
            }
            FaultCase::Raw { ty, bytes: b }
        })
        .boxed()
}

/// strings that are not UTF-8 (or are, but name no zone and spell no number), with a well-formed run of 0-80 bytes before the damage and multi-byte characters at
/// every offset of that run: what an error path that quotes or measures the readable part has to cope with
fn bad_utf8_strategy() -> BoxedStrategy<FaultCase> {
    let a = |t: Ty| Arc::new(t);
    let tys = vec![Ty::Str, Ty::Dedup, Ty::Option(a(Ty::Str)), Ty::Vec(a(Ty::Str)), Ty::Tuple(vec![Ty::U8, Ty::Str]), Ty::Tz, Ty::BigDecimal];
    (prop::sample::select(tys), 0usize..80, prop::sample::select(vec!["\u{e9}", "\u{20ac}", "\u{1f600}", "z"]), prop::sample::select(vec![vec![0xFFu8], vec![0xC3], vec![0x80], vec![0xE2, 0x82], vec![0xF0, 0x9F, 0x98], vec![0xED, 0xA0, 0x80], vec![], vec![]]), 0usize..6, 0usize..3)
        .prop_map(|(ty, ascii, wide, bad, tail, wides)| {
            let mut body: Vec<u8> = vec![b'a'; ascii];
            for _ in 0..=wides {
                body.extend_from_slice(wide.as_bytes());
            }
            body.extend_from_slice(&bad);
            body.extend(std::iter::repeat(b'b').take(tail));
            let mut bytes = Vec::new();
            match &ty {
                Ty::Option(_) => bytes.push(1),
                Ty::Vec(_) => vmodel::refcodec::var_i32(1, &mut bytes),
                Ty::Tuple(_) => bytes.extend_from_slice(&[0, 7]),
                // a zone is written as the type tag 1 followed by its name
                Ty::Tz => bytes.push(1),
                _ => {}
            }
            vmodel::refcodec::var_i32(body.len() as i32, &mut bytes);
            bytes.extend_from_slice(&body);
            FaultCase::Raw { ty, bytes }
        })
        .boxed()
}

pub fn tampered_strategy() -> BoxedStrategy<FaultCase> {
    let cfg = ValCfg { max_len: 5, long: false, ..ValCfg::default() };
    tv_strategy_ext(3, cfg, true)
        .prop_flat_map(move |tv| {
            let donor = prop_oneof![1 => Just(None), 1 => vmodel::gen::val_strategy(&tv.ty, cfg).prop_map(Some)];
            (Just(tv), tops_strategy(), donor, prop_oneof![3 => Just(vec![]), 1 => proptest::collection::vec(any::<bool>(), 1..8)])
        })
        .prop_map(|(tv, ops, donor, forms)| FaultCase::Tampered { ty: tv.ty, val: tv.val, ops, donor, forms })
        .boxed()
}

/// the bytes a case feeds to the decoder, and a label of what was done to them
pub fn materialize(c: &FaultCase) -> Option<(Ty, Vec<u8>, Vec<u8>, String)> {
    match c {
        FaultCase::FuzzArtifact { target, bytes } => {
            if target == "read_compressed" {
                return None;
            }
            let types = vcat::fuzz_types(target);
            let (ty, rest) = vcat::fuzz_select(&types, bytes)?;
            Some((ty.clone(), rest.to_vec(), vec![], format!("libFuzzer artifact of {target}")))
        }
        FaultCase::Raw { ty, bytes } => Some((ty.clone(), bytes.clone(), vec![], "raw bytes".into())),
        FaultCase::Tampered { ty, val, ops, donor, forms } => {
            let frag = if forms.is_empty() { ref_encode(ty, val).ok()? } else { vmodel::refcodec::ref_encode_forms(ty, val, &mut vmodel::refcodec::ScriptForms::new(forms.clone())).ok()? };
            let dfrag = donor.as_ref().and_then(|d| ref_encode(ty, d).ok());
            let (bytes, applied) = apply(&frag, ops, dfrag.as_ref());
            let label = if applied.kinds.is_empty() { "untouched".to_string() } else { applied.kinds.join(" + ") };
            Some((ty.clone(), bytes, frag.bytes, label))
        }
        FaultCase::CrossDef { spec, w, r, val, ops } => {
            let versions = vmodel::declgen::build_history_opts(spec, &vmodel::declgen::dynamic_menu(true), true);
            if *w >= versions.len() || *r >= versions.len() {
                return None;
            }
            let name = |i: usize| format!("DynX{:08x}v{i}", hash_json(spec) as u32);
            let tw = Ty::Adt(vmodel::declgen::struct_decl(&name(*w), &versions[*w]));
            let tr = Ty::Adt(vmodel::declgen::struct_decl(&name(*r), &versions[*r]));
            let frag = ref_encode(&tw, val).ok()?;
            let (bytes, applied) = apply(&frag, ops, None);
            Some((tr, bytes, frag.bytes, format!("written by version {w}, read by version {r} of a relaxed history{}", if applied.kinds.is_empty() { String::new() } else { format!(" + {}", applied.kinds.join(" + ")) })))
        }
        FaultCase::Ops(_) => None,
    }
}

pub fn crossdef_strategy() -> BoxedStrategy<FaultCase> {
    let cfg = ValCfg { max_len: 4, long: false, ..ValCfg::default() };
    (vmodel::declgen::history_spec_strategy(5, 7), any::<u16>(), any::<u16>(), prop_oneof![3 => Just(vec![]), 1 => tops_strategy()])
        .prop_flat_map(move |(spec, ws, rs, ops)| {
            let versions = vmodel::declgen::build_history_opts(&spec, &vmodel::declgen::dynamic_menu(true), true);
            let w = vmodel::gen::pick(ws, versions.len());
            let r = vmodel::gen::pick(rs, versions.len());
            let tw = Ty::Adt(vmodel::declgen::struct_decl("DynXw", &versions[w]));
            (Just(spec), Just(w), Just(r), vmodel::gen::val_strategy(&tw, cfg), Just(ops))
        })
        .prop_map(|(spec, w, r, val, ops)| FaultCase::CrossDef { spec, w, r, val, ops })
        .boxed()
}

/// Data whose header carries a "field removed" entry exactly where the reader's declaration has the step that ADDS
/// that field: the bytes are the reference encoding of the twin declaration D' (step k = FieldRemoved(n), no field n),
/// the reader is D (step k = FieldAdded(n, ..), field n present). For the reader the removal does not concern its
/// field (it is not later than the step that introduced it) and the chunk it expects is not there.
pub fn swapped_step_strategy() -> BoxedStrategy<FaultCase> {
    use vmodel::{Field, Record, Step, Val};
    let cfg = ValCfg { max_len: 4, long: false, ..ValCfg::default() };
    // (built, not filtered: a history without a usable step falls back to a fixed declaration)
    let fallback = || Record { fields: vec![Field::new("a", Ty::U8), Field { name: "x".into(), ty: Ty::Option(Arc::new(Ty::U8)), transient: None, opt_spelling: 0 }], steps: vec![Step::Added { name: "x".into(), default: Val::None }] };
    (vmodel::declgen::history_spec_strategy(4, 6), any::<u16>(), any::<u16>())
        .prop_map(move |(spec, vs, ks)| {
            let versions = vmodel::declgen::build_history(&spec, &vmodel::declgen::dynamic_menu(false));
            let usable = |r: &Record, i: usize| match &r.steps[i] {
                Step::Added { name, .. } => r.fields.iter().any(|f| &f.name == name && f.transient.is_none()) && !r.steps[i + 1..].iter().any(|s| matches!(s, Step::MadeOptional { name: n } | Step::Removed { name: n } | Step::MadeTransient { name: n } if n == name)),
                _ => false,
            };
            let cands: Vec<(usize, usize)> = versions.iter().enumerate().flat_map(|(vi, r)| (0..r.steps.len()).filter(|i| usable(r, *i)).map(|i| (vi, i)).collect::<Vec<_>>()).collect();
            let (d, k) = if cands.is_empty() {
                (fallback(), 0)
            } else {
                let (vi, k) = cands[(vs as usize * 31 + ks as usize) % cands.len()];
                (versions[vi].clone(), k)
            };
            let name = match &d.steps[k] {
                Step::Added { name, .. } => name.clone(),
                _ => unreachable!(),
            };
            let mut twin = d.clone();
            twin.steps[k] = Step::Removed { name: name.clone() };
            twin.fields.retain(|f| f.name != name);
            (d, twin)
        })
        .prop_flat_map(move |(d, twin)| {
            let tw = Ty::Adt(vmodel::declgen::struct_decl("DynSwT", &twin));
            (Just(d), Just(tw.clone()), vmodel::gen::val_strategy(&tw, cfg))
        })
        .prop_map(|(d, tw, val)| {
            // (a value the reference encoder refuses leaves the reader with an empty input)
            let bytes = ref_encode(&tw, &val).map(|f| f.bytes).unwrap_or_default();
            let h = vmodel::fnv64(format!("{d:?}").as_bytes()) as u32;
            FaultCase::Raw { ty: Ty::Adt(vmodel::declgen::struct_decl(&format!("DynSw{h:08x}"), &d)), bytes }
        })
        .boxed()
}

// ------------------------------------------------------------------------------------------------ C05

/// how many elements the *type* (not the input) can demand per input byte: a fixed-size array [T; N] of elements
/// with an empty encoding is N elements for the one byte of its count, and nesting multiplies
fn array_factor(t: &Ty, seen: &mut Vec<String>) -> usize {
    use Ty::*;
    match t {
        Array(e, n) => (*n).max(1).saturating_mul(array_factor(e, seen)),
        Option(a) | Vec(a) | LinkedList(a) | HashSet(a) | BTreeSet(a) | Box(a) | Rc(a) | Arc(a) => array_factor(a, seen),
        Result(a, b) | HashMap(a, b) | BTreeMap(a, b) => array_factor(a, seen).max(array_factor(b, seen)),
        Tuple(ts) => ts.iter().map(|t| array_factor(t, seen)).max().unwrap_or(1),
        Adt(d) => {
            if seen.contains(&d.name) {
                return 1;
            }
            seen.push(d.name.clone());
            let fields: std::vec::Vec<&vmodel::Field> = match &d.body {
                vmodel::DeclBody::Struct(r) => r.fields.iter().collect(),
                vmodel::DeclBody::Enum { variants, .. } => variants.iter().flat_map(|v| v.record.fields.iter()).collect(),
            };
            fields.iter().map(|f| array_factor(&f.ty, seen)).max().unwrap_or(1)
        }
        _ => 1,
    }
}

fn alloc_bounds(ty: &Ty, n: usize) -> (usize, usize) {
    let s = vcat::LIVE_SIZE;
    let a = array_factor(ty, &mut Vec::new());
    ((64 << 10) + (32 * s + 256) * (n + 1) * a, (64usize << 10).max(2 * s * (n + 1) * a))
}

/// decodes `bytes` as `ty` under the allocation counters; Err(description) on a C05 violation
fn total_decode(ty: &Ty, bytes: &[u8]) -> Result<bool, String> {
    vcat::prepare(ty);
    let (res, stats) = measure(|| guarded(|| vcat::decode_only(ty, bytes).is_ok()));
    let (peak_bound, req_bound) = alloc_bounds(ty, bytes.len());
    if stats.max_request > req_bound {
        return Err(format!("decoding {} bytes as {} made a single allocation request of {} bytes (bound {}): input {}", bytes.len(), ty.render(), stats.max_request, req_bound, hex(&bytes[..bytes.len().min(64)])));
    }
    if stats.peak > peak_bound {
        return Err(format!("decoding {} bytes as {} held {} bytes of heap at peak (bound {}): input {}", bytes.len(), ty.render(), stats.peak, peak_bound, hex(&bytes[..bytes.len().min(64)])));
    }
    match res {
        Ok(ok) => Ok(ok),
        Err(p) => Err(format!("decoding {} as {} panicked: {p}", hex(&bytes[..bytes.len().min(64)]), ty.render())),
    }
}

pub fn check_c05(c: &FaultCase, acc: &mut Acc, record: bool) -> Verdict {
    if let FaultCase::Ops(o) = c {
        // the low-level readers: any requested length that does not fit is rejected, never an overflow / panic
        return match guarded(|| crate::props::sinks::check_ops(o, &mut Acc::new(), false)) {
            Ok(_) => {
                if record {
                    acc.case("BinaryInput op sequence", hash_json(o), true);
                }
                Verdict::Pass
            }
            Err(p) => Verdict::Fail(format!("a BinaryInput method panicked: {p} (data {}, ops {:?})", hex(&o.data), o.ops)),
        };
    }
    let (ty, bytes, _orig, label) = match materialize(c) {
        Some(x) => x,
        None => return Verdict::Skip,
    };
    // structural pre-pass of the reference decoder: known finding F12 is excluded by construction
    let pre = ref_decode(&ty, &bytes);
    match &pre {
        Err(DecErr::ZeroWidthFlood(_)) => {
            if record {
                acc.exclude("F12: sequence of zero-width elements with a count above 256");
            }
            return Verdict::Skip;
        }
        Err(DecErr::TooDeep) => {
            if record {
                acc.exclude("F13: nesting deeper than the model follows");
            }
            return Verdict::Skip;
        }
        _ => {}
    }
    if record {
        let valid = matches!(&pre, Ok((_, used)) if *used == bytes.len());
        let class = format!("{} / {}", match c { FaultCase::Raw { .. } => "raw", FaultCase::CrossDef { .. } => "other definition", _ => "tampered" }, root_class(&ty));
        acc.case(&class, hash_json(&(&ty, &bytes)), !valid && !bytes.is_empty());
        if !valid && acc.wants_sample(&class) {
            acc.sample(&class, json!({"type": ty.render(), "input_hex": hex(&bytes[..bytes.len().min(80)]), "fault": label, "reference_decoder": format!("{:?}", pre.as_ref().map(|(v, n)| (v.brief(), *n)))}));
        }
    }
    match total_decode(&ty, &bytes) {
        Ok(_) => Verdict::Pass,
        Err(e) => Verdict::Fail(e),
    }
}

pub use vmodel::typelists::exhaustive_types;

fn nth_bytes(mut i: u64, max_len: u32) -> Vec<u8> {
    // enumeration order: length 0, then all of length 1, then length 2, ...
    let mut len = 0u32;
    let mut block = 1u64;
    while len <= max_len {
        if i < block {
            let mut out = vec![0u8; len as usize];
            for k in (0..len as usize).rev() {
                out[k] = (i & 0xff) as u8;
                i >>= 8;
            }
            return out;
        }
        i -= block;
        block *= 256;
        len += 1;
    }
    panic!("index beyond the enumeration");
}

fn space(max_len: u32) -> u64 {
    (0..=max_len).map(|l| 256u64.pow(l)).sum()
}

fn exhaustive_len(cx: &Cx) -> u32 {
    if cx.tier == Tier::Thorough && cx.profile == "release" {
        3
    } else {
        2
    }
}

fn run_exhaustive(cx: &Cx, shard: usize, acc: &mut Acc) -> bool {
    let tys = exhaustive_types();
    let max_len = exhaustive_len(cx);
    let per = space(max_len);
    for (ti, ty) in tys.iter().enumerate() {
        if ti % cx.shards != shard {
            continue;
        }
        // length 3 only for leaves and one-level types (the rest at length 2)
        let (ml, n) = if max_len == 3 && ty.depth() > 1 { (2, space(2)) } else { (max_len, per) };
        let mut nontrivial = 0u64;
        for i in 0..n {
            slot_begin(0, ti as u64 * space(3) + i);
            let bytes = nth_bytes(i, ml);
            if let Err(DecErr::ZeroWidthFlood(_)) = ref_decode(ty, &bytes) {
                acc.exclude("F12: sequence of zero-width elements with a count above 256");
                continue;
            }
            match total_decode(ty, &bytes) {
                Ok(ok) => {
                    if !ok {
                        nontrivial += 1
                    }
                }
                Err(e) => {
                    acc.violation(e, to_json(&FaultCase::Raw { ty: ty.clone(), bytes }));
                    slot_end();
                    return true;
                }
            }
        }
        slot_end();
        acc.evaluations += n;
        *acc.classes.entry(format!("exhaustive <= {ml} bytes / {}", root_class(ty))).or_insert(0) += n;
        acc.nontrivial_enumerated += nontrivial;
        acc.bump("exhaustive_types", 1);
    }
    false
}

fn c05_strategy(stream: u64) -> BoxedStrategy<FaultCase> {
    match stream {
        1 => raw_strategy(),
        2 => tampered_strategy(),
        4 => crossdef_strategy(),
        _ => ops_strategy().prop_map(FaultCase::Ops).boxed(),
    }
}

pub fn run_c05(cx: &Cx) -> PropResult {
    let n_raw = cx.n(16_000, 600_000);
    let n_tam = cx.n(30_000, 1_000_000);
    let n_ops = cx.n(12_000, 300_000);
    let acc = parallel(cx, &|shard, acc| {
        if run_exhaustive(cx, shard, acc) {
            return;
        }
        for (stream, n) in [(1u64, n_raw), (2, n_tam), (3, n_ops), (4, n_raw)] {
            let strat = c05_strategy(stream);
            if drive(tag_seed(derive_seed(cx.seed, cx.prop, shard as u64, stream), stream), &strat, n, acc, &|c: &FaultCase| to_json(c), &mut |c, a, r| check_c05(c, a, r)) {
                return;
            }
        }
    });
    let ml = exhaustive_len(cx);
    let mut acc = acc;
    reduce_fault_violations(&mut acc, &|c, a, r| check_c05(c, a, r));
    let mut r = PropResult::new(
        acc,
        "fault_enumeration",
        "inputs: (a) EVERY byte string of length <= 2 (thorough, release profile: <= 3 for leaf and one-level types) for a fixed list of types covering every leaf, every constructor and hand-written derived declarations with every evolution step kind (exhaustive for that sub-space); (b) random byte strings up to 4 KiB (length skewed short) against generated types incl. derived/evolved declarations; (c) structure-aware tampering of valid encodings — in the writer's form or, for a quarter of the cases, with sequence nodes in unknown-length form — (1-3 composed operators on the reference encoder's site map: rewrite a chunk size / count / length / constructor index / back-reference to 0, 1, v+-1, 2v, -1..-4, i32::MIN, i32::MAX, u32::MAX; replace version / tag / flag / position bytes; delete, duplicate, swap, splice element and chunk ranges; truncate; append; bit flips; over-long varints); (d) generated op sequences on SliceInput / OwnedInput / DeserializationContext with adversarial counts (usize::MAX, usize::MAX - pos, remaining +- 2). Oracle: Ok or Err — no unwind (catch_unwind), no process death or hang (supervisor watches the slot file: a case running > 90 s is re-run alone twice), and under a tracking allocator peak live heap <= 64 KiB + (32*S+256)*(n+1)*A (a B-tree leaf holds 11 slots however few elements it has) and no single request above max(64 KiB, 2*S*(n+1)*A) for input length n, S = size_of of the harness element type, A = product of the nested fixed-size array lengths of the type (an array of empty-encoded elements is N elements for one count byte, by type, not by input). Both the overflow-checked and the release profile are run. Non-trivial = the input is not a valid encoding of the type (per the reference decoder) and is non-empty. Also: encodings of the recursive compiled declarations nested 20-300 deep (intact, cut, one byte changed), and well-formed long texts that name no zone / spell no number with multi-byte characters at every offset.",
    );
    r.exhaustive = Some(true);
    r.extra = json!({"exhaustive_max_len": ml, "exhaustive_note": "exhaustive refers to sub-space (a); (b)-(d) are sampled", "element_size_S": vcat::LIVE_SIZE});
    r.assumptions = vec![
        "known finding F12 (zero-width element floods) and F13 (unbounded recursion on recursive declarations) are excluded by construction and counted".into(),
        "hang detection uses wall-clock only to trigger a re-run; a case is reported as a hang only if it exceeds the limit again alone, twice".into(),
    ];
    known_findings_c05(&mut r, cx);
    r
}

/// DESIGN section 6: the recorded defects are re-exhibited on every run so that a silent repair or a change of
/// behaviour is noticed; they never fail the check
fn known_findings_c05(r: &mut PropResult, cx: &Cx) {
    // F20: every back-reference to a deduplicated string materialises a copy of it: a Vec<DeduplicatedString> of one
    // string of L bytes and k one-byte back-references holds k*L bytes for an input of L+k bytes. Witness L = k = 20 000.
    {
        let (l, k) = (20_000usize, 20_000usize);
        let mut bytes = Vec::new();
        vmodel::refcodec::var_i32(k as i32 + 1, &mut bytes);
        vmodel::refcodec::var_i32(l as i32, &mut bytes);
        bytes.extend(std::iter::repeat(b'x').take(l));
        for _ in 0..k {
            vmodel::refcodec::var_i32(-1, &mut bytes);
        }
        let ty = Ty::Vec(Arc::new(Ty::Dedup));
        vcat::prepare(&ty);
        let (res, stats) = crate::alloc::measure(|| guarded(|| vcat::decode_only(&ty, &bytes).map(|_| ())));
        let (peak_bound, _) = alloc_bounds(&ty, bytes.len());
        if matches!(res, Ok(Ok(()))) && stats.peak > peak_bound {
            r.lines.push(format!("KNOWN-FINDING: property=C05 F20 Vec<DeduplicatedString> decoded from {} bytes (one string of {l} bytes, {k} back-references) holds {} bytes of heap at peak (profile {}; linear bound {peak_bound}): each back-reference materialises a copy, so memory grows with the product of string length and reference count, not with the input length", bytes.len(), stats.peak, cx.profile));
            *r.acc.known.entry("F20".into()).or_insert(0) += 1;
        }
    }
    // F26: a BigDecimal with a huge exponent as element of a hash container: bigdecimal's Hash impl materialises the
    // trailing zeros, the allocation of 9 * 10^18 bytes fails and the process aborts. In a child process of its own.
    if cx.shards > 0 {
        if let Ok(exe) = std::env::current_exe() {
            if let Ok(out) = std::process::Command::new(exe).env("VCHECK_F26_WITNESS", "1").output() {
                let err = String::from_utf8_lossy(&out.stderr).to_string();
                let said = String::from_utf8_lossy(&out.stdout).to_string();
                if !out.status.success() && err.contains("memory allocation of") {
                    r.lines.push(format!(
                        "KNOWN-FINDING: property=C05 F26 HashSet<BigDecimal> decoded from the 23-byte input 02 2a \"1e9000000000000000000\" ends the process ({}; profile {}): hashing the decoded number materialises its exponent",
                        err.lines().find(|l| l.contains("memory allocation of")).unwrap_or("").trim(),
                        crate::PROFILE
                    ));
                    *r.acc.known.entry("F26".into()).or_insert(0) += 1;
                } else if !out.status.success() {
                    r.acc.violation(format!("HashSet<BigDecimal> decoded from 02 2a \"1e9000000000000000000\" ends the process in another way than F26 describes: {:?} {}", out.status, err.chars().take(300).collect::<String>()), json!({"special": "F26 witness"}));
                } else if !said.contains("survived") {
                    r.acc.violation(format!("F26 witness child said {said:?}"), json!({"special": "F26 witness"}));
                }
            }
        }
    }
    // F13: one stack frame (several, in fact) per nesting level of a recursive declaration and no depth limit: input
    // nested deeper than the thread's stack allows ends the process. In a child process of its own.
    if let Ok(exe) = std::env::current_exe() {
        if let Ok(out) = std::process::Command::new(exe).env("VCHECK_F13_WITNESS", "1").output() {
            let err = String::from_utf8_lossy(&out.stderr).to_string();
            let said = String::from_utf8_lossy(&out.stdout).to_string();
            if !out.status.success() && err.contains("overflowed its stack") {
                r.lines.push(format!("KNOWN-FINDING: property=C05 F13 RecList {{ v: u8, next: Option<Box<RecList>> }} decoded from 600 003 bytes nested 200 000 deep on a 2 MiB stack ends the process (stack overflow; profile {}): recursion depth follows the input, without a limit", crate::PROFILE));
                *r.acc.known.entry("F13".into()).or_insert(0) += 1;
            } else if !out.status.success() {
                r.acc.violation(format!("the F13 witness ends the process in another way than F13 describes: {:?} {}", out.status, err.chars().take(300).collect::<String>()), json!({"special": "F13 witness"}));
            } else if !said.contains("survived") {
                r.acc.violation(format!("F13 witness child said {said:?}"), json!({"special": "F13 witness"}));
            }
        }
    }
    // F12: Vec<()> with a large non-negative count iterates count times without consuming input. Witness: a count
    // large enough to be measurable but harmless (2^22 iterations).
    let mut bytes = Vec::new();
    vmodel::refcodec::var_i32(1 << 22, &mut bytes);
    let t0 = std::time::Instant::now();
    let res = guarded(|| vcat::decode(&Ty::Vec(Arc::new(Ty::Unit)), &bytes));
    let dt = t0.elapsed();
    if let Ok(Ok(Val::Seq(xs))) = &res {
        if xs.len() == 1 << 22 {
            r.lines.push(format!("KNOWN-FINDING: property=C05 F12 Vec<()> decodes {} elements from a {}-byte input ({} ms, profile {}): work is not bounded by the input length for zero-width element types", xs.len(), bytes.len(), dt.as_millis(), cx.profile));
            *r.acc.known.entry("F12".into()).or_insert(0) += 1;
        }
    }
}

pub fn replay_c05(case: &Value) -> Verdict {
    let c: FaultCase = serde_json::from_value(case.clone()).expect("replay case");
    match check_c05(&c, &mut Acc::new(), false) {
        Verdict::Pass | Verdict::Skip => replay_under_sanitizer(&c),
        f => f,
    }
}

/// a libFuzzer artifact that passes the in-process oracle may still be a sanitizer-only finding: run the ASan binary
pub fn replay_under_sanitizer(c: &FaultCase) -> Verdict {
    if let FaultCase::FuzzArtifact { target, bytes } = c {
        let exe = std::env::current_exe().expect("exe");
        let bin = exe.parent().unwrap().parent().unwrap().parent().unwrap().join("fuzz/target/x86_64-unknown-linux-gnu/release").join(target);
        if bin.exists() {
            let tmp = crate::out_root().join("work").join(format!("artifact-{}", std::process::id()));
            std::fs::create_dir_all(tmp.parent().unwrap()).ok();
            std::fs::write(&tmp, bytes).ok();
            let st = std::process::Command::new(&bin).arg(&tmp).env("ASAN_OPTIONS", "detect_odr_violation=0").output();
            std::fs::remove_file(&tmp).ok();
            if let Ok(o) = st {
                if !o.status.success() {
                    let err = String::from_utf8_lossy(&o.stderr);
                    let line = err.lines().find(|l| l.contains("ERROR") || l.contains("panicked") || l.contains("C06")).unwrap_or("sanitizer / fuzz target failure").to_string();
                    return Verdict::Fail(format!("the libFuzzer target {target} fails on this input: {line}"));
                }
            }
        }
    }
    Verdict::Pass
}

pub fn regen_c05(cx: &Cx, shard: usize, stream: u64, index: u64) -> Option<Value> {
    if stream == 0 {
        let tys = exhaustive_types();
        let ti = (index / space(3)) as usize;
        let i = index % space(3);
        let ty = tys.get(ti)?.clone();
        let ml = if exhaustive_len(cx) == 3 && ty.depth() <= 1 { 3 } else { 2 };
        return Some(to_json(&FaultCase::Raw { ty, bytes: nth_bytes(i, ml) }));
    }
    let strat = c05_strategy(stream);
    Some(to_json(&regen_case(tag_seed(derive_seed(cx.seed, cx.prop, shard as u64, stream), stream), &strat, index)))
}

// ------------------------------------------------------------------------------------------------ C06

pub fn check_c06(c: &FaultCase, acc: &mut Acc, record: bool) -> Verdict {
    let (ty, bytes, orig, label) = match materialize(c) {
        Some(x) => x,
        None => return Verdict::Skip,
    };
    let reference = ref_decode(&ty, &bytes);
    if let Err(DecErr::ZeroWidthFlood(_)) | Err(DecErr::TooDeep) = &reference {
        if record {
            acc.exclude("F12/F13: outside the quantifier of C05, not fed to the decoder");
        }
        return Verdict::Skip;
    }
    let real = match guarded(|| vcat::decode(&ty, &bytes)) {
        Ok(r) => r,
        Err(_) => {
            // a panic is C05's business; here it is simply "not accepted"
            if record {
                acc.bump("decoder_panicked_(reported_by_C05)", 1);
            }
            return Verdict::Pass;
        }
    };
    if record {
        let tampered = bytes != orig;
        let outcome = match (&real, &reference) {
            (Ok(_), Ok(_)) => "accepted by both",
            (Err(_), Err(_)) => "rejected by both",
            (Err(_), Ok(_)) => "rejected by desert, accepted by the reference (stricter than required: not a C06 matter)",
            (Ok(_), Err(_)) => "accepted by desert only",
        };
        let class = format!("{} / {}", match c { FaultCase::Raw { .. } => "raw", FaultCase::CrossDef { .. } => "other definition", _ => "tampered" }, outcome);
        acc.case(&class, hash_json(&(&ty, &bytes)), tampered && real.is_ok());
        if real.is_err() && reference.is_err() {
            acc.bump("faulty_inputs_rejected_by_both", 1);
        }
        if tampered && acc.wants_sample(&class) {
            acc.sample(&class, json!({"type": ty.render(), "fault": label, "original_hex": hex(&orig[..orig.len().min(48)]), "input_hex": hex(&bytes[..bytes.len().min(48)]), "desert": format!("{:?}", real.as_ref().map(|v| v.brief()).map_err(|e| e.kind.clone())), "reference": format!("{:?}", reference.as_ref().map(|(v, _)| v.brief()))}));
        }
    }
    match (real, reference) {
        (Ok(v), Ok((rv, _))) => {
            if canon(&ty, &v) == canon(&ty, &rv) {
                Verdict::Pass
            } else {
                Verdict::Fail(format!("input {} ({label}) decoded as {} to {} but the format assigns it {}", hex(&bytes), ty.render(), v.brief(), rv.brief()))
            }
        }
        (Ok(v), Err(e)) => Verdict::Fail(format!("input {} ({label}; original encoding {}) was accepted as {} = {} although its framing is inconsistent: {e:?}", hex(&bytes), hex(&orig), ty.render(), v.brief())),
        (Err(_), _) => Verdict::Pass,
    }
}

fn c06_strategy(stream: u64) -> BoxedStrategy<FaultCase> {
    match stream {
        1 => raw_strategy(),
        3 => crossdef_strategy(),
        4 => swapped_step_strategy(),
        _ => tampered_strategy(),
    }
}

pub fn run_c06(cx: &Cx) -> PropResult {
    let n_raw = cx.n(12_000, 400_000);
    let n_tam = cx.n(50_000, 1_500_000);
    let acc = parallel(cx, &|shard, acc| {
        for (stream, n) in [(1u64, n_raw), (2, n_tam), (3, n_tam / 2), (4, n_tam / 10)] {
            let strat = c06_strategy(stream);
            if drive(tag_seed(derive_seed(cx.seed, cx.prop, shard as u64, stream), stream), &strat, n, acc, &|c: &FaultCase| to_json(c), &mut |c, a, r| check_c06(c, a, r)) {
                return;
            }
        }
    });
    let mut acc = acc;
    reduce_fault_violations(&mut acc, &|c, a, r| check_c06(c, a, r));
    let mut r = PropResult::new(
        acc,
        "fault_enumeration",
        "inputs: structure-aware tamperings (as C05 (c)) of valid reference encodings of generated (type, value) pairs — built-in types and derived declarations with evolution headers at top level and embedded in Vec / tuple / Option / map — plus raw byte strings, plus valid encodings of one definition read with another definition of the same record taken from a *relaxed* history (removals may hit any field, so readers meet header / layout combinations that legal histories never produce), optionally tampered. Oracle (implication only): desert::deserialize(t(e)) == Ok(v) implies ref_decode(T, t(e)) == Ok(v), ref_decode being the strict reference decoder with exactly the leniencies of DESIGN section 4.5; Err-vs-Ok is logged, not failed. Non-trivial = the bytes differ from the original encoding and desert accepted them; coverage.counters.faulty_inputs_rejected_by_both counts the rest.",
    );
    r.assumptions = vec!["the reference decoder is at least as lenient as the format requires (DESIGN section 4.5) — a discrepancy found here is triaged as model gap or defect before anything is reported".into()];
    r
}

pub fn replay_c06(case: &Value) -> Verdict {
    let c: FaultCase = serde_json::from_value(case.clone()).expect("replay case");
    match check_c06(&c, &mut Acc::new(), false) {
        Verdict::Pass | Verdict::Skip => replay_under_sanitizer(&c),
        f => f,
    }
}

pub fn regen_c06(cx: &Cx, shard: usize, stream: u64, index: u64) -> Option<Value> {
    let strat = c06_strategy(stream);
    Some(to_json(&regen_case(tag_seed(derive_seed(cx.seed, cx.prop, shard as u64, stream), stream), &strat, index)))
}

/// seed corpus for a libFuzzer target: valid encodings of sampled values of every type of the target's list, each
/// prefixed with the two selector bytes of its type (DESIGN section 5.5 (e))
pub fn export_corpus(target: &str, dir: &std::path::Path, seed: u64) {
    std::fs::create_dir_all(dir).expect("corpus dir");
    if target == "read_compressed" {
        use desert::BinaryOutput;
        for (i, d) in [vec![], vec![7u8; 300], (0..=255u8).collect::<Vec<u8>>(), b"the quick brown fox ".repeat(40)].iter().enumerate() {
            for level in [0u32, 1, 6, 9] {
                let mut o = Vec::new();
                o.write_compressed(d, flate2::Compression::new(level)).unwrap();
                std::fs::write(dir.join(format!("frame-{i}-{level}")), &o).unwrap();
            }
        }
        return;
    }
    let types = vcat::fuzz_types(target);
    let cfg = ValCfg { max_len: 4, long: false, ..ValCfg::default() };
    let mut n = 0;
    for (i, ty) in types.iter().enumerate() {
        for k in 0..3u64 {
            let v = vmodel::declgen::sample_val(ty, cfg, seed ^ (k * 0x9e37) ^ (i as u64) << 20);
            if let Ok(f) = ref_encode(ty, &v) {
                let mut file = (i as u16).to_le_bytes().to_vec();
                file.extend_from_slice(&f.bytes);
                std::fs::write(dir.join(format!("seed-{i}-{k}")), &file).unwrap();
                n += 1;
            }
        }
    }
    eprintln!("exported {n} seed inputs for {target}");
}

/// walks a failing tampered case down to the smallest sub-term (type, value) that still fails under the same
/// operators (proptest cannot shrink the type of a flat-mapped case)
pub fn reduce_fault_violations(acc: &mut Acc, check: &dyn Fn(&FaultCase, &mut Acc, bool) -> Verdict) {
    use crate::props::builtin::{reduce_tv, TV};
    for v in acc.violations.iter_mut() {
        if let Ok(FaultCase::Tampered { ty, val, ops, donor, forms }) = serde_json::from_value::<FaultCase>(v.replay.clone()) {
            let fails = |t: &TV| {
                let c = FaultCase::Tampered { ty: t.ty.clone(), val: t.val.clone(), ops: ops.clone(), donor: None, forms: forms.clone() };
                match guarded(|| check(&c, &mut Acc::new(), false)) {
                    Ok(Verdict::Fail(m)) => Some(m),
                    Ok(_) => None,
                    Err(p) => Some(format!("panic: {p}")),
                }
            };
            let _ = donor;
            let start = TV { ty: ty.clone(), val: val.clone(), forms: vec![] };
            // only reduce when the case still fails without the donor (splices need it)
            if fails(&start).is_some() {
                let (small, msg) = reduce_tv(start, v.what.clone(), &fails);
                v.what = msg;
                v.replay = to_json(&FaultCase::Tampered { ty: small.ty, val: small.val, ops: ops.clone(), donor: None, forms: forms.clone() });
            }
        }
    }
}
