//! C10: reference tracking preserves object-graph shape, sharing and cycles.
use crate::run::{drive, guarded, parallel, tag_seed, to_json, Cx, Tier, Verdict};
use crate::PropResult;
use desert::{BinaryInput, BinaryOutput, DeserializationContext, SerializationContext};
use proptest::prelude::*;
use proptest::strategy::BoxedStrategy;
use serde::{Deserialize, Serialize};
use serde_json::{json, Value};
use std::cell::RefCell;
use std::rc::{Rc, Weak};
use vmodel::evidence::Acc;
use vmodel::refcodec::var_u32;
use vmodel::{derive_seed, hash_json, hex};

/// node i has label labels[i] and ordered out-edges edges[i]; node 0 is the root
#[derive(Debug, Clone, Serialize, Deserialize, PartialEq)]
pub struct Graph {
    pub labels: Vec<u32>,
    pub edges: Vec<Vec<usize>>,
}

#[derive(Debug, Clone, Serialize, Deserialize)]
pub struct GraphCase {
    pub g: Graph,
    /// true: the codec also offers each node's embedded header (a distinct object of another type that lives at the
    /// node's own address) to the stream
    #[serde(default)]
    pub tracked_header: bool,
    /// true: every node body also carries a DeduplicatedString tag (one of four, chosen by the label), so that string
    /// ids and object numbers are assigned in the same stream
    #[serde(default)]
    pub tagged: bool,
    /// true: nodes whose label is a multiple of 3 also offer one shared zero-sized sentinel object
    #[serde(default)]
    pub sentinel: bool,
    /// true: the edge lists go through the library's own sequence codec, written from an iterator that does not know
    /// its length (marker-per-element form) and read as a Vec of node slots
    #[serde(default)]
    pub seq: bool,
    /// which reference site to corrupt (fault part) and how
    pub fault_sel: u16,
    pub fault_kind: u8,
}

/// codec flavour
#[derive(Clone, Copy)]
pub struct Fl {
    pub th: bool,
    pub tag: bool,
    /// every third node also offers one shared zero-sized object (a sentinel living in an Rc of its own)
    pub zst: bool,
    /// edge lists through serialize_iterator (unknown length) / Vec::deserialize
    pub seq: bool,
}

/// element of an edge list written through the library's sequence codec
struct SeqSlotW(Rc<GNode>, Fl);
impl desert::BinarySerializer for SeqSlotW {
    fn serialize<O: BinaryOutput>(&self, ctx: &mut SerializationContext<O>) -> desert::Result<()> {
        ser_slot(&self.0, ctx, self.1)
    }
}
struct SeqSlotR(Rc<GNode>);
thread_local! {
    static SEQ_FL: std::cell::Cell<(bool, bool, bool)> = const { std::cell::Cell::new((false, false, false)) };
    static SEQ_DECODED: RefCell<Vec<Rc<GNode>>> = const { RefCell::new(Vec::new()) };
}
impl desert::BinaryDeserializer for SeqSlotR {
    fn deserialize(ctx: &mut DeserializationContext<'_>) -> desert::Result<Self> {
        let (th, tag, zst) = SEQ_FL.with(|f| f.get());
        let mut mine = Vec::new();
        let r = de_slot(ctx, &mut mine, 1, Fl { th, tag, zst, seq: true });
        SEQ_DECODED.with(|d| d.borrow_mut().extend(mine));
        r.map(SeqSlotR)
    }
}

/// a tracked object without any size
pub struct Marker;

thread_local! {
    static MARKER_W: RefCell<Option<Rc<Marker>>> = const { RefCell::new(None) };
    static MARKER_R: RefCell<Vec<Rc<Marker>>> = const { RefCell::new(Vec::new()) };
}

fn tag_of(label: u32) -> &'static str {
    ["", "n", "node-\u{3b2}", "a longer tag that is not short"][(label % 4) as usize]
}

/// first field of a node: a distinct object of a different type at the node's own address
pub struct Head {
    pub label: u32,
}

#[repr(C)]
pub struct GNode {
    pub head: Head,
    pub me: Weak<GNode>,
    pub edges: RefCell<Vec<Rc<GNode>>>,
}

fn build(g: &Graph) -> Vec<Rc<GNode>> {
    let nodes: Vec<Rc<GNode>> = g.labels.iter().map(|l| Rc::new_cyclic(|w| GNode { head: Head { label: *l }, me: w.clone(), edges: RefCell::new(vec![]) })).collect();
    for (i, es) in g.edges.iter().enumerate() {
        *nodes[i].edges.borrow_mut() = es.iter().map(|t| nodes[*t].clone()).collect();
    }
    nodes
}

fn unlink(nodes: &[Rc<GNode>]) {
    // break cycles so that the graph is freed
    for n in nodes {
        n.edges.borrow_mut().clear();
    }
}

// ---- the user codec: identity offered to the stream is the node address, on both sides, all in safe code

fn ser_slot<O: BinaryOutput>(node: &Rc<GNode>, ctx: &mut SerializationContext<O>, fl: Fl) -> desert::Result<()> {
    if ctx.store_ref_or_object(&**node)? {
        if fl.th {
            if ctx.store_ref_or_object(&node.head)? {
                ctx.write_u32(node.head.label);
            }
        } else {
            ctx.write_u32(node.head.label);
        }
        if fl.tag {
            desert::BinarySerializer::serialize(&desert::DeduplicatedString(tag_of(node.head.label).to_string()), ctx)?;
        }
        if fl.zst && node.head.label % 3 == 0 {
            let m = MARKER_W.with(|m| m.borrow_mut().get_or_insert_with(|| Rc::new(Marker)).clone());
            // nothing to write for a new one: the marker byte is all there is
            ctx.store_ref_or_object(&*m)?;
        }
        let edges = node.edges.borrow();
        if fl.seq {
            // (a filter hides the length: the library writes the marker-per-element form, or a plain 0 when the
            // iterator knows that it is empty)
            let mut it = edges.iter().filter(|_| true).map(|c| SeqSlotW(c.clone(), fl));
            desert::serialize_iterator(&mut it, ctx)?;
        } else {
            ctx.write_var_u32(edges.len() as u32);
            for child in edges.iter() {
                ser_slot(child, ctx, fl)?;
            }
        }
    }
    Ok(())
}

fn de_slot(ctx: &mut DeserializationContext<'_>, all: &mut Vec<Rc<GNode>>, depth: usize, fl: Fl) -> desert::Result<Rc<GNode>> {
    if depth > 5000 {
        return Err(desert::Error::DeserializationFailure("graph nesting too deep for the harness".into()));
    }
    match ctx.try_read_ref()? {
        Some(any) => {
            let g = any.downcast_ref::<GNode>().ok_or_else(|| desert::Error::DeserializationFailure("reference to a foreign object".into()))?;
            g.me.upgrade().ok_or_else(|| desert::Error::DeserializationFailure("dead node".into()))
        }
        None => {
            let label = if fl.th {
                match ctx.try_read_ref()? {
                    // a header is never shared between nodes: a reference here can only come from damaged input
                    Some(any) => any.downcast_ref::<Head>().map(|h| h.label).ok_or_else(|| desert::Error::DeserializationFailure("header slot refers to a foreign object".into()))?,
                    None => ctx.read_u32()?,
                }
            } else {
                ctx.read_u32()?
            };
            let node = Rc::new_cyclic(|w| GNode { head: Head { label }, me: w.clone(), edges: RefCell::new(vec![]) });
            all.push(node.clone());
            ctx.state_mut().store_ref(&*node);
            if fl.th {
                ctx.state_mut().store_ref(&node.head);
            }
            if fl.tag {
                let t = <desert::DeduplicatedString as desert::BinaryDeserializer>::deserialize(ctx)?;
                if t.0 != tag_of(label) {
                    return Err(desert::Error::DeserializationFailure(format!("node {label} carries the tag {:?} instead of {:?}", t.0, tag_of(label))));
                }
            }
            if fl.zst && label % 3 == 0 {
                match ctx.try_read_ref()? {
                    Some(any) => {
                        any.downcast_ref::<Marker>().ok_or_else(|| desert::Error::DeserializationFailure("marker slot refers to a foreign object".into()))?;
                    }
                    None => {
                        let m = Rc::new(Marker);
                        ctx.state_mut().store_ref(&*m);
                        MARKER_R.with(|v| v.borrow_mut().push(m));
                    }
                }
            }
            if fl.seq {
                SEQ_FL.with(|f| f.set((fl.th, fl.tag, fl.zst)));
                let kids = <Vec<SeqSlotR> as desert::BinaryDeserializer>::deserialize(ctx);
                all.extend(SEQ_DECODED.with(|d| std::mem::take(&mut *d.borrow_mut())));
                *node.edges.borrow_mut() = kids?.into_iter().map(|k| k.0).collect();
            } else {
                let n = ctx.read_var_u32()?;
                for _ in 0..n {
                    let child = de_slot(ctx, all, depth + 1, fl)?;
                    node.edges.borrow_mut().push(child);
                }
            }
            Ok(node)
        }
    }
}

fn encode(root: &Rc<GNode>, fl: Fl) -> desert::Result<Vec<u8>> {
    let mut ctx = SerializationContext::new(Vec::new());
    ser_slot(root, &mut ctx, fl)?;
    Ok(ctx.into_output())
}

/// the model: pre-order of first encounter; first offer = 00 + body, later offers = var-u32 id (ids from 1)
fn model_bytes(g: &Graph, fl: Fl) -> (Vec<u8>, Vec<(usize, usize)>, usize) {
    let mut ids: Vec<Option<u32>> = vec![None; g.labels.len()];
    let mut next = 0u32;
    let mut out = Vec::new();
    let mut ref_sites = Vec::new();
    // iterative pre-order with explicit stack of (node, next edge)
    let mut strings: Vec<&'static str> = Vec::new();
    let mut marker: Option<u32> = None;
    #[allow(clippy::too_many_arguments)]
    fn slot(n: usize, g: &Graph, ids: &mut Vec<Option<u32>>, next: &mut u32, out: &mut Vec<u8>, ref_sites: &mut Vec<(usize, usize)>, fl: Fl, strings: &mut Vec<&'static str>, marker: &mut Option<u32>) {
        match ids[n] {
            Some(id) => {
                let st = out.len();
                var_u32(id, out);
                ref_sites.push((st, out.len() - st));
            }
            None => {
                *next += 1;
                ids[n] = Some(*next);
                out.push(0);
                if fl.th {
                    // the header is an object of its own: first (and only) offer, it takes the next number
                    *next += 1;
                    out.push(0);
                }
                out.extend_from_slice(&g.labels[n].to_be_bytes());
                if fl.tag {
                    // string ids are a numbering of their own: 1, 2, ... in first-occurrence order
                    let t = tag_of(g.labels[n]);
                    match strings.iter().position(|x| *x == t) {
                        Some(k) => vmodel::refcodec::var_i32(-(k as i32 + 1), out),
                        None => {
                            strings.push(t);
                            vmodel::refcodec::var_i32(t.len() as i32, out);
                            out.extend_from_slice(t.as_bytes());
                        }
                    }
                }
                if fl.zst && g.labels[n] % 3 == 0 {
                    // the one shared sentinel: introduced by the first node that offers it, cited by the others
                    match *marker {
                        Some(id) => var_u32(id, out),
                        None => {
                            *next += 1;
                            *marker = Some(*next);
                            out.push(0);
                        }
                    }
                }
                if fl.seq {
                    if g.edges[n].is_empty() {
                        out.push(0);
                    } else {
                        vmodel::refcodec::var_i32(-1, out);
                        for t in &g.edges[n] {
                            out.push(1);
                            slot(*t, g, ids, next, out, ref_sites, fl, strings, marker);
                        }
                        out.push(0);
                    }
                } else {
                    var_u32(g.edges[n].len() as u32, out);
                    for t in &g.edges[n] {
                        slot(*t, g, ids, next, out, ref_sites, fl, strings, marker);
                    }
                }
            }
        }
    }
    slot(0, g, &mut ids, &mut next, &mut out, &mut ref_sites, fl, &mut strings, &mut marker);
    (out, ref_sites, next as usize)
}

fn reachable(g: &Graph) -> Vec<bool> {
    let mut seen = vec![false; g.labels.len()];
    let mut st = vec![0usize];
    while let Some(n) = st.pop() {
        if seen[n] {
            continue;
        }
        seen[n] = true;
        st.extend(g.edges[n].iter().copied());
    }
    seen
}

fn classify(g: &Graph) -> (bool, bool) {
    // (has a cycle, has a node with in-degree >= 2) among reachable nodes
    let r = reachable(g);
    let mut indeg = vec![0usize; g.labels.len()];
    for (i, es) in g.edges.iter().enumerate() {
        if r[i] {
            for t in es {
                indeg[*t] += 1;
            }
        }
    }
    let shared = indeg.iter().any(|d| *d >= 2);
    // cycle detection by colours
    fn dfs(n: usize, g: &Graph, col: &mut Vec<u8>) -> bool {
        col[n] = 1;
        for t in &g.edges[n] {
            if col[*t] == 1 || (col[*t] == 0 && dfs(*t, g, col)) {
                return true;
            }
        }
        col[n] = 2;
        false
    }
    let cyc = dfs(0, g, &mut vec![0u8; g.labels.len()]);
    (cyc, shared)
}

/// decoded graph ~ original: simultaneous pre-order walk; sharing restored, distinct nodes stay distinct
fn isomorphic(g: &Graph, root: &Rc<GNode>) -> Result<(), String> {
    let mut map: Vec<Option<Rc<GNode>>> = vec![None; g.labels.len()];
    let mut stack = vec![(0usize, root.clone())];
    while let Some((i, d)) = stack.pop() {
        match &map[i] {
            Some(prev) => {
                if !Rc::ptr_eq(prev, &d) {
                    return Err(format!("original node {i} is reached twice but the decoded graph has two distinct objects for it (sharing lost)"));
                }
                continue;
            }
            None => {
                if map.iter().flatten().any(|x| Rc::ptr_eq(x, &d)) {
                    return Err(format!("decoded object for original node {i} is also the image of another original node (distinct nodes merged)"));
                }
                map[i] = Some(d.clone());
            }
        }
        if d.head.label != g.labels[i] {
            return Err(format!("label of node {i}: {} instead of {}", d.head.label, g.labels[i]));
        }
        let es = d.edges.borrow();
        if es.len() != g.edges[i].len() {
            return Err(format!("node {i} has {} edges instead of {}", es.len(), g.edges[i].len()));
        }
        for (k, t) in g.edges[i].iter().enumerate() {
            stack.push((*t, es[k].clone()));
        }
    }
    Ok(())
}

pub fn check_graph(c: &GraphCase, acc: &mut Acc, record: bool) -> Verdict {
    let g = &c.g;
    if g.labels.is_empty() || g.edges.len() != g.labels.len() || g.edges.iter().flatten().any(|t| *t >= g.labels.len()) {
        return Verdict::Skip;
    }
    let th = c.tracked_header;
    let fl = Fl { th, tag: c.tagged, zst: c.sentinel, seq: c.seq };
    MARKER_W.with(|m| *m.borrow_mut() = None);
    MARKER_R.with(|v| v.borrow_mut().clear());
    let (want, ref_sites, n_objects) = model_bytes(g, fl);
    let sentinel_objects = if c.sentinel && reachable(g).iter().zip(&g.labels).any(|(r, l)| *r && l % 3 == 0) { 1 } else { 0 };
    let n_nodes = if th { (n_objects - sentinel_objects) / 2 } else { n_objects - sentinel_objects };
    let (cyc, shared) = classify(g);
    if record {
        let class = format!("{}{}", match (cyc, shared) {
            (true, _) => "cyclic",
            (false, true) => "shared, acyclic",
            _ => "tree",
        }, if th { " / embedded header object tracked too" } else { "" }).to_string() + if c.tagged { " / deduplicated tags in the bodies" } else { "" } + if c.sentinel { " / shared zero-sized sentinel" } else { "" } + if c.seq { " / edge lists in the marker-per-element form" } else { "" };
        let class = class.as_str();
        acc.case(class, hash_json(&(g, th, c.tagged, c.sentinel, c.seq)), cyc || shared);
        if acc.wants_sample(class) {
            acc.sample(class, json!({"labels": g.labels, "edges": g.edges, "bytes_hex": hex(&want[..want.len().min(64)])}));
        }
    }
    let nodes = build(g);
    let enc = guarded(|| encode(&nodes[0], fl));
    let result = (|| {
        let bytes = match enc {
            Ok(Ok(b)) => b,
            Ok(Err(e)) => return Verdict::Fail(format!("encoding the graph failed: {e:?}")),
            Err(p) => return Verdict::Fail(format!("encoding the graph panicked: {p}")),
        };
        // (a) bytes == model; number of 'new' markers == reachable nodes
        if bytes != want {
            return Verdict::Fail(format!("graph {:?} / {:?} encodes as {} — the model (new marker + body on first offer, 1-based first-encounter number afterwards) gives {}", g.labels, g.edges, hex(&bytes), hex(&want)));
        }
        if n_nodes != reachable(g).iter().filter(|x| **x).count() {
            return Verdict::Fail("HARNESS: model wrote a different number of objects than are reachable".into());
        }
        // (b) decode and compare shapes
        let mut all = Vec::new();
        let mut ctx = DeserializationContext::new(&bytes);
        let dec = guarded(|| de_slot(&mut ctx, &mut all, 0, fl));
        let v = match dec {
            Ok(Ok(root)) => {
                let r = isomorphic(g, &root);
                match r {
                    Ok(()) => {
                        if all.len() != n_nodes {
                            Verdict::Fail(format!("decoding created {} objects for {} reachable nodes", all.len(), n_nodes))
                        } else {
                            Verdict::Pass
                        }
                    }
                    Err(e) => Verdict::Fail(format!("decoded graph is not isomorphic to {:?} / {:?}: {e} (bytes {})", g.labels, g.edges, hex(&bytes))),
                }
            }
            Ok(Err(e)) => Verdict::Fail(format!("decoding {} failed: {e:?}", hex(&bytes))),
            Err(p) => Verdict::Fail(format!("decoding {} panicked: {p}", hex(&bytes))),
        };
        unlink(&all);
        if !matches!(v, Verdict::Pass) {
            return v;
        }
        // (c0) the very first marker of the stream rewritten to an object number: nothing has been introduced yet
        {
            let mut t = bytes.clone();
            let first = [1u32, 2, 127, 128, 300][c.fault_kind as usize % 5];
            let mut nb = Vec::new();
            var_u32(first, &mut nb);
            t.splice(0..1, nb);
            let mut all = Vec::new();
            let mut ctx = DeserializationContext::new(&t);
            let r = guarded(|| de_slot(&mut ctx, &mut all, 0, fl).map(|_| ()).map_err(|e| vcat::errinfo(&e).kind));
            unlink(&all);
            if record {
                acc.bump("first_marker_faults_injected", 1);
            }
            match r {
                Ok(Err(k)) if k == "InvalidRefId" => {}
                other => return Verdict::Fail(format!("a stream that starts with a reference to object {first} (nothing introduced yet) gave {other:?} instead of Err(InvalidRefId) (bytes {})", hex(&t[..t.len().min(24)]))),
            }
        }
        // (c) a reference to an object number that was never introduced is an error
        if !ref_sites.is_empty() {
            let (off, len) = ref_sites[vmodel::gen::pick(c.fault_sel, ref_sites.len())];
            let bad = match c.fault_kind % 3 {
                0 => n_objects as u32 + 1,
                1 => u32::MAX,
                _ => n_objects as u32 + 1000,
            };
            let mut t = bytes.clone();
            let mut nb = Vec::new();
            var_u32(bad, &mut nb);
            t.splice(off..off + len, nb);
            // a stream that was decoded earlier on this thread had more objects than this one: its table is history
            {
                let k = n_objects + 3;
                let chain = Graph { labels: (0..k as u32).collect(), edges: (0..k).map(|i| if i + 1 < k { vec![i + 1] } else { vec![] }).collect() };
                let (cb, _, _) = model_bytes(&chain, Fl { th: false, tag: false, zst: false, seq: false });
                let mut prior = Vec::new();
                let mut pctx = DeserializationContext::new(&cb);
                let _ = guarded(|| de_slot(&mut pctx, &mut prior, 0, Fl { th: false, tag: false, zst: false, seq: false }).map(|_| ()));
                drop(pctx);
                unlink(&prior);
            }
            let mut all = Vec::new();
            let mut ctx = DeserializationContext::new(&t);
            let r = guarded(|| de_slot(&mut ctx, &mut all, 0, fl).map(|_| ()).map_err(|e| vcat::errinfo(&e).kind));
            unlink(&all);
            if record {
                acc.bump("unknown_reference_faults_injected", 1);
            }
            match r {
                Ok(Err(k)) if k == "InvalidRefId" => {}
                other => return Verdict::Fail(format!("a reference to object {bad} ({n_objects} introduced) gave {other:?} instead of Err(InvalidRefId) (bytes {})", hex(&t))),
            }
        }
        Verdict::Pass
    })();
    unlink(&nodes);
    result
}

fn random_graph_strategy() -> BoxedStrategy<Graph> {
    // mostly small; one case in eight is large enough for object numbers to need two var-int bytes (>= 128)
    prop_oneof![7 => 1usize..=60, 1 => 100usize..=400]
        .prop_flat_map(|n| {
            let deg = prop_oneof![3 => 0usize..=2, 2 => 0usize..=5];
            let edges = proptest::collection::vec(deg.prop_flat_map(move |d| proptest::collection::vec(0..n, d..=d)), n..=n);
            (proptest::collection::vec(any::<u32>(), n..=n), edges)
        })
        .prop_map(|(labels, edges)| Graph { labels, edges })
        .boxed()
}

/// all rooted digraphs with n nodes and ordered out-edge lists of length <= 2, every node reachable from the root
fn enumerate_graphs(n: usize, mut f: impl FnMut(&Graph) -> bool) -> bool {
    // options per node: [], [a], [a, b]
    let mut opts: Vec<Vec<usize>> = vec![vec![]];
    for a in 0..n {
        opts.push(vec![a]);
    }
    for a in 0..n {
        for b in 0..n {
            opts.push(vec![a, b]);
        }
    }
    let k = opts.len();
    let total = (k as u64).pow(n as u32);
    for code in 0..total {
        let mut c = code;
        let mut edges = Vec::with_capacity(n);
        for _ in 0..n {
            edges.push(opts[(c % k as u64) as usize].clone());
            c /= k as u64;
        }
        let g = Graph { labels: (0..n as u32).map(|i| 0x1000 + i).collect(), edges };
        if reachable(&g).iter().all(|x| *x) && !f(&g) {
            return false;
        }
    }
    true
}

pub fn run_c10(cx: &Cx) -> PropResult {
    let per_shard = cx.n(40_000, 800_000);
    let max_n = 4;
    let acc = parallel(cx, &|shard, acc| {
        // exhaustive part, split by graph index
        let mut idx = 0usize;
        for n in 1..=max_n {
            let ok = enumerate_graphs(n, |g| {
                idx += 1;
                if idx % cx.shards != shard {
                    return true;
                }
                let c = GraphCase { g: g.clone(), tracked_header: idx % 3 == 0, tagged: idx % 4 == 1, sentinel: idx % 5 == 2, seq: idx % 7 == 3, fault_sel: (idx * 7919) as u16, fault_kind: idx as u8 };
                match check_graph(&c, acc, true) {
                    Verdict::Fail(e) => {
                        acc.violation(e, to_json(&c));
                        false
                    }
                    _ => true,
                }
            });
            if !ok {
                return;
            }
        }
        let strat = (random_graph_strategy(), any::<bool>(), any::<bool>(), prop::bool::weighted(0.3), prop::bool::weighted(0.3), any::<u16>(), any::<u8>()).prop_map(|(g, tracked_header, tagged, sentinel, seq, fault_sel, fault_kind)| GraphCase { g, tracked_header, tagged, sentinel, seq, fault_sel, fault_kind }).boxed();
        if drive(tag_seed(derive_seed(cx.seed, cx.prop, shard as u64, 0), 0), &strat, per_shard, acc, &|c: &GraphCase| to_json(c), &mut |c, a, r| check_graph(c, a, r)) {
            return;
        }
        let strat = holder_strategy();
        if drive(tag_seed(derive_seed(cx.seed, cx.prop, shard as u64, 1), 1), &strat, per_shard / 2, acc, &|c: &HolderCase| to_json(&json!({"Holder": c})), &mut |c, a, r| check_holder(c, a, r)) {
            return;
        }
        // graphs whose nodes are evolved records: small random ones, and chains / rings deep enough to nest hundreds
        // of chunks
        let strat = random_graph_strategy().prop_filter("small", |g| g.labels.len() <= 60).boxed();
        if drive(tag_seed(derive_seed(cx.seed, cx.prop, shard as u64, 3), 3), &strat, per_shard / 8, acc, &|g: &Graph| to_json(&json!({"Evo": g})), &mut |g, a, r| check_evo_graph(g, a, r)) {
            return;
        }
        if shard == 2 {
            for n in [100usize, 127, 128, 129, 130, 200, 255, 256, 257, 400] {
                for ring in [false, true] {
                    let g = Graph { labels: (0..n as u32).collect(), edges: (0..n).map(|i| if i + 1 < n { vec![i + 1] } else if ring { vec![0] } else { vec![] }).collect() };
                    if let Verdict::Fail(e) = check_evo_graph(&g, acc, true) {
                        acc.violation(e, json!({"Evo": g}));
                        return;
                    }
                }
            }
        }
        // one wide graph per width boundary of the object numbers: a root over w leaves, the leaves around object
        // number 128 / 16384 offered a second time (two- and three-byte references, each value near the boundary)
        if shard < 2 {
            let w = if shard == 0 { 300usize } else { 16_400 };
            let b = if shard == 0 { 128usize } else { 16_384 };
            let mut root: Vec<usize> = (1..=w).collect();
            root.extend((b - 4)..(b + 4));
            let mut edges = vec![root];
            edges.extend((0..w).map(|_| Vec::new()));
            let c = GraphCase { g: Graph { labels: (0..=w as u32).map(|i| i.wrapping_mul(2_654_435_761) | 1).collect(), edges }, tracked_header: false, tagged: false, sentinel: false, seq: false, fault_sel: 5, fault_kind: 1 };
            if let Verdict::Fail(e) = check_graph(&c, acc, true) {
                acc.violation(e, to_json(&c));
            }
        }
    });
    let mut r = PropResult::new(
        acc,
        "exploration",
        "graphs: EXHAUSTIVELY every rooted digraph with 1-4 nodes whose nodes have ordered out-edge lists of length <= 2 over any targets (self-loops, diamonds, back-edges, parallel edges), all nodes reachable; randomly: 1-60 nodes (one case in eight: 100-400 nodes, so that object numbers cross the one-byte var-int boundary), out-degree <= 5; two wide graphs (a root over 300 / 16 400 leaves) whose leaves with the object numbers around 128 / 16 384 are offered twice. A harness codec written in safe code offers node addresses as identities (in one third / one half of the cases it additionally offers each node's embedded header, a distinct object of another type that lives at the node's own address, which must get its own number; in a quarter / half of the cases every node body also carries one of four DeduplicatedString tags, so that string ids and object numbers are assigned side by side in one stream; in a fifth / a third of the cases the nodes with a label divisible by 3 also offer one shared zero-sized sentinel object) (store_ref_or_object on the writer; state_mut().store_ref right after allocation and try_read_ref + downcast on the reader). Oracles: bytes == model (first offer: 00 + body, later offers: var-u32 of the 1-based first-encounter number, pre-order), objects written == reachable nodes, encoding terminates on cycles; decoded graph isomorphic by a simultaneous walk (labels, ordered edges; two edges reach the same original node iff the decoded targets are pointer-equal); a reference rewritten to objects+1, objects+1000 or u32::MAX decodes to Err(InvalidRefId), also right after a larger stream was decoded on the same thread, and so does a stream whose very first marker is rewritten to an object number. Non-trivial = a cycle or a node with in-degree >= 2. Nodes that are evolved records themselves (label, then a version-1 record with the edge list in a chunk of its own): random graphs up to 60 nodes and chains / rings of 100-400 nodes, i.e. hundreds of chunks nested in each other. Tracked objects as record fields: a hand-expanded derive of struct Holder { a: u8, g1: Slot, s: String, g2: Slot, g3: Slot } (Slot offers a node of one shared graph) as a version-0 record and with g2 / g3 / s introduced by FieldAdded steps (so the slots live in different chunks), followed by one more byte in the stream; and through the REAL derive macro, struct DHolder { g3, a, g2, g1, s } with g2 and g3 added by evolution steps and declared before older fields; bytes must equal the model (markers and back-references inside the chunk of their field, objects numbered in field order) and decoding must restore the sharing between the fields. In three cases out of ten the edge lists go through the library's own sequence codec (serialize_iterator over an iterator that hides its length: marker-per-element form; read as Vec of slots), under the same reference faults. Graphs of evolved-record nodes are in two cases out of three written as three values through ONE context (root, another node, root again) and read back from one context: bytes against the model, one decoded object per original node across the values.",
    );
    r.exhaustive = Some(true);
    r.extra = json!({"exhaustive_note": "exhaustive for graphs of <= 4 nodes with out-degree <= 2; larger graphs are sampled", "exhaustive_max_nodes": max_n});
    let _ = Tier::Quick;
    r
}

pub fn replay_c10(case: &Value) -> Verdict {
    if let Some(g) = case.get("Evo") {
        let g: Graph = serde_json::from_value(g.clone()).expect("replay case");
        return check_evo_graph(&g, &mut Acc::new(), false);
    }
    if let Some(h) = case.get("Holder") {
        let c: HolderCase = serde_json::from_value(h.clone()).expect("replay case");
        return check_holder(&c, &mut Acc::new(), false);
    }
    let c: GraphCase = serde_json::from_value(case.clone()).expect("replay case");
    check_graph(&c, &mut Acc::new(), false)
}

// ------------------------------------------------------------------------------------------------
// nodes that ARE evolved records: label, then a version-1 record { extra: u8 (chunk 0), edges (chunk 1) }; every level
// of the graph is a chunk inside a chunk (a region inside a region for the reader)

fn evo_meta() -> desert::adt::AdtMetadata {
    desert::adt::AdtMetadata::new(vec![desert::Evolution::InitialVersion, desert::Evolution::FieldAdded { name: "edges".into() }])
}

struct EvoNode(Rc<GNode>);
struct EvoEdges(Rc<GNode>);
impl desert::BinarySerializer for EvoNode {
    fn serialize<O: BinaryOutput>(&self, ctx: &mut SerializationContext<O>) -> desert::Result<()> {
        if ctx.store_ref_or_object(&*self.0)? {
            ctx.write_u32(self.0.head.label);
            let meta = evo_meta();
            let mut ser = desert::adt::AdtSerializer::new(&meta, ctx);
            ser.write_field("extra", &(self.0.head.label as u8))?;
            ser.write_field("edges", &EvoEdges(self.0.clone()))?;
            ser.finish()?;
        }
        Ok(())
    }
}
impl desert::BinarySerializer for EvoEdges {
    fn serialize<O: BinaryOutput>(&self, ctx: &mut SerializationContext<O>) -> desert::Result<()> {
        let edges = self.0.edges.borrow();
        ctx.write_var_u32(edges.len() as u32);
        for child in edges.iter() {
            EvoNode(child.clone()).serialize(ctx)?;
        }
        Ok(())
    }
}
struct EvoNodeR(Rc<GNode>);
struct EvoEdgesR(Vec<Rc<GNode>>);
impl desert::BinaryDeserializer for EvoNodeR {
    fn deserialize(ctx: &mut DeserializationContext<'_>) -> desert::Result<Self> {
        match ctx.try_read_ref()? {
            Some(any) => {
                let g = any.downcast_ref::<GNode>().ok_or_else(|| desert::Error::DeserializationFailure("reference to a foreign object".into()))?;
                Ok(EvoNodeR(g.me.upgrade().ok_or_else(|| desert::Error::DeserializationFailure("dead node".into()))?))
            }
            None => {
                let label = ctx.read_u32()?;
                let node = Rc::new_cyclic(|w| GNode { head: Head { label }, me: w.clone(), edges: RefCell::new(vec![]) });
                DECODED.with(|d| d.borrow_mut().push(node.clone()));
                ctx.state_mut().store_ref(&*node);
                let stored = ctx.read_u8()?;
                let meta = evo_meta();
                let mut de = if stored == 0 { desert::adt::AdtDeserializer::new_v0(&meta, ctx)? } else { desert::adt::AdtDeserializer::new(&meta, ctx, stored)? };
                let extra: u8 = de.read_field("extra", None)?;
                if extra != label as u8 {
                    return Err(desert::Error::DeserializationFailure("sibling field of the edge list changed".into()));
                }
                // (the step that added the edge list declares a default, as a derived record would: no edges)
                let edges: EvoEdgesR = de.read_field("edges", Some(EvoEdgesR(Vec::new())))?;
                *node.edges.borrow_mut() = edges.0;
                Ok(EvoNodeR(node))
            }
        }
    }
}
impl desert::BinaryDeserializer for EvoEdgesR {
    fn deserialize(ctx: &mut DeserializationContext<'_>) -> desert::Result<Self> {
        let n = ctx.read_var_u32()?;
        let mut out = Vec::new();
        for _ in 0..n {
            out.push(<EvoNodeR as desert::BinaryDeserializer>::deserialize(ctx)?.0);
        }
        Ok(EvoEdgesR(out))
    }
}

fn evo_model(g: &Graph) -> Vec<u8> {
    evo_model_faulty(g, None).0
}

/// the model's bytes with the `fault`-th back-reference (if any) citing object 127 instead — an object that a graph of
/// fewer than 127 objects never introduces, in a var-int of the same length so that every chunk size stays right;
/// second result: how many back-references there are
fn evo_model_faulty(g: &Graph, fault: Option<usize>) -> (Vec<u8>, usize) {
    fn slot(n: usize, g: &Graph, ids: &mut Vec<Option<u32>>, next: &mut u32, refs: &mut usize, fault: Option<usize>) -> Vec<u8> {
        let mut out = Vec::new();
        match ids[n] {
            Some(id) => {
                var_u32(if Some(*refs) == fault && id < 127 { 127 } else { id }, &mut out);
                *refs += 1;
            }
            None => {
                *next += 1;
                ids[n] = Some(*next);
                out.push(0);
                out.extend_from_slice(&g.labels[n].to_be_bytes());
                let mut chunk1 = Vec::new();
                var_u32(g.edges[n].len() as u32, &mut chunk1);
                for t in &g.edges[n] {
                    chunk1.extend(slot(*t, g, ids, next, refs, fault));
                }
                out.push(1);
                vmodel::refcodec::var_i32(1, &mut out);
                vmodel::refcodec::var_i32(chunk1.len() as i32, &mut out);
                out.push(g.labels[n] as u8);
                out.extend(chunk1);
            }
        }
        out
    }
    let (mut ids, mut next, mut refs) = (vec![None; g.labels.len()], 0, 0);
    let bytes = evo_roots(g).into_iter().flat_map(|r| slot(r, g, &mut ids, &mut next, &mut refs, fault)).collect();
    (bytes, refs)
}

/// the values written one after the other through ONE context: the root, and in two cases out of three a second
/// node and the root again (whatever the first value introduced is cited by the later ones)
fn evo_roots(g: &Graph) -> Vec<usize> {
    let n = g.labels.len();
    if n >= 2 && g.labels[0] % 3 != 0 {
        vec![0, g.labels[1] as usize % n, 0]
    } else {
        vec![0]
    }
}

/// graphs whose nodes are evolved records (bytes against the model, shape after decoding)
pub fn check_evo_graph(g: &Graph, acc: &mut Acc, record: bool) -> Verdict {
    if g.labels.is_empty() || g.edges.len() != g.labels.len() || g.edges.iter().flatten().any(|t| *t >= g.labels.len()) {
        return Verdict::Skip;
    }
    let roots = evo_roots(g);
    if record {
        acc.case("nodes that are evolved records (a chunk inside a chunk per level)", hash_json(&(g, "evo")), g.labels.len() >= 2);
        if roots.len() > 1 {
            acc.bump("evolved_record_graphs_written_as_several_values_through_one_context", 1);
        }
    }
    let want = evo_model(g);
    let nodes = build(g);
    let enc = guarded(|| {
        let mut ctx = SerializationContext::new(Vec::new());
        for r in &roots {
            desert::BinarySerializer::serialize(&EvoNode(nodes[*r].clone()), &mut ctx)?;
        }
        Ok::<_, desert::Error>(ctx.into_output())
    });
    let res = (|| {
        let bytes = match enc {
            Ok(Ok(b)) => b,
            Ok(Err(e)) => return Verdict::Fail(format!("encoding a graph of {} evolved-record nodes failed: {e:?}", g.labels.len())),
            Err(p) => return Verdict::Fail(format!("encoding a graph of evolved-record nodes panicked: {p}")),
        };
        if bytes != want {
            return Verdict::Fail(format!("a graph of {} evolved-record nodes encodes as {} bytes; the model gives {} (first difference at {:?})", g.labels.len(), bytes.len(), want.len(), bytes.iter().zip(&want).position(|(a, b)| a != b)));
        }
        DECODED.with(|d| d.borrow_mut().clear());
        let dec = guarded(|| {
            let mut ctx = DeserializationContext::new(&bytes);
            let mut out = Vec::new();
            for _ in &roots {
                out.push(<EvoNodeR as desert::BinaryDeserializer>::deserialize(&mut ctx)?);
            }
            Ok::<_, desert::Error>(out)
        });
        let all = DECODED.with(|d| std::mem::take(&mut *d.borrow_mut()));
        let v = match dec {
            Ok(Ok(got)) => {
                let mut v = match isomorphic(g, &got[0].0) {
                    Ok(()) => Verdict::Pass,
                    Err(e) => Verdict::Fail(format!("decoded graph of evolved-record nodes is not isomorphic: {e}")),
                };
                // later values: the same objects as the ones the first value introduced (the original node i of a
                // later root is reachable from root 0 or not; either way one decoded object per original node)
                if matches!(v, Verdict::Pass) {
                    let mut seen: std::collections::HashMap<usize, *const GNode> = std::collections::HashMap::new();
                    let mut stack: Vec<(usize, Rc<GNode>)> = roots.iter().zip(&got).map(|(r, d)| (*r, d.0.clone())).collect();
                    while let Some((orig, d)) = stack.pop() {
                        match seen.get(&orig) {
                            Some(p) if *p == Rc::as_ptr(&d) => continue,
                            Some(_) => {
                                v = Verdict::Fail(format!("values {:?} written through one context: original node {orig} was decoded as two different objects", roots));
                                break;
                            }
                            None => {
                                seen.insert(orig, Rc::as_ptr(&d));
                            }
                        }
                        let kids = d.edges.borrow();
                        if d.head.label != g.labels[orig] || kids.len() != g.edges[orig].len() {
                            v = Verdict::Fail(format!("values {:?} written through one context: node {orig} decoded with label {} and {} edges", roots, d.head.label, kids.len()));
                            break;
                        }
                        for (t, k) in g.edges[orig].iter().zip(kids.iter()) {
                            stack.push((*t, k.clone()));
                        }
                    }
                    let distinct: std::collections::HashSet<*const GNode> = seen.values().cloned().collect();
                    if matches!(v, Verdict::Pass) && distinct.len() != seen.len() {
                        v = Verdict::Fail(format!("values {:?} written through one context: two original nodes share one decoded object", roots));
                    }
                }
                v
            }
            Ok(Err(e)) => Verdict::Fail(format!("decoding a graph of {} evolved-record nodes (first-encounter depth up to {}) failed: {e:?}", g.labels.len(), g.labels.len())),
            Err(p) => Verdict::Fail(format!("decoding a graph of evolved-record nodes panicked: {p}")),
        };
        unlink(&all);
        if !matches!(v, Verdict::Pass) {
            return v;
        }
        // fault part: one back-reference cites an object that was never introduced, inside the chunk of the added field
        let (_, n_refs) = evo_model_faulty(g, None);
        if n_refs > 0 && g.labels.len() < 120 {
            let k = g.labels.iter().fold(0usize, |a, l| a.wrapping_mul(31).wrapping_add(*l as usize)) % n_refs;
            let (bad, _) = evo_model_faulty(g, Some(k));
            if bad != want {
                DECODED.with(|d| d.borrow_mut().clear());
                let dec = guarded(|| {
                    let mut ctx = DeserializationContext::new(&bad);
                    for _ in &roots {
                        <EvoNodeR as desert::BinaryDeserializer>::deserialize(&mut ctx)?;
                    }
                    Ok::<_, desert::Error>(())
                });
                let all = DECODED.with(|d| std::mem::take(&mut *d.borrow_mut()));
                unlink(&all);
                if record {
                    acc.bump("evolved_record_graphs_with_a_reference_to_a_never_introduced_object", 1);
                }
                match dec {
                    Ok(Err(desert::Error::InvalidRefId(_))) => {}
                    other => return Verdict::Fail(format!("a graph of evolved-record nodes whose back-reference #{k} cites object 127 ({} introduced) gave {other:?} instead of Err(InvalidRefId)", g.labels.len())),
                }
            }
        }
        v
    })();
    unlink(&nodes);
    res
}

// ------------------------------------------------------------------------------------------------
// tracked objects as fields of (evolved) records: the back-references must land in the field's chunk

thread_local! {
    static DECODED: RefCell<Vec<Rc<GNode>>> = const { RefCell::new(Vec::new()) };
}

/// a field type whose codec offers the node to the stream
pub struct Slot(pub Rc<GNode>);
impl desert::BinarySerializer for Slot {
    fn serialize<O: BinaryOutput>(&self, ctx: &mut SerializationContext<O>) -> desert::Result<()> {
        ser_slot(&self.0, ctx, Fl { th: false, tag: false, zst: false, seq: false })
    }
}
impl desert::BinaryDeserializer for Slot {
    fn deserialize(ctx: &mut DeserializationContext<'_>) -> desert::Result<Self> {
        let mut all = DECODED.with(|d| std::mem::take(&mut *d.borrow_mut()));
        let r = de_slot(ctx, &mut all, 0, Fl { th: false, tag: false, zst: false, seq: false });
        DECODED.with(|d| *d.borrow_mut() = all);
        r.map(Slot)
    }
}

impl Slot {
    /// default expression of the FieldAdded steps below (never part of a comparison)
    #[cfg_attr(feature = "no_dholder", allow(dead_code))]
    fn dummy() -> Slot {
        Slot(Rc::new_cyclic(|w| GNode { head: Head { label: 0 }, me: w.clone(), edges: RefCell::new(vec![]) }))
    }
}

/// The same kind of record through the REAL derive macro, with the added fields declared before older ones: the
/// documented procedure (fields in declaration order, each routed to its chunk) fixes the order in which objects are
/// offered to the stream, on both sides.
#[cfg(not(feature = "no_dholder"))]
#[derive(desert::BinaryCodec)]
#[evolution(FieldAdded("g2", Slot::dummy()), FieldAdded("g3", Slot::dummy()))]
pub struct DHolder {
    pub g3: Slot,
    pub a: u8,
    pub g2: Slot,
    pub g1: Slot,
    pub s: String,
}

fn dholder_model(c: &HolderCase) -> Vec<u8> {
    let mut chunks: Vec<Vec<u8>> = vec![Vec::new(); 3];
    let mut m = GModel { ids: vec![None; c.g.labels.len()], next: 0 };
    m.slot(c.at[2], &c.g, &mut chunks[2]);
    chunks[0].push(c.a);
    m.slot(c.at[1], &c.g, &mut chunks[1]);
    m.slot(c.at[0], &c.g, &mut chunks[0]);
    vmodel::refcodec::var_i32(c.s.len() as i32, &mut chunks[0]);
    chunks[0].extend_from_slice(c.s.as_bytes());
    let mut out = vec![2u8];
    for ch in &chunks {
        vmodel::refcodec::var_i32(ch.len() as i32, &mut out);
    }
    for ch in &chunks {
        out.extend_from_slice(ch);
    }
    out
}

#[cfg(feature = "no_dholder")]
fn check_dholder(_: &HolderCase, _: &[Rc<GNode>]) -> Verdict {
    Verdict::Pass
}

/// the derived holder: bytes against the model, and the sharing between its fields after decoding
#[cfg(not(feature = "no_dholder"))]
fn check_dholder(c: &HolderCase, nodes: &[Rc<GNode>]) -> Verdict {
    let g = &c.g;
    let v = DHolder { g3: Slot(nodes[c.at[2]].clone()), a: c.a, g2: Slot(nodes[c.at[1]].clone()), g1: Slot(nodes[c.at[0]].clone()), s: c.s.clone() };
    let want = dholder_model(c);
    let bytes = match guarded(|| desert::serialize_to_byte_vec(&v)) {
        Ok(Ok(b)) => b,
        Ok(Err(e)) => return Verdict::Fail(format!("encoding the derived holder failed: {e:?}")),
        Err(p) => return Verdict::Fail(format!("encoding the derived holder panicked: {p}")),
    };
    if bytes != want {
        return Verdict::Fail(format!("#[derive] struct DHolder {{ g3 (added 2nd), a, g2 (added 1st), g1, s }} over graph {:?} / {:?}, fields at nodes {:?}, encodes as {} — fields in declaration order, each routed to its chunk, give {}", g.labels, g.edges, c.at, hex(&bytes), hex(&want)));
    }
    DECODED.with(|d| d.borrow_mut().clear());
    let dec = guarded(|| desert::deserialize::<DHolder>(&bytes));
    let all = DECODED.with(|d| std::mem::take(&mut *d.borrow_mut()));
    let r = match dec {
        Ok(Ok(d)) => {
            let (g1, g2, g3) = (&d.g1.0, &d.g2.0, &d.g3.0);
            if d.a != c.a || d.s != c.s {
                Verdict::Fail("derived holder: plain fields changed".into())
            } else if g1.head.label != g.labels[c.at[0]] || g2.head.label != g.labels[c.at[1]] || g3.head.label != g.labels[c.at[2]] {
                Verdict::Fail(format!("derived holder: slot fields point at nodes labelled {} {} {} instead of {} {} {} (bytes {})", g1.head.label, g2.head.label, g3.head.label, g.labels[c.at[0]], g.labels[c.at[1]], g.labels[c.at[2]], hex(&bytes)))
            } else if (c.at[0] == c.at[1]) != Rc::ptr_eq(g1, g2) || (c.at[1] == c.at[2]) != Rc::ptr_eq(g2, g3) || (c.at[0] == c.at[2]) != Rc::ptr_eq(g1, g3) {
                Verdict::Fail("derived holder: sharing between the slot fields was not restored exactly".into())
            } else {
                match isomorphic_from(g, c.at[2], g3).and_then(|_| isomorphic_from(g, c.at[0], g1)) {
                    Ok(()) => Verdict::Pass,
                    Err(e) => Verdict::Fail(format!("derived holder: graph below a slot field: {e} (bytes {})", hex(&bytes))),
                }
            }
        }
        Ok(Err(e)) => Verdict::Fail(format!("decoding the derived holder {} failed: {e:?}", hex(&bytes))),
        Err(p) => Verdict::Fail(format!("decoding the derived holder {} panicked: {p}", hex(&bytes))),
    };
    unlink(&all);
    r
}

#[derive(Debug, Clone, Serialize, Deserialize)]
pub struct HolderCase {
    pub g: Graph,
    /// which nodes the three slot fields point at
    pub at: [usize; 3],
    /// 0: version-0 record; 1: g2 added (chunk 1); 2: g2 and g3 added (chunks 1 and 2); 3: s and g3 added
    pub kind: u8,
    pub a: u8,
    pub s: String,
}

fn holder_steps(kind: u8) -> Vec<&'static str> {
    match kind % 4 {
        0 => vec![],
        1 => vec!["g2"],
        2 => vec!["g2", "g3"],
        _ => vec!["s", "g3"],
    }
}

fn holder_meta(kind: u8) -> desert::adt::AdtMetadata {
    let mut steps = vec![desert::Evolution::InitialVersion];
    for n in holder_steps(kind) {
        steps.push(desert::Evolution::FieldAdded { name: n.to_string() });
    }
    desert::adt::AdtMetadata::new(steps)
}

/// what `#[derive(BinaryCodec)] struct Holder { a: u8, g1: Slot, s: String, g2: Slot, g3: Slot }` expands to
fn ser_holder(c: &HolderCase, nodes: &[Rc<GNode>]) -> desert::Result<Vec<u8>> {
    let meta = holder_meta(c.kind);
    let mut ctx = SerializationContext::new(Vec::new());
    {
        let mut s = if holder_steps(c.kind).is_empty() { desert::adt::AdtSerializer::new_v0(&meta, &mut ctx) } else { desert::adt::AdtSerializer::new(&meta, &mut ctx) };
        s.write_field("a", &c.a)?;
        s.write_field("g1", &Slot(nodes[c.at[0]].clone()))?;
        s.write_field("s", &c.s)?;
        s.write_field("g2", &Slot(nodes[c.at[1]].clone()))?;
        s.write_field("g3", &Slot(nodes[c.at[2]].clone()))?;
        s.finish()?;
    }
    // something after the record, in the same stream
    ctx.write_u8(0xEE);
    Ok(ctx.into_output())
}

type HolderOut = (u8, Rc<GNode>, String, Rc<GNode>, Rc<GNode>, u8);

fn de_holder(kind: u8, bytes: &[u8]) -> desert::Result<HolderOut> {
    let meta = holder_meta(kind);
    let mut ctx = DeserializationContext::new(bytes);
    let stored = ctx.read_u8()?;
    let out = {
        let mut d = if stored == 0 { desert::adt::AdtDeserializer::new_v0(&meta, &mut ctx)? } else { desert::adt::AdtDeserializer::new(&meta, &mut ctx, stored)? };
        let a: u8 = d.read_field("a", None)?;
        let g1: Slot = d.read_field("g1", None)?;
        let s: String = d.read_field("s", None)?;
        let g2: Slot = d.read_field("g2", None)?;
        let g3: Slot = d.read_field("g3", None)?;
        (a, g1.0, s, g2.0, g3.0)
    };
    let tail = ctx.read_u8()?;
    Ok((out.0, out.1, out.2, out.3, out.4, tail))
}

struct GModel {
    ids: Vec<Option<u32>>,
    next: u32,
}
impl GModel {
    fn slot(&mut self, n: usize, g: &Graph, out: &mut Vec<u8>) {
        match self.ids[n] {
            Some(id) => var_u32(id, out),
            None => {
                self.next += 1;
                self.ids[n] = Some(self.next);
                out.push(0);
                out.extend_from_slice(&g.labels[n].to_be_bytes());
                var_u32(g.edges[n].len() as u32, out);
                for t in g.edges[n].clone() {
                    self.slot(t, g, out);
                }
            }
        }
    }
}

fn holder_model(c: &HolderCase) -> Vec<u8> {
    let steps = holder_steps(c.kind);
    let chunk_of = |name: &str| steps.iter().position(|s| *s == name).map(|i| i + 1).unwrap_or(0);
    let mut chunks: Vec<Vec<u8>> = vec![Vec::new(); steps.len() + 1];
    let mut m = GModel { ids: vec![None; c.g.labels.len()], next: 0 };
    // fields in declaration order, each into the chunk of the step that added it; object numbers follow that order
    chunks[chunk_of("a")].push(c.a);
    m.slot(c.at[0], &c.g, &mut chunks[chunk_of("g1")]);
    {
        let b = &mut chunks[chunk_of("s")];
        vmodel::refcodec::var_i32(c.s.len() as i32, b);
        b.extend_from_slice(c.s.as_bytes());
    }
    m.slot(c.at[1], &c.g, &mut chunks[chunk_of("g2")]);
    m.slot(c.at[2], &c.g, &mut chunks[chunk_of("g3")]);
    let mut out = vec![steps.len() as u8];
    if !steps.is_empty() {
        for ch in &chunks {
            vmodel::refcodec::var_i32(ch.len() as i32, &mut out);
        }
    }
    for ch in &chunks {
        out.extend_from_slice(ch);
    }
    out.push(0xEE);
    out
}

pub fn check_holder(c: &HolderCase, acc: &mut Acc, record: bool) -> Verdict {
    let g = &c.g;
    if g.labels.is_empty() || g.edges.len() != g.labels.len() || g.edges.iter().flatten().any(|t| *t >= g.labels.len()) || c.at.iter().any(|i| *i >= g.labels.len()) {
        return Verdict::Skip;
    }
    let want = holder_model(c);
    let shared_across_fields = c.at[1] == c.at[0] || c.at[2] == c.at[0] || c.at[2] == c.at[1] || {
        // the later field's node is reachable from an earlier field's node
        let reach = |from: usize| {
            let mut seen = vec![false; g.labels.len()];
            let mut st = vec![from];
            while let Some(n) = st.pop() {
                if !seen[n] {
                    seen[n] = true;
                    st.extend(g.edges[n].iter().copied());
                }
            }
            seen
        };
        reach(c.at[0])[c.at[1]] || reach(c.at[0])[c.at[2]] || reach(c.at[1])[c.at[2]]
    };
    if record {
        let class = format!("tracked objects as record fields: {}", ["version-0 record", "g2 in chunk 1", "g2, g3 in chunks 1, 2", "s, g3 in chunks 1, 2"][c.kind as usize % 4]);
        acc.case(&class, hash_json(c), shared_across_fields && c.kind % 4 != 0);
        if acc.wants_sample(&class) && shared_across_fields {
            acc.sample(&class, json!({"labels": g.labels, "edges": g.edges, "fields_point_at": c.at, "bytes_hex": hex(&want[..want.len().min(64)])}));
        }
    }
    let nodes = build(g);
    let dv = check_dholder(c, &nodes);
    if !matches!(dv, Verdict::Pass) {
        unlink(&nodes);
        return dv;
    }
    let enc = guarded(|| ser_holder(c, &nodes));
    let res = (|| {
        let bytes = match enc {
            Ok(Ok(b)) => b,
            Ok(Err(e)) => return Verdict::Fail(format!("encoding failed: {e:?}")),
            Err(p) => return Verdict::Fail(format!("encoding panicked: {p}")),
        };
        if bytes != want {
            return Verdict::Fail(format!("a record whose fields offer tracked objects (graph {:?} / {:?}, fields at nodes {:?}, evolution steps FieldAdded{:?}) encodes as {} — expected {} (each marker / back-reference inside the chunk of its field, objects numbered in field order)", g.labels, g.edges, c.at, holder_steps(c.kind), hex(&bytes), hex(&want)));
        }
        DECODED.with(|d| d.borrow_mut().clear());
        let dec = guarded(|| de_holder(c.kind, &bytes));
        let all = DECODED.with(|d| std::mem::take(&mut *d.borrow_mut()));
        let v = match dec {
            Ok(Ok((a, g1, s, g2, g3, tail))) => {
                if a != c.a || s != c.s || tail != 0xEE {
                    Verdict::Fail(format!("plain fields came back as a={a} s={s:?} tail={tail:#x}"))
                } else if g1.head.label != g.labels[c.at[0]] || g2.head.label != g.labels[c.at[1]] || g3.head.label != g.labels[c.at[2]] {
                    Verdict::Fail("slot fields point at nodes with other labels".into())
                } else if (c.at[0] == c.at[1]) != Rc::ptr_eq(&g1, &g2) || (c.at[1] == c.at[2]) != Rc::ptr_eq(&g2, &g3) || (c.at[0] == c.at[2]) != Rc::ptr_eq(&g1, &g3) {
                    Verdict::Fail("sharing between the slot fields was not restored exactly".into())
                } else {
                    match isomorphic_from(g, c.at[0], &g1) {
                        Ok(()) => Verdict::Pass,
                        Err(e) => Verdict::Fail(format!("graph below the first slot field: {e}")),
                    }
                }
            }
            Ok(Err(e)) => Verdict::Fail(format!("decoding {} failed: {e:?}", hex(&bytes))),
            Err(p) => Verdict::Fail(format!("decoding {} panicked: {p}", hex(&bytes))),
        };
        unlink(&all);
        v
    })();
    unlink(&nodes);
    res
}

fn isomorphic_from(g: &Graph, start: usize, root: &Rc<GNode>) -> Result<(), String> {
    // relabel so that `start` is the root the generic walk expects
    let mut map: Vec<Option<Rc<GNode>>> = vec![None; g.labels.len()];
    let mut stack = vec![(start, root.clone())];
    while let Some((i, d)) = stack.pop() {
        match &map[i] {
            Some(prev) => {
                if !Rc::ptr_eq(prev, &d) {
                    return Err(format!("node {i}: sharing lost"));
                }
                continue;
            }
            None => {
                if map.iter().flatten().any(|x| Rc::ptr_eq(x, &d)) {
                    return Err(format!("node {i}: distinct nodes merged"));
                }
                map[i] = Some(d.clone());
            }
        }
        if d.head.label != g.labels[i] {
            return Err(format!("label of node {i}"));
        }
        let es = d.edges.borrow();
        if es.len() != g.edges[i].len() {
            return Err(format!("edge count of node {i}"));
        }
        for (k, t) in g.edges[i].iter().enumerate() {
            stack.push((*t, es[k].clone()));
        }
    }
    Ok(())
}

pub fn holder_strategy() -> BoxedStrategy<HolderCase> {
    (1usize..=8)
        .prop_flat_map(|n| {
            let edges = proptest::collection::vec(proptest::collection::vec(0..n, 0..3), n..=n);
            (proptest::collection::vec(any::<u32>(), n..=n), edges, [0..n, 0..n, 0..n], 0u8..4, any::<u8>(), "[a-z]{0,6}")
        })
        .prop_map(|(labels, edges, at, kind, a, s)| HolderCase { g: Graph { labels, edges }, at, kind, a, s })
        .boxed()
}
