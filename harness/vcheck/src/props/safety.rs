//! C19: memory safety of the safe public API.
//! (1) E7: client programs generated from a template grammar, each a crate root under #![forbid(unsafe_code)],
//!     compiled with rustc against the freshly built desert rlib; every witness has a control twin that keeps the
//!     referent alive. A witness that compiles refutes the property.
//! (2) inputs to the decoding paths implemented with unsafe code, cross-checked against the reference decoder
//!     (every Ok must be made of input bytes only); the thorough tier repeats them under AddressSanitizer / Miri.
use crate::run::{drive, parallel, tag_seed, to_json, Cx, Verdict};
use crate::PropResult;
use proptest::prelude::*;
use proptest::strategy::BoxedStrategy;
use serde::{Deserialize, Serialize};
use serde_json::{json, Value};
use std::path::PathBuf;
use std::sync::Arc;
use vmodel::evidence::Acc;
use vmodel::gen::{val_strategy, ValCfg};
use vmodel::refcodec::{ref_decode, ref_encode};
use vmodel::tamper::{apply, tops_strategy, TOp};
use vmodel::{canon, derive_seed, hash_json, hex, Ty, Val};

// ------------------------------------------------------------------------------------------------ witnesses

#[derive(Debug, Clone, Serialize, Deserialize, PartialEq)]
pub struct Witness {
    pub path: String,
    pub death: String,
    pub referent: String,
}

fn referent_expr(r: &str) -> (&'static str, &'static str, &'static str) {
    // (type, constructor expression, how to observe through &T)
    match r {
        "String" => ("String", "String::from(\"a heap string that is long enough to be on the heap\")", "println!(\"{}\", got.len());"),
        "Vec<u8>" => ("Vec<u8>", "vec![1u8; 64]", "println!(\"{}\", got[0]);"),
        "Box<u64>" => ("Box<u64>", "Box::new(42u64)", "println!(\"{}\", **got);"),
        _ => ("std::rc::Rc<String>", "std::rc::Rc::new(String::from(\"shared heap string, long enough\"))", "println!(\"{}\", got.len());"),
    }
}

/// program text for a witness (`alive == false`) or its control twin (`alive == true`)
pub fn program(w: &Witness, alive: bool) -> String {
    if w.path.starts_with("auto trait") {
        // the control twin asks for nothing
        let bound = if alive { String::new() } else { format!(": {}", w.death) };
        let make = match w.referent.as_str() {
            "DeserializationContext" => "    let input = [0u8; 4];\n    let ctx = DeserializationContext::new(&input);\n    need(&ctx);\n",
            "SerializationContext" => "    let ctx = SerializationContext::new(Vec::new());\n    need(&ctx);\n",
            "State (reader)" => "    let input = [0u8; 4];\n    let mut ctx = DeserializationContext::new(&input);\n    need(ctx.state_mut());\n",
            _ => "    let mut ctx = SerializationContext::new(Vec::new());\n    need(ctx.state_mut());\n",
        };
        return format!("#![forbid(unsafe_code)]\n#![allow(unused)]\nuse desert::*;\nfn need<T{bound}>(_t: &T) {{}}\nfn main() {{\n{make}}}\n");
    }
    let (ty, ctor, observe) = referent_expr(&w.referent);
    let head = "#![forbid(unsafe_code)]\n#![allow(unused)]\nuse desert::*;\nuse desert::serializer::StoreRefResult;\n";
    // how the referent dies between 'register' and 'use': the control keeps it alive until after the use
    let (open, kill, close_alive) = match (w.death.as_str(), alive) {
        (_, true) => (format!("    let referent: {ty} = {ctor};\n"), String::new(), "    drop(referent);\n".to_string()),
        ("scope", false) => (format!("    {{\n    let referent: {ty} = {ctor};\n"), "    }\n".to_string(), String::new()),
        ("drop", false) => (format!("    let referent: {ty} = {ctor};\n"), "    drop(referent);\n".to_string(), String::new()),
        ("moved", false) => (format!("    let referent: {ty} = {ctor};\n"), "    consume(referent);\n".to_string(), String::new()),
        (_, false) => (format!("    let mut holder: Vec<{ty}> = vec![{ctor}];\n    let referent = &holder[0];\n"), "    for _ in 0..64 { let c = holder[0].clone(); holder.push(c); }\n".to_string(), String::new()),
    };
    let rf = if w.death == "realloc" && !alive { "referent" } else { "&referent" };
    let body = match w.path.as_str() {
        // per-stream object table on the writer side
        "store_ref->get_ref_by_id" => format!(
            "    let mut ctx = SerializationContext::new(Vec::new());\n    let id;\n{open}    id = match ctx.state_mut().store_ref({rf}) {{ StoreRefResult::RefIsNew {{ new_id, .. }} => new_id, StoreRefResult::RefAlreadyStored {{ id }} => id }};\n{kill}    let any = ctx.state_mut().get_ref_by_id(id).unwrap();\n    let got = any.downcast_ref::<{ty}>().unwrap();\n    {observe}\n{close_alive}"
        ),
        "store_ref_or_object->get_ref_by_id" => format!(
            "    let mut ctx = SerializationContext::new(Vec::new());\n{open}    ctx.store_ref_or_object({rf}).unwrap();\n{kill}    let any = ctx.state_mut().get_ref_by_id(RefId(1)).unwrap();\n    let got = any.downcast_ref::<{ty}>().unwrap();\n    {observe}\n{close_alive}"
        ),
        // the reader side
        "store_ref->try_read_ref" => format!(
            "    let input = [1u8];\n    let mut ctx = DeserializationContext::new(&input);\n{open}    ctx.state_mut().store_ref({rf});\n{kill}    let any = ctx.try_read_ref().unwrap().unwrap();\n    let got = any.downcast_ref::<{ty}>().unwrap();\n    {observe}\n{close_alive}"
        ),
        // borrowed byte slices handed out by the inputs
        "SliceInput::read_bytes" => format!(
            "    let got: &[u8];\n{open_buf}    let mut input = SliceInput::new(&buffer);\n    got = input.read_bytes(4).unwrap();\n{kill_buf}    println!(\"{{}}\", got[0]);\n{close_buf}",
            open_buf = buf_open(&w.death, alive),
            kill_buf = buf_kill(&w.death, alive),
            close_buf = if alive { "    drop(buffer);\n" } else { "" }
        ),
        "DeserializationContext::read_bytes" => format!(
            "    let got: &[u8];\n{open_buf}    let mut ctx = DeserializationContext::new(&buffer);\n    got = ctx.read_bytes(4).unwrap();\n{kill_buf}    println!(\"{{}}\", got[0]);\n{close_buf}",
            open_buf = buf_open(&w.death, alive),
            kill_buf = buf_kill(&w.death, alive),
            close_buf = if alive { "    drop(buffer);\n" } else { "" }
        ),
        "OwnedInput::read_bytes" => {
            if alive {
                "    let mut input = OwnedInput::new(vec![7u8; 64]);\n    let got = input.read_bytes(4).unwrap();\n    println!(\"{}\", got[0]);\n".to_string()
            } else {
                match w.death.as_str() {
                    "scope" => "    let got: &[u8];\n    {\n    let mut input = OwnedInput::new(vec![7u8; 64]);\n    got = input.read_bytes(4).unwrap();\n    }\n    println!(\"{}\", got[0]);\n".to_string(),
                    "drop" => "    let mut input = OwnedInput::new(vec![7u8; 64]);\n    let got = input.read_bytes(4).unwrap();\n    drop(input);\n    println!(\"{}\", got[0]);\n".to_string(),
                    "moved" => "    let mut input = OwnedInput::new(vec![7u8; 64]);\n    let got = input.read_bytes(4).unwrap();\n    consume(input);\n    println!(\"{}\", got[0]);\n".to_string(),
                    _ => "    let mut input = OwnedInput::new(vec![7u8; 64]);\n    let got = input.read_bytes(4).unwrap();\n    let again = input.read_bytes(4).unwrap();\n    println!(\"{} {}\", got[0], again[0]);\n".to_string(),
                }
            }
        }
        "try_read_ref outlives the context" => {
            let tail = if alive { format!("    {observe}\n    drop(ctx);\n") } else { format!("    drop(ctx);\n    {observe}\n") };
            format!("    let referent: {ty} = {ctor};\n    let input = [1u8];\n    let mut ctx = DeserializationContext::new(&input);\n    ctx.state_mut().store_ref(&referent);\n    let any = ctx.try_read_ref().unwrap().unwrap();\n    let got = any.downcast_ref::<{ty}>().unwrap();\n{tail}")
        }
        // a reference from the object table must not outlive the table
        _ => {
            if alive {
                format!("    let referent: {ty} = {ctor};\n    let mut ctx = SerializationContext::new(Vec::new());\n    ctx.store_ref_or_object(&referent).unwrap();\n    let any = ctx.state_mut().get_ref_by_id(RefId(1)).unwrap();\n    let got = any.downcast_ref::<{ty}>().unwrap();\n    {observe}\n")
            } else {
                format!("    let referent: {ty} = {ctor};\n    let mut ctx = SerializationContext::new(Vec::new());\n    ctx.store_ref_or_object(&referent).unwrap();\n    let any = ctx.state_mut().get_ref_by_id(RefId(1)).unwrap();\n    let got = any.downcast_ref::<{ty}>().unwrap();\n    drop(ctx);\n    {observe}\n")
            }
        }
    };
    format!("{head}fn consume<T>(_t: T) {{}}\nfn main() {{\n{body}}}\n")
}

fn buf_open(death: &str, alive: bool) -> String {
    match (death, alive) {
        (_, true) | ("drop", false) | ("moved", false) => "    let buffer: Vec<u8> = vec![7u8; 64];\n".to_string(),
        ("scope", false) => "    {\n    let buffer: Vec<u8> = vec![7u8; 64];\n".to_string(),
        _ => "    let mut buffer: Vec<u8> = vec![7u8; 64];\n".to_string(),
    }
}
fn buf_kill(death: &str, alive: bool) -> String {
    match (death, alive) {
        (_, true) => String::new(),
        ("scope", false) => "    }\n".to_string(),
        ("drop", false) => "    drop(buffer);\n".to_string(),
        ("moved", false) => "    consume(buffer);\n".to_string(),
        _ => "    buffer.extend_from_slice(&[0u8; 4096]);\n".to_string(),
    }
}

pub fn all_witnesses() -> Vec<Witness> {
    let mut v = Vec::new();
    for path in ["store_ref->get_ref_by_id", "store_ref_or_object->get_ref_by_id", "store_ref->try_read_ref"] {
        for death in ["scope", "drop", "moved", "realloc"] {
            for referent in ["String", "Vec<u8>", "Box<u64>", "Rc<String>"] {
                v.push(Witness { path: path.into(), death: death.into(), referent: referent.into() });
            }
        }
    }
    for path in ["SliceInput::read_bytes", "DeserializationContext::read_bytes", "OwnedInput::read_bytes"] {
        for death in ["scope", "drop", "moved", "realloc"] {
            v.push(Witness { path: path.into(), death: death.into(), referent: "Vec<u8>".into() });
        }
    }
    // auto traits: the contexts hold the object table (raw pointers to objects of the thread that registered them);
    // a program that needs them to be Send or Sync must be rejected
    for holder in ["DeserializationContext", "SerializationContext", "State (reader)", "State (writer)"] {
        for bound in ["Send", "Sync"] {
            v.push(Witness { path: format!("auto trait {bound}"), death: bound.into(), referent: holder.into() });
        }
    }
    for referent in ["String", "Vec<u8>", "Box<u64>", "Rc<String>"] {
        v.push(Witness { path: "get_ref_by_id outlives the context".into(), death: "drop".into(), referent: referent.into() });
        v.push(Witness { path: "try_read_ref outlives the context".into(), death: "drop".into(), referent: referent.into() });
    }
    v
}

/// the recorded defect F15: the per-stream object table erases the borrow's lifetime
fn is_f15(w: &Witness) -> bool {
    matches!(w.path.as_str(), "store_ref->get_ref_by_id" | "store_ref_or_object->get_ref_by_id" | "store_ref->try_read_ref")
}

fn deps_dir() -> PathBuf {
    // the running binary lives in <target>/<profile>/vcheck
    let exe = std::env::current_exe().expect("exe");
    exe.parent().unwrap().join("deps")
}

fn newest(dir: &PathBuf, prefix: &str, suffix: &str) -> Option<PathBuf> {
    let mut best: Option<(std::time::SystemTime, PathBuf)> = None;
    for e in std::fs::read_dir(dir).ok()? {
        let e = e.ok()?;
        let n = e.file_name().to_string_lossy().to_string();
        if n.starts_with(prefix) && n.ends_with(suffix) {
            let t = e.metadata().ok()?.modified().ok()?;
            if best.as_ref().map(|b| t > b.0).unwrap_or(true) {
                best = Some((t, e.path()));
            }
        }
    }
    best.map(|b| b.1)
}

/// compiles the program; Ok(true) = accepted, Ok(false) = rejected (with the error codes found)
fn compile(src: &str, tag: &str, work: &PathBuf) -> Result<(bool, Vec<String>, String), String> {
    let deps = deps_dir();
    let rlib = newest(&deps, "libdesert-", ".rlib").ok_or("desert rlib not found")?;
    let file = work.join(format!("{tag}.rs"));
    std::fs::write(&file, src).map_err(|e| e.to_string())?;
    let out = std::process::Command::new("rustc")
        .args(["--edition", "2021", "--crate-type", "bin", "--emit=metadata", "--error-format=short", "-A", "warnings", "-o"])
        .arg(work.join(format!("{tag}.rmeta")))
        .arg("-L")
        .arg(format!("dependency={}", deps.display()))
        .arg("--extern")
        .arg(format!("desert={}", rlib.display()))
        .arg(&file)
        .output()
        .map_err(|e| format!("rustc: {e}"))?;
    let stderr = String::from_utf8_lossy(&out.stderr).to_string();
    let mut codes: Vec<String> = Vec::new();
    for part in stderr.split("error[").skip(1) {
        if let Some(end) = part.find(']') {
            codes.push(part[..end].to_string());
        }
    }
    codes.sort();
    codes.dedup();
    Ok((out.status.success(), codes, stderr.chars().take(400).collect()))
}

const BORROW_ERRORS: [&str; 9] = ["E0597", "E0505", "E0499", "E0502", "E0515", "E0716", "E0521", "E0506", "E0382"];

fn run_witnesses(cx: &Cx, acc: &mut Acc, lines: &std::sync::Mutex<Vec<String>>, shard: usize) {
    let work = crate::out_root().join("work").join(format!("C19-witness-{}-{shard}", std::process::id()));
    std::fs::create_dir_all(&work).ok();
    let ws = all_witnesses();
    for (i, w) in ws.iter().enumerate() {
        if i % cx.shards != shard {
            continue;
        }
        let tag = format!("w{i}");
        let control = match compile(&program(w, true), &format!("{tag}_control"), &work) {
            Ok(c) => c,
            Err(e) => {
                acc.violation(format!("HARNESS: cannot compile witnesses: {e}"), json!({"witness": w}));
                break;
            }
        };
        if !control.0 {
            // the control must compile, otherwise a rejection of the witness proves nothing
            acc.violation(format!("HARNESS: the control twin of witness {w:?} does not compile: {}", control.2), json!({"witness": w, "control": true}));
            break;
        }
        let wit = match compile(&program(w, false), &tag, &work) {
            Ok(c) => c,
            Err(e) => {
                acc.violation(format!("HARNESS: {e}"), json!({"witness": w}));
                break;
            }
        };
        let class = format!("witness: {}", w.path);
        acc.case(&class, hash_json(w), true);
        if acc.wants_sample(&class) {
            acc.sample(&class, json!({"witness": w, "program": program(w, false), "compiler": if wit.0 { "ACCEPTED".to_string() } else { format!("rejected {:?}", wit.1) }}));
        }
        if wit.0 {
            if is_f15(w) {
                *acc.known.entry("F15".into()).or_insert(0) += 1;
                let mut l = lines.lock().unwrap();
                if l.is_empty() {
                    l.push("KNOWN-FINDING: property=C19 F15 a program under #![forbid(unsafe_code)] registers an object with State::store_ref / store_ref_or_object, lets it die, and gets a reference to it back from get_ref_by_id / try_read_ref (the object table erases the borrow's lifetime)".to_string());
                }
            } else {
                let what = if w.path.starts_with("auto trait") { "a safe program that needs a context (and with it the table of raw object pointers) to cross threads" } else { "a safe program that uses a reference after its referent died" };
                acc.violation(format!("{what} is ACCEPTED by the compiler: {w:?}\n{}", program(w, false)), json!({"witness": w}));
                break;
            }
        } else if w.path.starts_with("auto trait") && wit.1.iter().any(|c| c == "E0277") {
            acc.bump("witnesses_rejected_for_a_missing_auto_trait", 1);
        } else if !wit.1.iter().any(|c| BORROW_ERRORS.contains(&c.as_str())) {
            acc.violation(format!("HARNESS: witness {w:?} is rejected, but not by the borrow checker: {:?} {}", wit.1, wit.2), json!({"witness": w}));
            break;
        } else {
            acc.bump("witnesses_rejected_by_the_borrow_checker", 1);
        }
    }
    std::fs::remove_dir_all(&work).ok();
}

// ------------------------------------------------------------------------------------------------ unsafe decode paths

#[derive(Debug, Clone, Serialize, Deserialize)]
pub struct UnsafeCase {
    pub ty: Ty,
    pub val: Val,
    pub ops: Vec<TOp>,
}

use vmodel::typelists::unsafe_path_types;

fn unsafe_case_strategy() -> BoxedStrategy<UnsafeCase> {
    let cfg = ValCfg { max_len: 6, long: false, ..ValCfg::default() };
    prop::sample::select(unsafe_path_types())
        .prop_flat_map(move |ty| {
            // strings from the six-string alphabet where the string table is involved (repeats), and longer lists
            let cfg = if vmodel::refcodec::has_dedup_sources(&ty) { ValCfg { small_alphabet: true, max_len: 12, long: false, ..ValCfg::default() } } else { cfg };
            (val_strategy(&ty, cfg), Just(ty), prop_oneof![1 => Just(vec![]), 5 => tops_strategy()])
        })
        .prop_map(|(val, ty, ops)| UnsafeCase { ty, val, ops })
        .boxed()
}

/// encoding, succeeding or failing, under two different fillings of fresh and of freed heap memory: the bytes (or the
/// error) must not depend on it, and whatever the call allocated is released exactly once (a second release, or a
/// write into a released block, ends the worker process — reported with the case that was running)
pub fn check_enc_safety(c: &crate::props::builtin::TV, acc: &mut Acc, record: bool) -> Verdict {
    let run = || crate::run::guarded(|| vcat::encode(&c.ty, &c.val).0.map_err(|e| e.kind));
    let plain = run();
    let a = crate::alloc::with_poison(0x53, run);
    let b = crate::alloc::with_poison(0xAC, run);
    if record {
        let failing = matches!(&plain, Ok(Err(_)));
        acc.case(if failing { "encode that fails (error path through buffers)" } else { "encode" }, hash_json(c), failing && c.ty.any(&|t| matches!(t, Ty::Adt(_))));
    }
    let hashy = c.ty.any(&|t| matches!(t, Ty::HashSet(_) | Ty::HashMap(..)));
    let same = |x: &Result<Result<Vec<u8>, String>, String>, y: &Result<Result<Vec<u8>, String>, String>| match (x, y) {
        (Ok(Ok(p)), Ok(Ok(q))) => hashy && p.len() == q.len() || p == q,
        (Ok(Err(p)), Ok(Err(q))) => p == q,
        _ => false,
    };
    if let Err(p) = &plain {
        return Verdict::Fail(format!("encoding {} as {} panicked: {p}", c.val.brief(), c.ty.render()));
    }
    if !same(&plain, &a) || !same(&plain, &b) {
        return Verdict::Fail(format!("encoding {} as {} depends on what heap memory contains: {:?} / {:?} / {:?}", c.val.brief(), c.ty.render(), plain.as_ref().map(|r| r.as_ref().map(|b| hex(b))), a.as_ref().map(|r| r.as_ref().map(|b| hex(b))), b.as_ref().map(|r| r.as_ref().map(|b| hex(b)))));
    }
    Verdict::Pass
}

#[derive(Debug, Clone, Serialize, Deserialize)]
pub struct FickleCase {
    pub base: usize,
    pub grow: usize,
    /// 0 serialize_to_byte_vec, 1 serialize_to_bytes, 2 serialize into a Vec
    pub entry: u8,
    pub bulk: bool,
}

/// A BinarySerializer written in safe code whose output grows by `grow` bytes with every call on the same value
/// (interior mutability: an audit counter, a cache filled on first use). Whatever an entry point does with it — call it
/// once, or more than once — the buffer it returns must own every byte it claims to hold.
struct Fickle {
    calls: std::cell::Cell<usize>,
    base: usize,
    grow: usize,
    bulk: bool,
}
impl desert::BinarySerializer for Fickle {
    fn serialize<O: desert::BinaryOutput>(&self, ctx: &mut desert::SerializationContext<O>) -> desert::Result<()> {
        use desert::BinaryOutput as _;
        let n = self.base + self.calls.get() * self.grow;
        self.calls.set(self.calls.get() + 1);
        if self.bulk {
            ctx.write_bytes(&vec![0xABu8; n]);
        } else {
            for _ in 0..n {
                ctx.write_u8(0xAB);
            }
        }
        Ok(())
    }
}

pub fn check_fickle(c: &FickleCase, acc: &mut Acc, record: bool) -> Verdict {
    if record {
        acc.case("serializer whose output grows from call to call", hash_json(c), true);
    }
    let run = || {
        crate::run::guarded(|| {
            let f = Fickle { calls: std::cell::Cell::new(0), base: c.base, grow: c.grow, bulk: c.bulk };
            let (len, cap, content_ok) = match c.entry % 3 {
                0 => {
                    let v = desert::serialize_to_byte_vec(&f).map_err(|e| vcat::errinfo(&e).kind)?;
                    (v.len(), v.capacity(), v.len() <= v.capacity() && v.iter().all(|b| *b == 0xAB))
                }
                1 => {
                    let v = desert::serialize_to_bytes(&f).map_err(|e| vcat::errinfo(&e).kind)?;
                    (v.len(), v.len(), v.iter().all(|b| *b == 0xAB))
                }
                _ => {
                    let v = desert::serialize(&f, Vec::new()).map_err(|e| vcat::errinfo(&e).kind)?;
                    (v.len(), v.capacity(), v.len() <= v.capacity() && v.iter().all(|b| *b == 0xAB))
                }
            };
            Ok::<_, String>((len, cap, content_ok, f.calls.get()))
        })
    };
    for fill in [None, Some(0x53u8), Some(0xAC)] {
        let r = match fill {
            None => run(),
            Some(x) => crate::alloc::with_poison(x, run),
        };
        match r {
            Ok(Ok((len, cap, content_ok, calls))) => {
                // the length is what one of the calls wrote, the buffer owns it, and every byte came from the serializer
                let legit = (0..calls.max(1)).any(|k| len == c.base + k * c.grow);
                if len > cap || !content_ok || !legit {
                    return Verdict::Fail(format!("a serializer that wrote {} bytes at first and {} more per call ({calls} calls) gives a buffer that claims {len} bytes, owns {cap}, contents from the serializer: {content_ok}", c.base, c.grow));
                }
            }
            Ok(Err(e)) => return Verdict::Fail(format!("encoding failed: {e}")),
            Err(p) => return Verdict::Fail(format!("encoding panicked: {p}")),
        }
    }
    Verdict::Pass
}

pub fn check_unsafe(c: &UnsafeCase, acc: &mut Acc, record: bool) -> Verdict {
    let frag = match ref_encode(&c.ty, &c.val) {
        Ok(f) => f,
        Err(_) => return Verdict::Skip,
    };
    let (bytes, applied) = apply(&frag, &c.ops, None);
    let reference = ref_decode(&c.ty, &bytes);
    if let Err(vmodel::refcodec::DecErr::ZeroWidthFlood(_)) = &reference {
        if record {
            acc.exclude("F12: zero-width flood");
        }
        return Verdict::Skip;
    }
    let real = match crate::run::guarded(|| vcat::decode(&c.ty, &bytes)) {
        Ok(r) => r,
        Err(p) => return Verdict::Fail(format!("decoding {} as {} panicked: {p}", hex(&bytes), c.ty.render())),
    };
    if record {
        let class = format!("unsafe decode path: {}", match &c.ty {
            Ty::Array(e, _) if **e == Ty::U8 => "[u8; N]".to_string(),
            Ty::Array(..) => "[T; N]".to_string(),
            Ty::Vec(e) if **e == Ty::U8 => "Vec<u8>".to_string(),
            Ty::Vec(_) => "Vec<T>".to_string(),
            other => other.render(),
        });
        // non-trivial: a count different from N / a length different from the buffer reached the unsafe block
        let mismatch = bytes != frag.bytes;
        acc.case(&class, hash_json(&(&c.ty, &bytes)), mismatch);
        if mismatch && acc.wants_sample(&class) {
            acc.sample(&class, json!({"type": c.ty.render(), "fault": applied.kinds, "input_hex": hex(&bytes[..bytes.len().min(48)]), "desert": format!("{:?}", real.as_ref().map(|v| v.brief()).map_err(|e| e.kind.clone())), "reference": format!("{:?}", reference.as_ref().map(|(v, _)| v.brief()))}));
        }
    }
    // every value produced by decoding is built from initialised data taken from the input: decoding again with the
    // allocator handing out memory pre-filled with another byte must give the same value
    if let Ok(v) = &real {
        let a = crate::alloc::with_poison(0x53, || crate::run::guarded(|| vcat::decode(&c.ty, &bytes)));
        let b = crate::alloc::with_poison(0xAC, || crate::run::guarded(|| vcat::decode(&c.ty, &bytes)));
        let same = |x: &Result<Result<Val, vmodel::ErrInfo>, String>| matches!(x, Ok(Ok(w)) if canon(&c.ty, w) == canon(&c.ty, v));
        if !same(&a) || !same(&b) {
            return Verdict::Fail(format!("decoding {} as {} depends on what fresh heap memory contains: {} / {:?} / {:?} — uninitialised memory reaches the result", hex(&bytes), c.ty.render(), v.brief(), a.map(|r| r.map(|w| w.brief())), b.map(|r| r.map(|w| w.brief()))));
        }
    }
    match (real, reference) {
        (Ok(v), Ok((rv, _))) if canon(&c.ty, &v) == canon(&c.ty, &rv) => Verdict::Pass,
        (Ok(v), r) => Verdict::Fail(format!("decoding {} as {} returned {} — content the input does not denote (the reference decoder says {:?})", hex(&bytes), c.ty.render(), v.brief(), r.map(|(x, _)| x.brief()))),
        (Err(_), _) => Verdict::Pass,
    }
}

// ------------------------------------------------------------------------------------------------ reads stay inside the buffer

#[derive(Debug, Clone, Serialize, Deserialize)]
pub struct SurroundCase {
    pub ty: Ty,
    pub val: Val,
    pub ops: Vec<TOp>,
    pub raw: Option<Vec<u8>>,
}

/// the input placed inside a larger buffer: 32 bytes before, 512 bytes after, filled with `canary`
fn surrounded(input: &[u8], canary: u8) -> (Vec<u8>, std::ops::Range<usize>) {
    let mut b = vec![canary; 32];
    b.extend_from_slice(input);
    let r = 32..32 + input.len();
    b.extend(std::iter::repeat(canary).take(512));
    (b, r)
}

fn surround_strategy() -> BoxedStrategy<SurroundCase> {
    let cfg = ValCfg { max_len: 4, long: false, ..ValCfg::default() };
    // run-time struct declarations at some version of a generated history (the tolerant client needs named fields)
    let decl = (vmodel::declgen::history_spec_strategy(5, 6), any::<u16>()).prop_map(|(spec, vsel)| {
        let versions = vmodel::declgen::build_history(&spec, &vmodel::declgen::dynamic_menu(true));
        let i = vmodel::gen::pick(vsel, versions.len());
        Ty::Adt(vmodel::declgen::struct_decl(&format!("DynW{:08x}v{i}", hash_json(&spec) as u32), &versions[i]))
    });
    (decl, tops_strategy(), prop_oneof![4 => Just(None), 1 => proptest::collection::vec(any::<u8>(), 0..40).prop_map(Some)])
        .prop_flat_map(move |(ty, ops, raw)| (val_strategy(&ty, cfg), Just(ty), Just(ops), Just(raw)))
        .prop_map(|(val, ty, ops, raw)| SurroundCase { ty, val, ops, raw })
        .boxed()
}

/// Whatever a client does through the safe API — including carrying on with the same AdtDeserializer after a field
/// failed — the outcome must be a function of the supplied bytes only. The same input is decoded inside two
/// different surroundings (canary 0x53 / 0xAC before and after it): any read outside the buffer shows up as a
/// difference (or kills the process, which the supervisor reports).
pub fn check_surround(c: &SurroundCase, acc: &mut Acc, record: bool) -> Verdict {
    let input = match &c.raw {
        Some(r) => r.clone(),
        None => match ref_encode(&c.ty, &c.val) {
            Ok(f) => apply(&f, &c.ops, None).0,
            Err(_) => return Verdict::Skip,
        },
    };
    if let Err(vmodel::refcodec::DecErr::ZeroWidthFlood(_)) = ref_decode(&c.ty, &input) {
        return Verdict::Skip;
    }
    let run = |canary: u8| -> (String, String) {
        let (buf, r) = surrounded(&input, canary);
        let slice = &buf[r];
        let plain = match crate::run::guarded(|| vcat::decode(&c.ty, slice)) {
            Ok(Ok(v)) => format!("Ok {:?}", canon(&c.ty, &v)),
            Ok(Err(e)) => format!("Err {}", e.kind),
            Err(_) => "panic".to_string(),
        };
        let tolerant = match crate::run::guarded(|| vcat::decode_tolerantly(&c.ty, slice)) {
            Ok(v) => v.join(" | "),
            // a panic is not a memory-safety matter (and not C05's either: the client ignored an error)
            Err(_) => "panic".to_string(),
        };
        (plain, tolerant)
    };
    let a = run(0x53);
    let b = run(0xAC);
    if record {
        let errs = a.1.matches("=Err").count();
        let oks = a.1.matches("=Ok").count();
        let class = if errs > 0 && oks > 0 { "tolerant client: some fields fail, later ones read" } else if errs > 0 { "tolerant client: fields fail" } else { "tolerant client: all fields read" };
        acc.case(class, hash_json(&(&c.ty, &input)), errs > 0 && a.1.find("=Err").map(|i| a.1[i..].contains("=Ok")).unwrap_or(false));
        if errs > 0 && oks > 0 && acc.wants_sample(class) {
            acc.sample(class, json!({"type": c.ty.render(), "input_hex": hex(&input[..input.len().min(48)]), "fields": a.1.chars().take(300).collect::<String>()}));
        }
    }
    if a != b {
        let which = if a.0 != b.0 { format!("deserialize: {} vs {}", a.0.chars().take(200).collect::<String>(), b.0.chars().take(200).collect::<String>()) } else { format!("field-by-field reading that carries on after an error: {} vs {}", a.1.chars().take(300).collect::<String>(), b.1.chars().take(300).collect::<String>()) };
        return Verdict::Fail(format!("decoding the same {} input bytes ({}) as {} gives different results depending on what lies around the buffer — bytes outside the supplied slice were read. {which}", input.len(), hex(&input[..input.len().min(64)]), c.ty.render()));
    }
    Verdict::Pass
}

/// compressed blocks whose header lies about the uncompressed length: the bytes handed back must all come from the
/// inflated stream (allocator pre-fill oracle)
#[derive(Debug, Clone, Serialize, Deserialize)]
pub struct FrameCase {
    pub content: Vec<u8>,
    pub level: u32,
    pub declared: u32,
}

fn frame_strategy() -> BoxedStrategy<FrameCase> {
    (proptest::collection::vec(any::<u8>(), 0..300), 0u32..=9, prop_oneof![0u32..400, prop::sample::select(vec![4096u32, 65535, 65536, 65537, 100_000])]).prop_map(|(content, level, declared)| FrameCase { content, level, declared }).boxed()
}

pub fn check_frame(c: &FrameCase, acc: &mut Acc, record: bool) -> Verdict {
    use desert::{BinaryInput, BinaryOutput};
    let mut z = Vec::new();
    z.write_compressed(&c.content, flate2::Compression::new(c.level)).expect("compress");
    // replace the first varint (uncompressed length) by the declared one
    let mut p = 0;
    while z[p] & 0x80 != 0 {
        p += 1;
    }
    let mut frame = vmodel::refcodec::var_u32_bytes(c.declared);
    frame.extend_from_slice(&z[p + 1..]);
    if record {
        let class = if c.declared as usize > c.content.len() { "compressed block: header overstates the length" } else { "compressed block: header understates / matches" };
        acc.case(class, hash_json(c), c.declared as usize != c.content.len());
        if acc.wants_sample(class) {
            acc.sample(class, json!({"content_len": c.content.len(), "declared": c.declared, "level": c.level}));
        }
    }
    let run = |poison: u8| crate::alloc::with_poison(poison, || crate::run::guarded(|| desert::SliceInput::new(&frame).read_compressed().map_err(|e| vcat::errinfo(&e).kind)));
    let (a, b) = (run(0x53), run(0xAC));
    match (&a, &b) {
        (Ok(x), Ok(y)) if x == y => match x {
            // raw deflate has no checksum, but an intact stream inflates to what was compressed
            Ok(bytes) if *bytes != c.content => Verdict::Fail(format!("an intact deflate stream of {} bytes with declared length {} was read as {} bytes", c.content.len(), c.declared, bytes.len())),
            _ => Verdict::Pass,
        },
        _ => Verdict::Fail(format!("read_compressed with declared length {} over a stream of {} bytes returns data that depends on the content of fresh heap memory ({:?} vs {:?}): uninitialised memory is exposed", c.declared, c.content.len(), a.as_ref().map(|r| r.as_ref().map(|v| v.len())), b.as_ref().map(|r| r.as_ref().map(|v| v.len())))),
    }
}

// ---- decoded values own their data: nothing in them may point into the input buffer

#[derive(Debug, Clone, Serialize, Deserialize)]
pub struct AliasCase {
    pub shape: u8,
    pub len: usize,
    pub fill: u8,
}

/// decodes a value with a byte / string payload of `len` bytes from a heap buffer, then overwrites and frees that
/// buffer (and lets an allocation of the same size take its place): the value must still be what was written
pub fn check_alias(c: &AliasCase, acc: &mut Acc, record: bool) -> Verdict {
    let a = |t: Ty| Arc::new(t);
    let payload: Vec<u8> = (0..c.len).map(|i| (i as u8).wrapping_mul(c.fill | 1).wrapping_add(c.fill)).collect();
    let text: String = (0..c.len).map(|i| (b'a' + ((i as u8).wrapping_add(c.fill) % 26)) as char).collect();
    let (ty, val) = match c.shape % 6 {
        0 => (Ty::Bytes, Val::Bytes(payload.clone())),
        1 => (Ty::Vec(a(Ty::U8)), Val::Bytes(payload.clone())),
        2 => (Ty::Str, Val::Str(text.clone())),
        3 => (Ty::Vec(a(Ty::Bytes)), Val::Seq(vec![Val::Bytes(payload.clone()), Val::Bytes(vec![c.fill; 3]), Val::Bytes(payload.clone())])),
        4 => (Ty::Tuple(vec![Ty::U8, Ty::Bytes, Ty::Str]), Val::Tuple(vec![Val::Int(9), Val::Bytes(payload.clone()), Val::Str(text.clone())])),
        _ => (Ty::Option(a(Ty::Dedup)), Val::some(Val::Str(text.clone()))),
    };
    let frag = match ref_encode(&ty, &val) {
        Ok(f) => f,
        Err(_) => return Verdict::Skip,
    };
    if record {
        let class = format!("decoded value outlives its input: {}", vmodel::gen::root_class(&ty));
        acc.case(&class, hash_json(c), c.len >= 64);
    }
    let mut input: Vec<u8> = frag.bytes.clone();
    let n = input.len();
    let decoded = match crate::run::guarded(|| vcat::decode_only(&ty, &input)) {
        Ok(Ok(l)) => l,
        Ok(Err(e)) => return Verdict::Fail(format!("decoding a valid encoding of {} failed: {e:?}", ty.render())),
        Err(p) => return Verdict::Fail(format!("decoding a valid encoding of {} panicked: {p}", ty.render())),
    };
    // the input goes away
    for b in input.iter_mut() {
        *b = 0xEE;
    }
    drop(input);
    let squatter = vec![0x11u8; n];
    let after = decoded.to_val();
    std::hint::black_box(&squatter);
    if vmodel::canon(&ty, &after) != vmodel::canon(&ty, &val) {
        return Verdict::Fail(format!("a {} decoded from a {n}-byte buffer changed after the buffer was overwritten and freed: the value points into the caller's input", ty.render()));
    }
    Verdict::Pass
}

// ---- a client-written BinaryInput (safe code) that hands out short slices at the end of its data

/// reads from `data[..len]`; `read_bytes(n)` with fewer than n bytes left returns what is left (a lenient tail), as a
/// chunked or streaming input written by a client may
struct TailInput<'a> {
    data: &'a [u8],
    pos: usize,
}
impl desert::BinaryInput for TailInput<'_> {
    fn read_u8(&mut self) -> desert::Result<u8> {
        let b = *self.data.get(self.pos).ok_or(desert::Error::InputEndedUnexpectedly)?;
        self.pos += 1;
        Ok(b)
    }
    fn read_bytes(&mut self, count: usize) -> desert::Result<&[u8]> {
        let end = self.pos.saturating_add(count).min(self.data.len());
        let s = &self.data[self.pos..end];
        self.pos = end;
        Ok(s)
    }
    fn skip(&mut self, count: usize) -> desert::Result<()> {
        self.pos = self.pos.saturating_add(count).min(self.data.len());
        Ok(())
    }
}

#[derive(Debug, Clone, Serialize, Deserialize)]
pub struct TailCase {
    pub bytes: Vec<u8>,
    /// which provided method is called (index into the table below)
    pub method: u8,
}

fn tail_call<I: desert::BinaryInput>(i: &mut I, method: u8) -> String {
    use desert::BinaryInput;
    let e = |x: desert::Error| vcat::errinfo(&x).kind;
    match method % 14 {
        0 => format!("{:?}", i.read_u16().map_err(e)),
        1 => format!("{:?}", i.read_i16().map_err(e)),
        2 => format!("{:?}", i.read_u32().map_err(e)),
        3 => format!("{:?}", i.read_i32().map_err(e)),
        4 => format!("{:?}", i.read_u64().map_err(e)),
        5 => format!("{:?}", i.read_i64().map_err(e)),
        6 => format!("{:?}", i.read_u128().map_err(e)),
        7 => format!("{:?}", i.read_i128().map_err(e)),
        8 => format!("{:?}", i.read_f32().map(|x| x.to_bits()).map_err(e)),
        9 => format!("{:?}", i.read_f64().map(|x| x.to_bits()).map_err(e)),
        10 => format!("{:?}", i.read_var_u32().map_err(e)),
        11 => format!("{:?}", i.read_var_i32().map_err(e)),
        12 => format!("{:?}", i.read_i8().map_err(e)),
        _ => format!("{:?}", i.read_compressed().map_err(e)),
    }
}

/// the provided methods of the public trait, on a client input, inside two different surroundings: whatever they
/// return may depend on the bytes the input handed out only
pub fn check_tail(c: &TailCase, acc: &mut Acc, record: bool) -> Verdict {
    let width = [2usize, 2, 4, 4, 8, 8, 16, 16, 4, 8, 0, 0, 1, 0][(c.method % 14) as usize];
    if record {
        let class = format!("client BinaryInput with a lenient tail: provided method {}", ["read_u16", "read_i16", "read_u32", "read_i32", "read_u64", "read_i64", "read_u128", "read_i128", "read_f32", "read_f64", "read_var_u32", "read_var_i32", "read_i8", "read_compressed"][(c.method % 14) as usize]);
        acc.case(&class, hash_json(c), width > 0 && c.bytes.len() < width && !c.bytes.is_empty());
    }
    let mut outcomes = Vec::new();
    for canary in [0x53u8, 0xAC] {
        let mut buf = vec![canary; 64];
        buf.extend_from_slice(&c.bytes);
        buf.extend_from_slice(&[canary; 64]);
        let r = crate::run::guarded(|| {
            let mut i = TailInput { data: &buf[64..64 + c.bytes.len()], pos: 0 };
            let a = tail_call(&mut i, c.method);
            let b = tail_call(&mut i, c.method.wrapping_add(3));
            format!("{a} / {b}")
        });
        outcomes.push(match r {
            Ok(s) => s,
            Err(p) => format!("panic {p}"),
        });
    }
    // SliceInput's fields are public: a safe client can put the cursor anywhere, also behind the end of the slice.
    // Whatever happens then (an error, an unwinding panic), nothing from outside the slice may show.
    let mut moved = Vec::new();
    for canary in [0x53u8, 0xAC] {
        let mut buf = vec![canary; 64];
        buf.extend_from_slice(&c.bytes);
        buf.extend_from_slice(&[canary; 64]);
        let beyond = c.bytes.len() + 1 + (c.method as usize % 40);
        let r = crate::run::guarded(|| {
            let mut i = desert::SliceInput { data: &buf[64..64 + c.bytes.len()], pos: beyond };
            let a = tail_call(&mut i, c.method);
            let b = tail_call(&mut i, c.method.wrapping_add(12));
            format!("{a} / {b}")
        });
        moved.push(match r {
            Ok(s) => s,
            // the panic text names lengths and indices, which are the same in both surroundings
            Err(p) => format!("panic {}", p.split('@').next().unwrap_or(&p)),
        });
    }
    if moved[0] != moved[1] {
        return Verdict::Fail(format!("SliceInput with its public cursor moved behind the end of a {}-byte slice returns data from outside the slice: {} with 0x53 around the buffer, {} with 0xAC around it", c.bytes.len(), moved[0], moved[1]));
    }
    if outcomes[0] != outcomes[1] {
        return Verdict::Fail(format!("a provided BinaryInput method on a client-written input returns data from outside the bytes it was given: over {} it yields {} with 0x53 around the buffer and {} with 0xAC around it", hex(&c.bytes), outcomes[0], outcomes[1]));
    }
    Verdict::Pass
}

pub fn run_c19(cx: &Cx) -> PropResult {
    let per_shard = cx.n(40_000, 1_000_000);
    let lines = std::sync::Mutex::new(Vec::new());
    let acc = parallel(cx, &|shard, acc| {
        run_witnesses(cx, acc, &lines, shard);
        if !acc.violations.is_empty() {
            return;
        }
        let strat = unsafe_case_strategy();
        if drive(tag_seed(derive_seed(cx.seed, cx.prop, shard as u64, 0), 0), &strat, per_shard, acc, &|c: &UnsafeCase| to_json(c), &mut |c, a, r| check_unsafe(c, a, r)) {
            return;
        }
        let strat = frame_strategy();
        if drive(tag_seed(derive_seed(cx.seed, cx.prop, shard as u64, 2), 2), &strat, per_shard / 8, acc, &|c: &FrameCase| to_json(&json!({"Frame": c})), &mut |c, a, r| check_frame(c, a, r)) {
            return;
        }
        let strat = surround_strategy();
        if drive(tag_seed(derive_seed(cx.seed, cx.prop, shard as u64, 1), 1), &strat, per_shard / 2, acc, &|c: &SurroundCase| to_json(&json!({"Surround": c})), &mut |c, a, r| check_surround(c, a, r)) {
            return;
        }
        let strat = (proptest::collection::vec(any::<u8>(), 0..20), any::<u8>()).prop_map(|(bytes, method)| TailCase { bytes, method });
        if drive(tag_seed(derive_seed(cx.seed, cx.prop, shard as u64, 4), 4), &strat, per_shard / 8, acc, &|c: &TailCase| to_json(&json!({"Tail": c})), &mut |c, a, r| check_tail(c, a, r)) {
            return;
        }
        // the writing side: values of built-in and declared (evolved) types, a good part of which cannot be encoded
        // (characters outside the BMP, transient constructors) so that the error leaves through chunk buffers
        let strat = crate::props::builtin::tv_strategy_ext(3, ValCfg { non_bmp: true, transient_ctors: true, max_len: 5, long: false, ..ValCfg::default() }, true);
        if drive(tag_seed(derive_seed(cx.seed, cx.prop, shard as u64, 6), 6), &strat, per_shard / 4, acc, &|c: &crate::props::builtin::TV| to_json(&json!({"Enc": c})), &mut |c, a, r| check_enc_safety(c, a, r)) {
            return;
        }
        // a serializer (safe code) that writes more every time it is called
        let strat = (prop_oneof![3 => 0usize..40, 1 => 1000usize..5000], 1usize..70, 0u8..3, any::<bool>()).prop_map(|(base, grow, entry, bulk)| FickleCase { base, grow, entry, bulk });
        if drive(tag_seed(derive_seed(cx.seed, cx.prop, shard as u64, 7), 7), &strat, cx.n(1_500, 40_000), acc, &|c: &FickleCase| to_json(&json!({"Fickle": c})), &mut |c, a, r| check_fickle(c, a, r)) {
            return;
        }
        let strat = (any::<u8>(), prop_oneof![3 => 0usize..200, 2 => prop::sample::select(vec![1023usize, 1024, 1025, 4096, 8192, 65_536, 70_000]), 1 => 200usize..20_000], any::<u8>()).prop_map(|(shape, len, fill)| AliasCase { shape, len, fill });
        drive(tag_seed(derive_seed(cx.seed, cx.prop, shard as u64, 5), 5), &strat, cx.n(600, 20_000), acc, &|c: &AliasCase| to_json(&json!({"Alias": c})), &mut |c, a, r| check_alias(c, a, r));
    });
    let mut r = PropResult::new(
        acc,
        "exploration",
        "(1) client programs: witnesses from a template grammar — API path (State::store_ref -> get_ref_by_id, SerializationContext::store_ref_or_object -> get_ref_by_id, store_ref -> DeserializationContext::try_read_ref, read_bytes on SliceInput / OwnedInput / DeserializationContext, a table reference outliving its context; and programs that need DeserializationContext / SerializationContext / State to be Send or Sync) x how the referent dies (inner scope ends, drop, moved into a callee, Vec reallocation / second mutable use) x referent type (String, Vec<u8>, Box<u64>, Rc<String>) — each a crate root with #![forbid(unsafe_code)] compiled by rustc against the freshly built desert rlib; every witness has a control twin that keeps the referent alive and must compile. Oracle: the witness is rejected with a borrow/lifetime error (E0277 for the auto-trait ones); a witness that compiles refutes the property. (2) inputs to the decoding paths written with unsafe code ([T; N] for T in u8, u32, String, Vec<u16>, Option<Box<u64>>, i8, bool, () and N in 0, 1, 3, 16, 17, 33; Vec<u8> / Vec<T>; Bytes; BigInt): valid, count-mismatched, truncated and tampered encodings; every Ok must equal the reference decoder's value (content that does not come from the input is caught without a sanitizer) and must not change when the allocator pre-fills fresh heap memory with 0x53 / 0xAC (uninitialised memory reaching a result is caught without Miri); the thorough tier repeats this corpus under AddressSanitizer (libFuzzer target) and Miri. (2b) compressed blocks whose header overstates / understates the uncompressed length, read under the same allocator pre-fill oracle. (3) reads stay inside the supplied buffer: tampered and raw inputs for run-time struct declarations are decoded — by deserialize and by a tolerant client that keeps reading fields with the same AdtDeserializer after a field failed — inside two different surroundings (canary bytes 0x53 / 0xAC before and after the slice); the outcomes must be identical (a process killed by an out-of-range access is reported by the supervisor); the provided methods of the public BinaryInput trait are called on a client-written input (safe code) whose read_bytes hands out a short slice at its end, under the same two-surroundings oracle, and so are the methods of SliceInput after its public cursor was moved behind the end of the slice. (4) decoded values own their data: byte and string payloads of 0 - 70 000 bytes are decoded from a heap buffer that is then overwritten and freed; the value must be unchanged. Non-trivial = witness whose control compiles; input whose count / length differs from what the target expects. The writing side under the same allocator oracle: generated values of built-in and declared types, many of which cannot be encoded (non-BMP characters, transient constructors inside evolved records), and a serializer in safe code whose output grows with every call (the returned buffer must own what it claims, through serialize_to_byte_vec, serialize_to_bytes and serialize).",
    );
    r.lines = lines.into_inner().unwrap();
    r.assumptions = vec![
        "the space of safe client programs is explored through the witness grammar only (DESIGN section 10)".into(),
        "known finding F15 (store_ref family) is matched by API path; any other accepted witness is a violation".into(),
    ];
    r
}

pub fn replay_c19(case: &Value) -> Verdict {
    if let Some(w) = case.get("witness") {
        let w: Witness = serde_json::from_value(w.clone()).expect("witness");
        let work = crate::out_root().join("work").join(format!("C19-replay-{}", std::process::id()));
        std::fs::create_dir_all(&work).ok();
        let r = compile(&program(&w, false), "replay", &work);
        std::fs::remove_dir_all(&work).ok();
        return match r {
            Ok((true, _, _)) if !is_f15(&w) => Verdict::Fail(format!("the compiler accepts the witness {w:?}")),
            Ok(_) => Verdict::Pass,
            Err(e) => Verdict::Fail(e),
        };
    }
    if case.get("FuzzArtifact").is_some() {
        // an input saved by the libFuzzer target decode_unsafe_paths: the same in-process oracle as the target (C05's
        // check of a raw input), then the sanitizer build itself if it is there
        return crate::props::faults::replay_c05(case);
    }
    if let Some(t) = case.get("Fickle") {
        let c: FickleCase = serde_json::from_value(t.clone()).expect("replay case");
        return check_fickle(&c, &mut Acc::new(), false);
    }
    if let Some(t) = case.get("Enc") {
        let c: crate::props::builtin::TV = serde_json::from_value(t.clone()).expect("replay case");
        return check_enc_safety(&c, &mut Acc::new(), false);
    }
    if let Some(t) = case.get("Alias") {
        let c: AliasCase = serde_json::from_value(t.clone()).expect("replay case");
        return check_alias(&c, &mut Acc::new(), false);
    }
    if let Some(t) = case.get("Tail") {
        let c: TailCase = serde_json::from_value(t.clone()).expect("replay case");
        return check_tail(&c, &mut Acc::new(), false);
    }
    if let Some(f) = case.get("Frame") {
        let c: FrameCase = serde_json::from_value(f.clone()).expect("replay case");
        return check_frame(&c, &mut Acc::new(), false);
    }
    if let Some(sc) = case.get("Surround") {
        let c: SurroundCase = serde_json::from_value(sc.clone()).expect("replay case");
        return check_surround(&c, &mut Acc::new(), false);
    }
    let c: UnsafeCase = serde_json::from_value(case.clone()).expect("replay case");
    check_unsafe(&c, &mut Acc::new(), false)
}

