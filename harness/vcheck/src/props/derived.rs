//! E2 + E3: derived declarations. C02 (round trip + translation validation of the macro expansion).
use crate::run::{drive, parallel, tag_seed, to_json, Cx, Verdict};
use crate::PropResult;
use proptest::prelude::*;
use proptest::strategy::BoxedStrategy;
use serde::{Deserialize, Serialize};
use serde_json::{json, Value};
use std::sync::{Arc, OnceLock};
use vmodel::declgen::{compiled_batch, Batch};
use vmodel::evidence::Acc;
use vmodel::gen::{val_strategy, ValCfg};
use vmodel::refcodec::{ref_decode, ref_encode, ref_encode_forms, EncErr, ScriptForms};
use vmodel::render::decl_src as full_decl_src;
use vmodel::{canon, derive_seed, dynamized, hash_json, hex, with_transient_defaults, Decl, DeclBody, ErrInfo, Ty, Val};

/// declaration source, cut to a readable size (defaults of nested declarations can be very long)
fn decl_src(d: &Decl) -> String {
    let s = full_decl_src(d);
    if s.len() > 1800 {
        let mut cut = 1800;
        while !s.is_char_boundary(cut) {
            cut -= 1;
        }
        format!("{}…", &s[..cut])
    } else {
        s
    }
}

pub fn batch() -> &'static Batch {
    static B: OnceLock<Batch> = OnceLock::new();
    B.get_or_init(|| {
        let (seed, nh, nf) = vcat::compiled::GENERATED_PARAMS;
        let b = compiled_batch(seed, nh, nf);
        if b.hash() != vcat::compiled::GENERATED_HASH {
            eprintln!("harness/vcat/src/generated.rs does not match the declaration generator (hash {} vs {}): re-run vgen", b.hash(), vcat::compiled::GENERATED_HASH);
            std::process::exit(2);
        }
        b
    })
}

/// false for a declaration that had to be left out of this build because the derive macro of the tree under test
/// does not compile it (see ./check and vcat::compiled::EXCLUDED)
pub fn compiled_ok(d: &Decl) -> bool {
    vcat::compiled::is_compiled(&d.name)
}

pub fn group_ok(ds: &[Arc<Decl>]) -> bool {
    ds.iter().all(|d| compiled_ok(d))
}

pub fn decl_features(d: &Decl) -> Vec<&'static str> {
    let mut f = Vec::new();
    let mut rec = |r: &vmodel::Record, f: &mut Vec<&'static str>| {
        if !r.steps.is_empty() {
            f.push("evolution");
        }
        if r.fields.iter().any(|x| x.transient.is_some()) {
            f.push("transient field");
        }
        if r.fields.iter().any(|x| x.is_option()) {
            f.push("Option field");
        }
        fn has(t: &Ty, p: &dyn Fn(&Ty) -> bool) -> bool {
            use Ty::*;
            p(t) || match t {
                Option(a) | Vec(a) | Array(a, _) | LinkedList(a) | HashSet(a) | BTreeSet(a) | Box(a) | Rc(a) | Arc(a) => has(a, p),
                Result(a, b) | HashMap(a, b) | BTreeMap(a, b) => has(a, p) || has(b, p),
                Tuple(ts) => ts.iter().any(|t| has(t, p)),
                _ => false,
            }
        }
        if r.fields.iter().any(|x| has(&x.ty, &|t| matches!(t, Ty::Adt(_)))) {
            f.push("nested declaration");
        }
        if r.fields.iter().any(|x| has(&x.ty, &|t| matches!(t, Ty::Rec(_)))) {
            f.push("recursion");
        }
        if r.fields.iter().any(|x| has(&x.ty, &|t| matches!(t, Ty::Dedup))) {
            f.push("DeduplicatedString");
        }
    };
    match &d.body {
        DeclBody::Struct(r) => rec(r, &mut f),
        DeclBody::Enum { sorted, variants, steps } => {
            if *sorted {
                f.push("sorted constructors");
            }
            if !steps.is_empty() {
                f.push("evolution on the enum itself");
            }
            if variants.iter().any(|v| v.transient) {
                f.push("transient constructor");
            }
            if variants.iter().any(|v| v.shape != vmodel::Shape::Unit) {
                f.push("non-unit variant");
            }
            for v in variants {
                rec(&v.record, &mut f);
            }
        }
    }
    f.sort();
    f.dedup();
    f
}

#[derive(Debug, Clone, Serialize, Deserialize)]
pub struct DeclCase {
    /// a compiled declaration by name, or a run-time one carried in full
    pub compiled: Option<String>,
    pub ty: Ty,
    pub val: Val,
    pub forms: Vec<bool>,
}

fn same_err(real: &ErrInfo, model: &EncErr) -> bool {
    match model {
        EncErr::UnsupportedCharacter(_) => real.kind == "UnsupportedCharacter",
        EncErr::SerializingTransientConstructor { type_name, constructor_name } => {
            real.kind == "SerializingTransientConstructor" && real.detail.contains(&format!("constructor_name: \"{constructor_name}\"")) && real.detail.contains(&format!("type_name: \"{}\"", type_name.trim_start_matches("Dyn_")))
        }
        EncErr::UnknownFieldReferenceInEvolutionStep(n) => real.kind == "UnknownFieldReferenceInEvolutionStep" && real.detail.contains(n),
        EncErr::Shape(_) => false,
    }
}

pub fn check_c02(c: &DeclCase, acc: &mut Acc, record: bool) -> Verdict {
    let d = match &c.ty {
        Ty::Adt(d) => d.clone(),
        _ => return Verdict::Skip,
    };
    let h = hash_json(&(&d.name, &c.val, &c.forms));
    let (enc, as_written) = vcat::encode(&c.ty, &c.val);
    let model = ref_encode(&c.ty, &as_written);
    if record {
        let feats = decl_features(&d);
        let engine = if c.compiled.is_some() { "compiled" } else { "interpreted" };
        let class = format!("{engine}: {}", if feats.is_empty() { "plain".to_string() } else { feats.join(" + ") });
        acc.case(&class, h, !feats.is_empty());
        acc.bump("comparisons_with_model", 3);
        if acc.wants_sample(&class) {
            acc.sample(&class, json!({"declaration": decl_src(&d), "value": c.val.brief(), "bytes_hex": enc.as_ref().map(|b| hex(&b[..b.len().min(64)])).unwrap_or_else(|e| format!("Err {}", e.kind))}));
        }
    }
    // ---- oracle 2a: bytes (or the error) equal the independent interpretation of the declaration
    let bytes = match (&enc, &model) {
        (Ok(b), Ok(m)) => {
            if *b != m.bytes {
                return Verdict::Fail(format!("derived codec of {} wrote {} but the field-by-field procedure gives {} for {}\n{}", d.name, hex(b), hex(&m.bytes), c.val.brief(), decl_src(&d)));
            }
            b.clone()
        }
        (Err(e), Err(m)) => {
            if same_err(e, m) {
                return Verdict::Pass;
            }
            return Verdict::Fail(format!("derived codec of {} failed with {e:?}, the model expects {m:?}", d.name));
        }
        (Ok(b), Err(m)) => return Verdict::Fail(format!("derived codec of {} wrote {} where the model expects the error {m:?}", d.name, hex(b))),
        (Err(e), Ok(_)) => return Verdict::Fail(format!("derived codec of {} cannot encode {}: {e:?}\n{}", d.name, c.val.brief(), decl_src(&d))),
    };
    // ---- oracle 1: round trip with the same definition
    let expected = with_transient_defaults(&c.ty, &c.val);
    match vcat::decode(&c.ty, &bytes) {
        Ok(v) if canon(&c.ty, &v) == canon(&c.ty, &expected) => {}
        Ok(v) => return Verdict::Fail(format!("round trip through {} gave {} instead of {} (bytes {})\n{}", d.name, v.brief(), expected.brief(), hex(&bytes), decl_src(&d))),
        Err(e) => return Verdict::Fail(format!("{} cannot read its own encoding {}: {e:?}\n{}", d.name, hex(&bytes), decl_src(&d))),
    }
    // ---- oracle 2b: a reference encoding in another legal form decodes to what the model reads
    let mut forms = ScriptForms::new(c.forms.clone());
    if let Ok(alt) = ref_encode_forms(&c.ty, &c.val, &mut forms) {
        let want = ref_decode(&c.ty, &alt.bytes);
        match (vcat::decode(&c.ty, &alt.bytes), want) {
            (Ok(v), Ok((m, _))) if canon(&c.ty, &v) == canon(&c.ty, &m) => {}
            (a, b) => return Verdict::Fail(format!("{} reads the reference encoding {} as {:?}, the model as {:?}", d.name, hex(&alt.bytes), a.map(|v| v.brief()), b.map(|(v, _)| v.brief()))),
        }
    }
    // ---- oracle 3: the run-time interpreter (E3) and the macro expansion agree (this licenses E3's volume)
    if c.compiled.is_some() {
        let dty = dynamized(&c.ty);
        let (denc, dyn_written) = vcat::encode(&dty, &as_written);
        match denc {
            // a hash container rebuilt for the interpreter iterates in its own order: then only the length is comparable
            Ok(b) if b == bytes || (dyn_written != as_written && b.len() == bytes.len()) => {}
            other => return Verdict::Fail(format!("E3 interpreter and macro expansion disagree on {}: interpreter {:?}, macro {}", d.name, other.map(|b| hex(&b)), hex(&bytes))),
        }
        let a = vcat::decode(&dty, &bytes);
        let b = vcat::decode(&c.ty, &bytes);
        match (a, b) {
            (Ok(x), Ok(y)) if canon(&dty, &x) == canon(&c.ty, &y) => {}
            (x, y) => return Verdict::Fail(format!("E3 interpreter and macro expansion decode {} differently for {}: {:?} vs {:?}", hex(&bytes), d.name, x.map(|v| v.brief()), y.map(|v| v.brief()))),
        }
    }
    Verdict::Pass
}

fn cfg() -> ValCfg {
    ValCfg { max_len: 4, long: false, transient_ctors: true, ..ValCfg::default() }
}

fn compiled_strategy(d: &Arc<Decl>) -> BoxedStrategy<DeclCase> {
    let ty = Ty::Adt(d.clone());
    let name = d.name.clone();
    (val_strategy(&ty, cfg()), proptest::collection::vec(any::<bool>(), 0..8)).prop_map(move |(val, forms)| DeclCase { compiled: Some(name.clone()), ty: ty.clone(), val, forms }).boxed()
}

fn interpreted_strategy() -> BoxedStrategy<DeclCase> {
    vmodel::declgen::adt_ty_strategy(true)
        .prop_flat_map(|ty| (val_strategy(&ty, cfg()), Just(ty), proptest::collection::vec(any::<bool>(), 0..8)))
        .prop_map(|(val, ty, forms)| DeclCase { compiled: None, ty, val, forms })
        .boxed()
}

/// a value of one of the recursive declarations nested `depth` levels
pub fn deep_value(name: &str, depth: usize) -> Val {
    let mut v = match name {
        "RecTree" => Val::Rec(vec![Val::str("leaf"), Val::Seq(vec![])]),
        "RecList" => Val::Rec(vec![Val::Int(0), Val::None]),
        _ => Val::Variant(0, vec![Val::Int(1)]),
    };
    for k in 0..depth {
        v = match name {
            "RecTree" => Val::Rec(vec![Val::str("n"), Val::Seq(vec![v, Val::Rec(vec![Val::str("twig"), Val::Seq(vec![])])])]),
            "RecList" => Val::Rec(vec![Val::Int((k % 200) as i128), Val::some(v)]),
            _ => Val::Variant(1, vec![v, Val::None]),
        };
    }
    v
}

pub fn run_c02(cx: &Cx) -> PropResult {
    let all = batch().all();
    let per_decl = cx.n(1_000, 20_000);
    let n_interp = cx.n(20_000, 600_000);
    let acc = parallel(cx, &|shard, acc| {
        if shard == 0 && (cfg!(feature = "no_dholder") || cfg!(feature = "no_keep")) {
            // ./check had to build the harness without its hand-written declarations
            let why = std::env::var("VCHECK_OWN_DERIVE_ERROR").unwrap_or_default();
            acc.violation(
                format!(
                    "the derive macro no longer compiles hand-written declarations of the harness ({why}):{}{}",
                    if cfg!(feature = "no_dholder") { " struct DHolder with FieldAdded defaults of a type that is neither Clone nor Sync (vcheck/src/props/graphs.rs)" } else { "" },
                    if cfg!(feature = "no_keep") { " Keep / KeepE with transient and added defaults that hold Arc<..> (vcheck/src/props/isolation.rs)" } else { "" }
                ),
                json!({"own_derives_do_not_compile": true}),
            );
        }
        for (i, d) in all.iter().enumerate() {
            if i % cx.shards != shard {
                continue;
            }
            if !compiled_ok(d) {
                // the macro accepted this declaration on the tree the batch was generated for; now it does not compile
                if let Some((_, why)) = vcat::compiled::EXCLUDED.iter().find(|(n, _)| *n == d.name) {
                    if !why.starts_with("uses ") && acc.violations.is_empty() {
                        acc.violation(format!("the derive macro no longer compiles this declaration ({why}):\n{}", decl_src(d)), json!({"does_not_compile": d.name, "declaration": full_decl_src(d)}));
                    }
                }
                acc.exclude("declaration left out: the derive macro of this tree does not compile it");
                continue;
            }
            let strat = compiled_strategy(d);
            let stream = 10 + i as u64;
            if drive(tag_seed(derive_seed(cx.seed, cx.prop, i as u64, 7), stream), &strat, per_decl, acc, &|c: &DeclCase| to_json(c), &mut |c, a, r| check_c02(c, a, r)) {
                return;
            }
            acc.bump("compiled_declarations", 1);
        }
        let strat = interpreted_strategy();
        if drive(tag_seed(derive_seed(cx.seed, cx.prop, shard as u64, 1), 1), &strat, n_interp, acc, &|c: &DeclCase| to_json(c), &mut |c, a, r| check_c02(c, a, r)) {
            return;
        }
        // deep values of the recursive declarations: RecTree is an evolved record, so every level is a chunk inside a
        // chunk (depths around 128 and 256, far below what the stack allows)
        if shard == 0 {
            for d in all.iter().filter(|d| ["RecTree", "RecList", "RecEnum"].contains(&d.name.as_str()) && compiled_ok(d)) {
                for depth in [64usize, 127, 128, 129, 200, 255, 256, 257, 400] {
                    let v = deep_value(&d.name, depth);
                    let c = DeclCase { compiled: Some(d.name.clone()), ty: Ty::Adt(d.clone()), val: v, forms: vec![] };
                    acc.bump("deep_values_of_recursive_declarations", 1);
                    if let Verdict::Fail(e) = check_c02(&c, acc, true) {
                        acc.violation(format!("{} nested {depth} deep: {}", d.name, e.chars().take(300).collect::<String>()), json!({"deep": {"decl": d.name, "depth": depth}}));
                        return;
                    }
                }
            }
        }
    });
    let programs = all.len() as u64;
    let comparisons = acc.extra.get("comparisons_with_model").copied().unwrap_or(0);
    let mut r = PropResult::new(
        acc,
        "translation_validation",
        "programs = every declaration of the generated batch, compiled with the real derive macro: all versions of 36 generated evolution histories (steps of all four kinds, transient fields, three spellings of Option, nested generated declarations, DeduplicatedString fields), 12 enum families of three members (unit / tuple / struct / transient variants, per-variant histories, sorted or not) and hand-written specials (unit struct, empty braces, only-transient, recursion through Option<Box<Self>>, Vec<Self> and Box<Enum>, the 254-step declaration); plus run-time declarations from the same generator interpreted by E3. Inputs = generated values with arbitrary contents in transient fields. Oracles per (declaration, value): (1) decode(encode(v)) == v[transient := default]; (2) encode(v) byte-identical to the reference encoder's field-by-field interpretation of the declaration, errors identical, and the reference encoding in another legal form decodes to the model's reading; (3) the E3 interpreter yields the same bytes and values as the macro expansion. Non-trivial = the declaration has at least one of {evolution, transient, Option field, nesting, recursion, non-unit variant, sorted, dedup}; distinct by hash of (declaration, value, forms).",
    );
    r.extra = json!({"programs": programs, "disagreements_checked": comparisons, "generated_source": "harness/vcat/src/generated.rs", "generator_params": format!("{:?}", vcat::compiled::GENERATED_PARAMS)});
    r.assumptions = vec!["the model interprets the declaration JSON; the compiled code is the derive output — they share nothing but the declaration".into()];
    known_f24(&mut r);
    known_f25(&mut r);
    r
}

#[cfg(feature = "no_keep")]
fn known_f25(_: &mut PropResult) {}

/// F25 (DESIGN §6): a name that was made optional, then removed, then added again. The writer reserves a string id
/// for the name at the FieldMadeOptional step (it is a removed name) but writes that step as a position entry of the
/// NEW field, so the name is never spelled out and the FieldRemoved entry after it cites an id the reader never saw.
#[cfg(not(feature = "no_keep"))]
fn known_f25(r: &mut PropResult) {
    use crate::run::guarded;
    let mut wrong: Vec<String> = Vec::new();
    for (a, x) in [(1i32, 2i32), (0, 0), (-1, i32::MAX)] {
        let v = own::ReOpt { a, x };
        let bytes = guarded(|| desert::serialize_to_byte_vec(&v));
        let back = match &bytes {
            Ok(Ok(b)) => guarded(|| desert::deserialize::<own::ReOpt>(b)),
            _ => Err("not encoded".into()),
        };
        match (&bytes, &back) {
            (Ok(Ok(_)), Ok(Ok(w))) if *w == v => {}
            (Err(p), _) | (_, Err(p)) if p != "not encoded" => {
                r.acc.violation(format!("#[evolution(FieldMadeOptional(\"x\"), FieldRemoved(\"x\"), FieldAdded(\"x\", 5))] struct ReOpt {{ a: i32, x: i32 }} = {v:?}: panic {p}"), json!({"special": "ReOpt"}));
                return;
            }
            _ => wrong.push(format!("{v:?} -> {}", match &back { Ok(Ok(w)) => format!("Ok({w:?})"), Ok(Err(e)) => format!("Err({})", vcat::errinfo(e).kind), Err(e) => e.clone() })),
        }
    }
    r.acc.bump("made_optional_removed_readded_witnesses", 3);
    if !wrong.is_empty() {
        r.lines.push(format!(
            "KNOWN-FINDING: property=C02 F25 a name that was made optional, removed and added again (FieldMadeOptional(\"x\"), FieldRemoved(\"x\"), FieldAdded(\"x\", 5)) does not read its own bytes back: {}",
            wrong.join("; ")
        ));
        *r.acc.known.entry("F25".into()).or_insert(0) += 1;
    }
}

/// F24 (DESIGN §6): the macro recognises an optional field by the *spelling* of its type. A field whose type is an
/// alias of Option<_> is read with read_field::<Option<_>>; when a FieldMadeOptional step names it, the stored header
/// makes read_field consume the Option tag as the "is defined" flag and decode Option<_> from the value's own bytes.
#[cfg(not(feature = "no_keep"))]
mod own {
    pub type Maybe = Option<u32>;
    #[derive(Debug, Clone, PartialEq, desert::BinaryCodec)]
    #[evolution(FieldMadeOptional("m"))]
    pub struct Alias {
        pub m: Maybe,
    }
    /// F25: made optional, removed, added again under the same name
    #[derive(Debug, Clone, PartialEq, desert::BinaryCodec)]
    #[evolution(FieldMadeOptional("x"), FieldRemoved("x"), FieldAdded("x", 5))]
    pub struct ReOpt {
        pub a: i32,
        pub x: i32,
    }
    /// the same declaration with the type spelled out: the control
    #[derive(Debug, Clone, PartialEq, desert::BinaryCodec)]
    #[evolution(FieldMadeOptional("m"))]
    pub struct Spelled {
        pub m: Option<u32>,
    }
}

#[cfg(feature = "no_keep")]
fn known_f24(_: &mut PropResult) {}

#[cfg(not(feature = "no_keep"))]
fn known_f24(r: &mut PropResult) {
    use crate::run::guarded;
    let mut wrong: Vec<String> = Vec::new();
    let mut cases = 0u64;
    for m in [None, Some(0u32), Some(5), Some(255), Some(256), Some(0x00ff_ffff), Some(0x0100_0000), Some(0x0200_0000), Some(u32::MAX)] {
        cases += 1;
        let ctl = guarded(|| desert::serialize_to_byte_vec(&own::Spelled { m }).and_then(|b| desert::deserialize::<own::Spelled>(&b)));
        if !matches!(&ctl, Ok(Ok(v)) if v.m == m) {
            r.acc.violation(format!("#[evolution(FieldMadeOptional(\"m\"))] struct Spelled {{ m: Option<u32> }} with m = {m:?} reads its own bytes as {ctl:?}"), json!({"special": "Spelled"}));
            return;
        }
        let bytes = guarded(|| desert::serialize_to_byte_vec(&own::Alias { m }));
        let back = match &bytes {
            Ok(Ok(b)) => guarded(|| desert::deserialize::<own::Alias>(b)),
            _ => Err("not encoded".into()),
        };
        match (&bytes, &back) {
            (Ok(Ok(_)), Ok(Ok(v))) if v.m == m => {}
            (Err(p), _) | (_, Err(p)) if p != "not encoded" => {
                // a panic is not part of the known behaviour
                r.acc.violation(format!("type Maybe = Option<u32>; #[evolution(FieldMadeOptional(\"m\"))] struct Alias {{ m: Maybe }} with m = {m:?}: panic {p}"), json!({"special": "Alias"}));
                return;
            }
            _ => wrong.push(format!("{m:?} -> {}", match &back { Ok(Ok(v)) => format!("Ok({:?})", v.m), Ok(Err(e)) => format!("Err({})", vcat::errinfo(e).kind), Err(e) => e.clone() })),
        }
    }
    r.acc.bump("alias_of_option_witnesses", cases);
    if !wrong.is_empty() {
        r.lines.push(format!(
            "KNOWN-FINDING: property=C02 F24 a field made optional whose Option type is written through a type alias (type Maybe = Option<u32>; FieldMadeOptional(\"m\"); m: Maybe) does not read its own bytes back: {}",
            wrong.join("; ")
        ));
        *r.acc.known.entry("F24".into()).or_insert(0) += 1;
    }
}

pub fn replay_c02(case: &Value) -> Verdict {
    if let Some(n) = case.get("does_not_compile").and_then(|n| n.as_str()) {
        // the build that produced this binary either compiled the declaration or left it out again
        return match vcat::compiled::EXCLUDED.iter().find(|(x, _)| *x == n) {
            Some((_, why)) => Verdict::Fail(format!("the derive macro does not compile declaration {n}: {why}")),
            None => Verdict::Pass,
        };
    }
    if case.get("own_derives_do_not_compile").is_some() {
        return if cfg!(feature = "no_dholder") || cfg!(feature = "no_keep") { Verdict::Fail("the derive macro does not compile the hand-written declarations of the harness".into()) } else { Verdict::Pass };
    }
    if let Some(dp) = case.get("deep") {
        let name = dp["decl"].as_str().unwrap_or("RecTree").to_string();
        let depth = dp["depth"].as_u64().unwrap_or(0) as usize;
        return match batch().all().into_iter().find(|d| d.name == name) {
            Some(d) => check_c02(&DeclCase { compiled: Some(name.clone()), ty: Ty::Adt(d), val: deep_value(&name, depth), forms: vec![] }, &mut Acc::new(), false),
            None => Verdict::Skip,
        };
    }
    let c: DeclCase = serde_json::from_value(case.clone()).expect("replay case");
    check_c02(&c, &mut Acc::new(), false)
}

// ------------------------------------------------------------------------------------------------ C13

#[derive(Debug, Clone, Serialize, Deserialize)]
pub struct EnumCase {
    /// the family: compiled (index into the batch) or generated at run time (carried in full)
    pub compiled_family: Option<usize>,
    pub family: Vec<Ty>,
    pub from: usize,
    pub to: usize,
    /// value of family[from]
    pub val: Val,
    /// constructor index to splice over the encoded one (None: leave)
    pub splice: Option<u32>,
    /// where the reader meets the enum: 0 top level, 1 Vec element, 2 between tuple siblings, 3 field of a version-0
    /// record, 4 field the reader made optional after the data was written (wrap), 5 field the writer had made
    /// optional and the reader has not (unwrap), 6 field added by an evolution step (own chunk), 7 inside Some
    #[serde(default)]
    pub pos: u8,
}

const POSITIONS: u8 = 10;

/// the reader's type around the enum, the bytes around the enum's bytes (laid out by hand from the format description:
/// what matters here is the reader), and how to get the enum value back out of the decoded holder
fn positioned(pos: u8, to: &Ty, e: &[u8]) -> (Ty, Vec<u8>, fn(&Val) -> Option<Val>) {
    use vmodel::refcodec::var_i32;
    use vmodel::{Field, Record, Step};
    let a = |t: Ty| Arc::new(t);
    let rec = |name: &str, r: Record| Ty::Adt(vmodel::declgen::struct_decl(&format!("DynHold{name}{:08x}", vmodel::fnv64(to.render().as_bytes()) as u32), &r));
    let mut b = Vec::new();
    match pos % POSITIONS {
        1 => {
            var_i32(1, &mut b);
            b.extend_from_slice(e);
            (Ty::Vec(a(to.clone())), b, |v| match v {
                Val::Seq(xs) if xs.len() == 1 => Some(xs[0].clone()),
                _ => None,
            })
        }
        2 => {
            b.extend_from_slice(&[0, 7]);
            b.extend_from_slice(e);
            b.extend_from_slice(&[2, b's']);
            (Ty::Tuple(vec![Ty::U8, to.clone(), Ty::Str]), b, |v| match v {
                Val::Tuple(xs) if xs.len() == 3 && xs[0] == Val::Int(7) && xs[2] == Val::str("s") => Some(xs[1].clone()),
                _ => None,
            })
        }
        3 => {
            b.push(0);
            b.extend_from_slice(e);
            (rec("P", Record { fields: vec![Field::new("e", to.clone())], steps: vec![] }), b, |v| match v {
                Val::Rec(xs) if xs.len() == 1 => Some(xs[0].clone()),
                _ => None,
            })
        }
        4 => {
            // stored version 0, the reader has since made the field optional: the bare value is wrapped
            b.push(0);
            b.extend_from_slice(e);
            (rec("W", Record { fields: vec![Field::new("e", Ty::Option(a(to.clone())))], steps: vec![Step::MadeOptional { name: "e".into() }] }), b, |v| match v {
                Val::Rec(xs) if xs.len() == 1 => match &xs[0] {
                    Val::Some(x) => Some((**x).clone()),
                    _ => None,
                },
                _ => None,
            })
        }
        5 => {
            // stored version 1 whose header says "field 0 of chunk 0 was made optional"; the reader (version 0) has a bare field
            b.push(1);
            var_i32(1 + e.len() as i32, &mut b);
            var_i32(-1, &mut b);
            b.push(0);
            b.push(1);
            b.extend_from_slice(e);
            (rec("U", Record { fields: vec![Field::new("e", to.clone())], steps: vec![] }), b, |v| match v {
                Val::Rec(xs) if xs.len() == 1 => Some(xs[0].clone()),
                _ => None,
            })
        }
        6 => {
            b.push(1);
            var_i32(1, &mut b);
            var_i32(e.len() as i32, &mut b);
            b.push(9);
            b.extend_from_slice(e);
            (rec("A", Record { fields: vec![Field::new("x", Ty::U8), Field::new("e", to.clone())], steps: vec![Step::Added { name: "e".into(), default: vmodel::declgen::sample_val(to, ValCfg { max_len: 1, long: false, ..ValCfg::default() }, 1) }] }), b, |v| match v {
                Val::Rec(xs) if xs.len() == 2 && xs[0] == Val::Int(9) => Some(xs[1].clone()),
                _ => None,
            })
        }
        7 => {
            b.push(1);
            b.extend_from_slice(e);
            (Ty::Option(a(to.clone())), b, |v| match v {
                Val::Some(x) => Some((**x).clone()),
                _ => None,
            })
        }
        8 => {
            // the only element of a sequence in the marker-per-element form (a form the reader accepts from any writer)
            var_i32(-1, &mut b);
            b.push(1);
            b.extend_from_slice(e);
            b.push(0);
            (Ty::Vec(a(to.clone())), b, |v| match v {
                Val::Seq(xs) if xs.len() == 1 => Some(xs[0].clone()),
                _ => None,
            })
        }
        9 => {
            // second element of such a sequence, after a unit and before the end marker, inside a tuple
            b.push(0);
            var_i32(-1, &mut b);
            b.push(1);
            b.extend_from_slice(e);
            b.push(1);
            b.extend_from_slice(e);
            b.push(0);
            b.push(0x2a);
            (Ty::Tuple(vec![Ty::LinkedList(a(to.clone())), Ty::U8]), b, |v| match v {
                Val::Tuple(ts) if ts.len() == 2 && ts[1] == Val::Int(0x2a) => match &ts[0] {
                    Val::Seq(xs) if xs.len() == 2 => Some(xs[1].clone()),
                    _ => None,
                },
                _ => None,
            })
        }
        _ => (to.clone(), e.to_vec(), |v| Some(v.clone())),
    }
}

/// decodes the enum's bytes where position `pos` puts them; an Ok holder of the wrong shape is reported as an Ok value
/// of unit type (which no expectation matches)
fn decode_at(pos: u8, to: &Ty, e: &[u8]) -> Result<Val, vmodel::ErrInfo> {
    let (ty, bytes, unwrap) = positioned(pos, to, e);
    vcat::decode(&ty, &bytes).map(|v| unwrap(&v).unwrap_or(Val::Str(format!("HOLDER SHAPE: {}", v.brief()))))
}

fn enum_of(t: &Ty) -> (&Arc<Decl>, bool, &Vec<vmodel::Variant>) {
    match t {
        Ty::Adt(d) => match &d.body {
            DeclBody::Enum { sorted, variants, .. } => (d, *sorted, variants),
            _ => panic!("not an enum"),
        },
        _ => panic!("not an enum"),
    }
}

fn family_case_strategy(compiled_family: Option<usize>, family: Vec<Ty>) -> BoxedStrategy<EnumCase> {
    let n = family.len();
    (0..n, 0..n, prop_oneof![3 => Just(None), 2 => prop_oneof![0u32..12, prop::sample::select(vec![127u32, 128, 255, 16384, u32::MAX, 1 << 31])].prop_map(Some)], prop_oneof![3 => Just(0u8), 4 => 1u8..POSITIONS])
        .prop_flat_map(move |(from, to, splice, pos)| {
            let fam = family.clone();
            let cf = compiled_family;
            val_strategy(&fam[from], cfg()).prop_map(move |val| EnumCase { compiled_family: cf, family: fam.clone(), from, to, val, splice, pos })
        })
        .boxed()
}

fn dynamic_family_strategy() -> BoxedStrategy<EnumCase> {
    vmodel::declgen::enum_spec_strategy()
        .prop_flat_map(|spec| {
            let fam = vmodel::declgen::build_enum_family(&format!("DynF{:08x}", hash_json(&spec) as u32), &spec, &vmodel::declgen::dynamic_menu(false));
            family_case_strategy(None, fam.into_iter().map(Ty::Adt).collect())
        })
        .boxed()
}

pub fn check_c13(c: &EnumCase, acc: &mut Acc, record: bool) -> Verdict {
    if c.from >= c.family.len() || c.to >= c.family.len() {
        return Verdict::Skip;
    }
    let (fd, _sorted, fvars) = enum_of(&c.family[c.from]);
    let (td, _, tvars) = enum_of(&c.family[c.to]);
    let (vi, fields) = match &c.val {
        Val::Variant(i, fs) => (*i, fs),
        _ => return Verdict::Skip,
    };
    let var = &fvars[vi];
    let h = hash_json(c);
    let (enc, as_written) = vcat::encode(&c.family[c.from], &c.val);
    let class_base = if c.compiled_family.is_some() { "compiled" } else { "interpreted" };
    // (d') writing a transient constructor is an error naming type and constructor
    if var.transient {
        if record {
            acc.case(&format!("{class_base}: transient constructor written"), h, true);
        }
        return match enc {
            Err(e) if e.kind == "SerializingTransientConstructor" && e.detail.contains(&format!("\"{}\"", var.name)) => Verdict::Pass,
            other => Verdict::Fail(format!("writing transient constructor {}::{} gave {:?}", fd.name, var.name, other.map(|b| hex(&b)))),
        };
    }
    let mut bytes = match enc {
        Ok(b) => b,
        // a transient constructor nested somewhere inside the payload: not a value of this check's domain
        Err(e) if e.kind == "SerializingTransientConstructor" && matches!(ref_encode(&c.family[c.from], &as_written), Err(EncErr::SerializingTransientConstructor { .. })) => return Verdict::Skip,
        Err(e) => return Verdict::Fail(format!("cannot encode {}: {e:?}", c.val.brief())),
    };
    // (a) leading bytes: 00, then the var-u32 constructor index the model assigns. An enum with evolution steps of its
    // own starts with its version and header instead (laid out by the reference encoder); the index opens chunk 0.
    let model_idx = fd.ctor_index(vi) as u32;
    let idx_bytes = vmodel::refcodec::var_u32_bytes(model_idx);
    let own_steps = matches!(&fd.body, DeclBody::Enum { steps, .. } if !steps.is_empty());
    let idx_off = if own_steps {
        match ref_encode(&c.family[c.from], &as_written) {
            Ok(f) => match f.sites.iter().find(|s| s.kind == vmodel::refcodec::SiteKind::CtorIdx) {
                Some(s) if bytes.len() >= s.off && bytes[..s.off] == f.bytes[..s.off] => s.off,
                _ => return Verdict::Fail(format!("{}::{} is written as {} — the version and evolution header of the enum should be {}", fd.name, var.name, hex(&bytes[..bytes.len().min(24)]), hex(&f.bytes[..f.bytes.len().min(24)]))),
            },
            Err(e) => return Verdict::Fail(format!("HARNESS: reference encoder: {e:?}")),
        }
    } else {
        if bytes[0] != 0 {
            return Verdict::Fail(format!("{}::{} is written with leading byte {:02x} — expected 00", fd.name, var.name, bytes[0]));
        }
        1
    };
    if bytes.len() < idx_off + idx_bytes.len() || bytes[idx_off..idx_off + idx_bytes.len()] != idx_bytes[..] {
        return Verdict::Fail(format!("{}::{} is written as {} — expected constructor index {model_idx} ({}) at offset {idx_off}", fd.name, var.name, hex(&bytes[..bytes.len().min(12)]), hex(&idx_bytes)));
    }
    let non_unit = tvars.iter().filter(|v| v.shape != vmodel::Shape::Unit).count() >= 2;
    match c.splice {
        None => {
            let class = format!("{class_base}: {} read by {}", ["E", "E'", "E''"][c.from], ["E", "E'", "E''"][c.to]);
            if record {
                acc.case(&class, h, non_unit && c.from != c.to);
                if acc.wants_sample(&class) && c.from != c.to {
                    acc.sample(&class, json!({"writer": decl_src(fd), "reader": decl_src(td), "value": c.val.brief(), "bytes_hex": hex(&bytes[..bytes.len().min(48)])}));
                }
            }
            let got = decode_at(c.pos, &c.family[c.to], &bytes);
            if record && c.pos % POSITIONS != 0 {
                acc.bump(["", "position: Vec element", "position: between tuple siblings", "position: field of a version-0 record", "position: field made optional by the reader (wrap)", "position: field made optional by the writer only (unwrap)", "position: field in its own chunk", "position: inside Some", "position: only element of a marker-per-element sequence", "position: second element of a marker-per-element list inside a tuple"][(c.pos % POSITIONS) as usize], 1);
            }
            if vi < tvars.len() {
                // (b) the reader knows the constructor (same definition or an extension): same variant, same payload
                let want = with_transient_defaults(&c.family[c.to], &Val::Variant(vi, as_written_fields(&as_written, fields)));
                match got {
                    Ok(v) if canon(&c.family[c.to], &v) == canon(&c.family[c.to], &want) => Verdict::Pass,
                    other => Verdict::Fail(format!("{} read {}::{} ({}) as {:?}, expected {}", td.name, fd.name, var.name, hex(&bytes), other.map(|v| v.brief()), want.brief())),
                }
            } else {
                // (c) written by an extension in a constructor this definition does not have
                match got {
                    Err(e) if e.kind == "InvalidConstructorId" => Verdict::Pass,
                    other => Verdict::Fail(format!("{} read the unknown constructor {}::{} (index {model_idx}, bytes {}) as {:?} — expected Err(InvalidConstructorId)", td.name, fd.name, var.name, hex(&bytes), other.map(|v| v.brief()))),
                }
            }
        }
        Some(k) => {
            // constructor index rewritten: selection is by index alone
            let new_idx = vmodel::refcodec::var_u32_bytes(k);
            if own_steps && new_idx.len() != idx_bytes.len() {
                // the header pins the size of chunk 0
                if record {
                    acc.exclude("enum with evolution steps of its own: spliced index of another length (chunk size would have to follow)");
                }
                return Verdict::Skip;
            }
            bytes.splice(idx_off..idx_off + idx_bytes.len(), new_idx);
            let target = td.variant_by_ctor_index(k as usize);
            let class = format!(
                "{class_base}: spliced index -> {}",
                match target {
                    None => "unknown constructor",
                    Some(t) if tvars[t].transient => "transient constructor",
                    Some(t) if tvars[t].record == var.record => "constructor with identical record",
                    Some(_) => "other constructor",
                }
            );
            if record {
                acc.case(&class, h, true);
                if acc.wants_sample(&class) {
                    acc.sample(&class, json!({"reader": decl_src(td), "value_written": c.val.brief(), "index_spliced": k, "bytes_hex": hex(&bytes[..bytes.len().min(48)])}));
                }
            }
            let got = match crate::run::guarded(|| decode_at(c.pos, &c.family[c.to], &bytes)) {
                Ok(g) => g,
                Err(p) => return Verdict::Fail(format!("{} panicked on constructor index {k}: {p} (bytes {})", td.name, hex(&bytes))),
            };
            match target {
                None => match got {
                    Err(e) if e.kind == "InvalidConstructorId" => Verdict::Pass,
                    other => Verdict::Fail(format!("{} has {} constructors; index {k} (bytes {}) gave {:?} — expected Err(InvalidConstructorId)", td.name, tvars.len(), hex(&bytes), other.map(|v| v.brief()))),
                },
                Some(t) if tvars[t].transient => match got {
                    Err(e) if e.kind == "DeserializingTransientConstructor" && e.detail.contains(&format!("\"{}\"", tvars[t].name)) => Verdict::Pass,
                    other => Verdict::Fail(format!("index {k} denotes the transient constructor {}::{}; got {:?}", td.name, tvars[t].name, other.map(|v| v.brief()))),
                },
                Some(t) if tvars[t].record == var.record => {
                    // (e) same payload layout: the *other* constructor must come back, with the same payload
                    let want = with_transient_defaults(&c.family[c.to], &Val::Variant(t, as_written_fields(&as_written, fields)));
                    match got {
                        Ok(v) if canon(&c.family[c.to], &v) == canon(&c.family[c.to], &want) => Verdict::Pass,
                        other => Verdict::Fail(format!("index {k} selects {}::{}; got {:?}, expected {}", td.name, tvars[t].name, other.map(|v| v.brief()), want.brief())),
                    }
                }
                // a different payload layout: anything but a panic is fine, the reference decoder settles the value (C06)
                Some(_) => Verdict::Pass,
            }
        }
    }
}

fn as_written_fields(as_written: &Val, fallback: &Vec<Val>) -> Vec<Val> {
    match as_written {
        Val::Variant(_, fs) => fs.clone(),
        _ => fallback.clone(),
    }
}

pub fn run_c13(cx: &Cx) -> PropResult {
    let fams = &batch().families;
    let per_family = cx.n(8_000, 200_000);
    let n_dyn = cx.n(25_000, 800_000);
    let acc = parallel(cx, &|shard, acc| {
        for (i, fam) in fams.iter().enumerate() {
            if i % cx.shards != shard || !group_ok(fam) {
                continue;
            }
            let strat = family_case_strategy(Some(i), fam.iter().cloned().map(Ty::Adt).collect());
            if drive(tag_seed(derive_seed(cx.seed, cx.prop, i as u64, 7), 10 + i as u64), &strat, per_family, acc, &|c: &EnumCase| to_json(c), &mut |c, a, r| check_c13(c, a, r)) {
                return;
            }
            acc.bump("compiled_enum_families", 1);
        }
        // the hand-written enums of the batch (explicit discriminants, identifiers shared between modules, recursion) as
        // one-member families
        for (i, d) in batch().specials.iter().enumerate() {
            if i % cx.shards != shard || !matches!(d.body, DeclBody::Enum { .. }) || !compiled_ok(d) {
                continue;
            }
            let strat = family_case_strategy(Some(1000 + i), vec![Ty::Adt(d.clone())]);
            if drive(tag_seed(derive_seed(cx.seed, cx.prop, i as u64, 9), 500 + i as u64), &strat, per_family / 4, acc, &|c: &EnumCase| to_json(c), &mut |c, a, r| check_c13(c, a, r)) {
                return;
            }
            acc.bump("compiled_special_enums", 1);
        }
        let strat = dynamic_family_strategy();
        drive(tag_seed(derive_seed(cx.seed, cx.prop, shard as u64, 1), 1), &strat, n_dyn, acc, &|c: &EnumCase| to_json(c), &mut |c, a, r| check_c13(c, a, r));
    });
    let mut r = PropResult::new(
        acc,
        "exploration",
        "enum families E < E' < E'' (variants appended so that they come last in index order; for sorted enums their names sort last; names chosen so that sorted order differs from declaration order; any mix of unit / tuple / struct / transient variants with per-variant evolution histories): 12 families compiled with the real derive macro, the batch's hand-written enums (among them unit-only enums with explicit discriminants that disagree with every index order) and families generated at run time (E3). Cases = (writer member, reader member, value, optional constructor index spliced over the written one: 0-11, 127, 128, 255, 16384, 2^31, u32::MAX, position in which the reader meets the enum: top level, Vec element, between tuple siblings, field of a version-0 record, field the reader has since made optional, field only the writer had made optional, field in a chunk of its own, inside Some, only element of a sequence in the marker-per-element form, second element of such a list inside a tuple). Oracles: leading bytes are 00 and the model's var-u32 index (declaration position, or rank by name when sorted; transient constructors count); an extension reads old data as the same variant with the same payload; an older definition answers Err(InvalidConstructorId) to an appended constructor and to every index >= its number of constructors (never a panic); a transient constructor's index gives Err(DeserializingTransientConstructor) naming it, writing one gives Err(SerializingTransientConstructor); an index rewritten to a constructor with an identical record yields that other constructor. Non-trivial = reader has >= 2 non-unit variants and the case crosses definitions, or uses a spliced index.",
    );
    r.extra = json!({"compiled_families": fams.len()});
    r
}

pub fn replay_c13(case: &Value) -> Verdict {
    let c: EnumCase = serde_json::from_value(case.clone()).expect("replay case");
    check_c13(&c, &mut Acc::new(), false)
}

// ------------------------------------------------------------------------------------------------ C14

#[derive(Debug, Clone, Serialize, Deserialize)]
pub struct TransientCase {
    pub compiled: Option<String>,
    pub ty: Ty,
    pub val: Val,
    /// seeds the replacement contents of the transient fields
    pub perturb: u64,
}

/// replaces the contents of every transient field (at any depth) by other generated values
fn perturb_transients(ty: &Ty, v: &Val, seed: u64, changed: &mut usize) -> Val {
    fn go(ty: &Ty, v: &Val, seed: u64, changed: &mut usize, stack: &mut Vec<Arc<Decl>>) -> Val {
        use Ty::*;
        match (ty, v) {
            (Option(t), Val::Some(x)) => Val::some(go(t, x, seed, changed, stack)),
            (Vec(t) | LinkedList(t) | Array(t, _), Val::Seq(xs)) => Val::Seq(xs.iter().map(|x| go(t, x, seed, changed, stack)).collect()),
            (Tuple(ts), Val::Tuple(xs)) => Val::Tuple(ts.iter().zip(xs).map(|(t, x)| go(t, x, seed, changed, stack)).collect()),
            (Box(t), x) => go(t, x, seed, changed, stack),
            (BTreeMap(k, w), Val::Map(ps)) => Val::Map(ps.iter().map(|(a, b)| (go(k, a, seed, changed, stack), go(w, b, seed, changed, stack))).collect()),
            (Adt(d), x) => {
                stack.push(d.clone());
                let r = decl(d, x, seed, changed, stack);
                stack.pop();
                r
            }
            (Rec(n), x) => {
                let d = stack.iter().rev().find(|d| &d.name == n).cloned().expect("rec");
                stack.push(d.clone());
                let r = decl(&d, x, seed, changed, stack);
                stack.pop();
                r
            }
            (_, x) => x.clone(),
        }
    }
    fn decl(d: &Arc<Decl>, x: &Val, seed: u64, changed: &mut usize, stack: &mut Vec<Arc<Decl>>) -> Val {
        let fields = |r: &vmodel::Record, fs: &Vec<Val>, changed: &mut usize, stack: &mut Vec<Arc<Decl>>| -> Vec<Val> {
            r.fields
                .iter()
                .zip(fs)
                .enumerate()
                .map(|(i, (f, x))| {
                    if f.transient.is_some() {
                        let nv = vmodel::declgen::sample_val(&f.ty, ValCfg { max_len: 3, long: false, ..ValCfg::default() }, seed ^ (i as u64 * 7919) ^ (*changed as u64) << 32);
                        if &nv != x && Some(&nv) != f.transient.as_ref() {
                            *changed += 1;
                        }
                        nv
                    } else {
                        go(&f.ty, x, seed, changed, stack)
                    }
                })
                .collect()
        };
        match (&d.body, x) {
            (DeclBody::Struct(r), Val::Rec(fs)) => Val::Rec(fields(r, fs, changed, stack)),
            (DeclBody::Enum { variants, .. }, Val::Variant(i, fs)) => Val::Variant(*i, fields(&variants[*i].record, fs, changed, stack)),
            (_, x) => x.clone(),
        }
    }
    go(ty, v, seed, changed, &mut Vec::new())
}

fn has_hash_container(v: &Val) -> bool {
    // a Val does not say which container it came from; byte comparison of two separately built instances is only
    // meaningful when no hash container with >= 2 elements is involved — decided on the type by the caller
    let _ = v;
    false
}

fn ty_has_hash(t: &Ty, seen: &mut Vec<String>) -> bool {
    use Ty::*;
    match t {
        HashSet(_) | HashMap(..) => true,
        Option(a) | Vec(a) | Array(a, _) | LinkedList(a) | BTreeSet(a) | Box(a) | Rc(a) | Arc(a) => ty_has_hash(a, seen),
        Result(a, b) | BTreeMap(a, b) => ty_has_hash(a, seen) || ty_has_hash(b, seen),
        Tuple(ts) => ts.iter().any(|t| ty_has_hash(t, seen)),
        Adt(d) => {
            if seen.contains(&d.name) {
                return false;
            }
            seen.push(d.name.clone());
            match &d.body {
                DeclBody::Struct(r) => r.fields.iter().filter(|f| f.transient.is_none()).any(|f| ty_has_hash(&f.ty, seen)),
                DeclBody::Enum { variants, .. } => variants.iter().flat_map(|v| v.record.fields.iter()).filter(|f| f.transient.is_none()).any(|f| ty_has_hash(&f.ty, seen)),
            }
        }
        _ => false,
    }
}

pub fn check_c14(c: &TransientCase, acc: &mut Acc, record: bool) -> Verdict {
    let d = match &c.ty {
        Ty::Adt(d) => d.clone(),
        _ => return Verdict::Skip,
    };
    let _ = has_hash_container;
    let mut changed = 0usize;
    let twin = perturb_transients(&c.ty, &c.val, c.perturb, &mut changed);
    let h = hash_json(&(&d.name, &c.val, c.perturb));
    let rep = vcat::encode_all_sinks(&c.ty, &c.val);
    let first = rep.outputs[0].1.clone();
    // (d) a transient constructor: the dedicated error, identically through every entry point and sink
    if let Val::Variant(i, _) = &c.val {
        if let DeclBody::Enum { variants, .. } = &d.body {
            if variants[*i].transient {
                if record {
                    acc.case("transient constructor -> SerializingTransientConstructor through every sink", h, true);
                }
                for (name, out) in &rep.outputs {
                    match out {
                        Err(e) if e.kind == "SerializingTransientConstructor" && e.detail.contains(&format!("constructor_name: \"{}\"", variants[*i].name)) && e.detail.contains(&format!("type_name: \"{}\"", d.name)) => {}
                        other => return Verdict::Fail(format!("{name}: writing {}::{} gave {:?}", d.name, variants[*i].name, other.as_ref().map(|b| hex(b)))),
                    }
                }
                return match &rep.size {
                    Err(e) if e.kind == "SerializingTransientConstructor" => Verdict::Pass,
                    other => Verdict::Fail(format!("SizeCalculator: writing a transient constructor gave {other:?}")),
                };
            }
        }
    }
    let feats = decl_features(&d);
    let class = format!("{}: {}", if c.compiled.is_some() { "compiled" } else { "interpreted" }, if feats.contains(&"transient field") { if feats.contains(&"evolution") { "transient fields + evolution" } else { "transient fields" } } else { "no transient field" });
    if record {
        acc.case(&class, h, changed > 0);
        if changed > 0 && acc.wants_sample(&class) {
            acc.sample(&class, json!({"declaration": decl_src(&d), "value": c.val.brief(), "twin_differing_only_in_transient_fields": twin.brief()}));
        }
    }
    // (e) every legal declaration (whatever steps touched a now-transient field) encodes
    let bytes = match first {
        Ok(b) => b,
        Err(e) if e.kind == "SerializingTransientConstructor" && matches!(ref_encode(&c.ty, &rep.as_written), Err(EncErr::SerializingTransientConstructor { .. })) => return Verdict::Skip,
        Err(e) => return Verdict::Fail(format!("{} cannot be encoded: {e:?}\n{}", d.name, decl_src(&d))),
    };
    // (a) transient contents never reach the wire
    let (enc2, _) = vcat::encode(&c.ty, &twin);
    match enc2 {
        Ok(b2) => {
            if b2 != bytes && !ty_has_hash(&c.ty, &mut Vec::new()) {
                return Verdict::Fail(format!("two values of {} that differ only in transient fields encode differently: {} vs {}\n{} / {}\n{}", d.name, hex(&bytes), hex(&b2), c.val.brief(), twin.brief(), decl_src(&d)));
            }
            if b2.len() != bytes.len() {
                return Verdict::Fail(format!("two values of {} that differ only in transient fields encode to different lengths: {} vs {}", d.name, bytes.len(), b2.len()));
            }
        }
        Err(e) => return Verdict::Fail(format!("the twin value cannot be encoded: {e:?}")),
    }
    // (c) decoding sets every transient field to its declared default
    let want = with_transient_defaults(&c.ty, &c.val);
    match vcat::decode(&c.ty, &bytes) {
        Ok(v) if canon(&c.ty, &v) == canon(&c.ty, &want) => Verdict::Pass,
        other => Verdict::Fail(format!("{} decoded {} to {:?}, expected {} (transient fields at their defaults)", d.name, hex(&bytes), other.map(|v| v.brief()), want.brief())),
    }
}

fn transient_compiled_strategy(d: &Arc<Decl>) -> BoxedStrategy<TransientCase> {
    let ty = Ty::Adt(d.clone());
    let name = d.name.clone();
    (val_strategy(&ty, cfg()), any::<u64>()).prop_map(move |(val, perturb)| TransientCase { compiled: Some(name.clone()), ty: ty.clone(), val, perturb }).boxed()
}

/// run-time histories that END in FieldMadeTransient(f), f having been touched by an earlier FieldAdded and / or
/// FieldMadeOptional in a good share of them
fn transient_history_strategy() -> BoxedStrategy<TransientCase> {
    (vmodel::declgen::history_spec_strategy(4, 5), any::<u16>(), 0u8..4, any::<u64>())
        .prop_flat_map(|(mut spec, sel, prefix, perturb)| {
            use vmodel::declgen::{StepKind, StepSpec};
            // prefix: 0 none, 1 FieldAdded(f), 2 FieldMadeOptional(f), 3 both — the selectors below resolve to the most
            // recently added field (sel = u16::MAX picks the last removable candidate, which is the newest added field)
            if prefix & 1 != 0 {
                spec.steps.push(StepSpec { kind: StepKind::Add, sel: 0, ty_sel: sel, pos_sel: sel });
            }
            if prefix & 2 != 0 {
                spec.steps.push(StepSpec { kind: StepKind::MakeOptional, sel: u16::MAX, ty_sel: 0, pos_sel: 0 });
            }
            spec.steps.push(StepSpec { kind: StepKind::MakeTransient, sel: u16::MAX, ty_sel: 0, pos_sel: 0 });
            let versions = vmodel::declgen::build_history(&spec, &vmodel::declgen::dynamic_menu(true));
            let ty = Ty::Adt(vmodel::declgen::struct_decl(&format!("DynT{:08x}", hash_json(&spec) as u32), versions.last().unwrap()));
            (val_strategy(&ty, cfg()), Just(ty), Just(perturb))
        })
        .prop_map(|(val, ty, perturb)| TransientCase { compiled: None, ty, val, perturb })
        .boxed()
}

pub fn run_c14(cx: &Cx) -> PropResult {
    let all: Vec<Arc<Decl>> = batch().all().into_iter().filter(|d| compiled_ok(d) && decl_features(d).iter().any(|f| *f == "transient field" || *f == "transient constructor")).collect();
    let per_decl = cx.n(1_500, 30_000);
    let n_dyn = cx.n(25_000, 800_000);
    let acc = parallel(cx, &|shard, acc| {
        for (i, d) in all.iter().enumerate() {
            if i % cx.shards != shard {
                continue;
            }
            let strat = transient_compiled_strategy(d);
            if drive(tag_seed(derive_seed(cx.seed, cx.prop, i as u64, 7), 10 + i as u64), &strat, per_decl, acc, &|c: &TransientCase| to_json(c), &mut |c, a, r| check_c14(c, a, r)) {
                return;
            }
            acc.bump("compiled_declarations_with_transient_parts", 1);
        }
        let strat = transient_history_strategy();
        drive(tag_seed(derive_seed(cx.seed, cx.prop, shard as u64, 1), 1), &strat, n_dyn, acc, &|c: &TransientCase| to_json(c), &mut |c, a, r| check_c14(c, a, r));
    });
    PropResult::new(
        acc,
        "exploration",
        "declarations with transient fields at any position (several per record, nested, in enum variants) and transient constructors at any index: every compiled declaration of the batch that has one, plus run-time histories built to END in FieldMadeTransient(f) where f was touched before by FieldAdded, FieldMadeOptional, both or neither (one quarter each). Cases = (declaration, value v, twin v' = v with the contents of every transient field replaced by other generated values). Oracles: enc(v) == enc(v') byte for byte; dec(enc(v)) has every transient field at its declared default; encoding succeeds for every such legal declaration; a value of a transient constructor gives Err(SerializingTransientConstructor { type_name, constructor_name }) with exactly those names through serialize(Vec), serialize(BytesMut), serialize_to_bytes, serialize_to_byte_vec, a recording output (bulk and bytewise) and the size calculator. (That transient fields contribute nothing is also pinned byte for byte by C02's reference encoding.) Non-trivial = v and v' differ in at least one transient field whose new content is not the default.",
    )
}

pub fn replay_c14(case: &Value) -> Verdict {
    let c: TransientCase = serde_json::from_value(case.clone()).expect("replay case");
    check_c14(&c, &mut Acc::new(), false)
}
