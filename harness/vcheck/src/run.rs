//! Sharded, seeded driver around proptest strategies with manual shrinking (DESIGN §2.3).
use proptest::strategy::{Strategy, ValueTree};
use proptest::test_runner::{Config, RngAlgorithm, TestRng, TestRunner};
use serde::Serialize;
use serde_json::{json, Value};
use std::panic::{catch_unwind, AssertUnwindSafe};
use std::sync::atomic::{AtomicBool, Ordering};
use vmodel::evidence::Acc;

#[derive(Clone, Copy, Debug, PartialEq, Eq)]
pub enum Tier {
    Quick,
    Thorough,
}

#[derive(Clone, Debug)]
pub struct Cx {
    pub prop: &'static str,
    pub tier: Tier,
    pub seed: u64,
    pub shards: usize,
    /// "checked" or "release": which profile this binary was built with
    pub profile: &'static str,
}

impl Cx {
    pub fn n(&self, quick: u64, thorough: u64) -> u64 {
        match self.tier {
            Tier::Quick => quick,
            Tier::Thorough => thorough,
        }
    }
    pub fn tier_name(&self) -> &'static str {
        match self.tier {
            Tier::Quick => "quick",
            Tier::Thorough => "thorough",
        }
    }
}

pub fn runner(seed: [u8; 32]) -> TestRunner {
    let cfg = Config { failure_persistence: None, ..Config::default() };
    TestRunner::new_with_rng(cfg, TestRng::from_seed(RngAlgorithm::ChaCha, &seed))
}

thread_local! {
    static LAST_PANIC: std::cell::RefCell<String> = const { std::cell::RefCell::new(String::new()) };
}

pub static QUIET: AtomicBool = AtomicBool::new(true);

pub fn install_panic_hook() {
    std::panic::set_hook(Box::new(|info| {
        let msg = if let Some(s) = info.payload().downcast_ref::<&str>() {
            s.to_string()
        } else if let Some(s) = info.payload().downcast_ref::<String>() {
            s.clone()
        } else {
            "non-string panic payload".to_string()
        };
        let loc = info.location().map(|l| format!("{}:{}", l.file(), l.line())).unwrap_or_default();
        LAST_PANIC.with(|p| *p.borrow_mut() = format!("{msg} @ {loc}"));
        if !QUIET.load(Ordering::Relaxed) {
            eprintln!("panic: {msg} @ {loc}");
        }
    }));
}

/// runs `f`, turning an unwind into `Err(description)`
pub fn guarded<R>(f: impl FnOnce() -> R) -> Result<R, String> {
    match catch_unwind(AssertUnwindSafe(f)) {
        Ok(r) => Ok(r),
        Err(_) => Err(LAST_PANIC.with(|p| p.borrow().clone())),
    }
}

/// Outcome of checking one case.
pub enum Verdict {
    Pass,
    /// excluded from the quantifier (counted by the check itself)
    Skip,
    Fail(String),
}

/// Drives `cases` cases from `strat`. `check(case, acc, record)` must be deterministic; with `record == false`
/// (during shrinking) it must not touch the counters. Returns true if a violation was recorded.
pub fn drive<T, S>(seed: [u8; 32], strat: &S, cases: u64, acc: &mut Acc, to_replay: &dyn Fn(&T) -> Value, check: &mut dyn FnMut(&T, &mut Acc, bool) -> Verdict) -> bool
where
    S: Strategy<Value = T>,
    T: std::fmt::Debug,
{
    let mut r = runner(seed);
    for _ in 0..cases {
        let mut tree = match strat.new_tree(&mut r) {
            Ok(t) => t,
            Err(e) => panic!("generator failed: {e}"),
        };
        let case = tree.current();
        let verdict = match guarded(|| check(&case, acc, true)) {
            Ok(v) => v,
            Err(p) => Verdict::Fail(format!("panic: {p}")),
        };
        if let Verdict::Fail(first_reason) = verdict {
            // shrink: standard simplify / complicate walk, bounded
            let mut best = case;
            let mut best_reason = first_reason;
            let mut steps = 0;
            let mut scratch = Acc::new();
            if tree.simplify() {
                loop {
                    steps += 1;
                    if steps > 1500 {
                        break;
                    }
                    let cur = tree.current();
                    let failed = match guarded(|| check(&cur, &mut scratch, false)) {
                        Ok(Verdict::Fail(reason)) => Some(reason),
                        Ok(_) => None,
                        Err(p) => Some(format!("panic: {p}")),
                    };
                    match failed {
                        Some(reason) => {
                            best = cur;
                            best_reason = reason;
                            if !tree.simplify() {
                                break;
                            }
                        }
                        None => {
                            if !tree.complicate() {
                                break;
                            }
                        }
                    }
                }
            }
            acc.violation(best_reason, to_replay(&best));
            return true;
        }
    }
    false
}

/// runs `f(shard, acc)` on `cx.shards` threads with large stacks and merges the accumulators
pub fn parallel(cx: &Cx, f: &(dyn Fn(usize, &mut Acc) + Sync)) -> Acc {
    let mut total = Acc::new();
    std::thread::scope(|s| {
        let mut hs = Vec::new();
        for shard in 0..cx.shards {
            let h = std::thread::Builder::new()
                .stack_size(256 << 20)
                .spawn_scoped(s, move || {
                    let mut acc = Acc::new();
                    match guarded(|| f(shard, &mut acc)) {
                        Ok(()) => {}
                        Err(p) => acc.violation(format!("harness panic outside a case: {p}"), json!({"harness_panic": p})),
                    }
                    acc
                })
                .expect("spawn");
            hs.push(h);
        }
        for h in hs {
            total.merge(h.join().expect("worker thread"));
        }
    });
    total
}

pub fn to_json<T: Serialize>(t: &T) -> Value {
    serde_json::to_value(t).expect("serialize case")
}
