//! Sharded, seeded driver around proptest strategies with manual shrinking (DESIGN §2.3).
use proptest::strategy::{Strategy, ValueTree};
use proptest::test_runner::{Config, RngAlgorithm, TestRng, TestRunner};
use serde::Serialize;
use serde_json::{json, Value};
use std::panic::{catch_unwind, AssertUnwindSafe};
use std::sync::atomic::{AtomicBool, AtomicU64, Ordering};
use vmodel::evidence::Acc;

#[derive(Clone, Copy, Debug, PartialEq, Eq)]
pub enum Tier {
    Quick,
    Thorough,
}

#[derive(Clone, Debug)]
pub struct Cx {
    pub prop: &'static str,
    pub tier: Tier,
    pub seed: u64,
    pub shards: usize,
    /// "checked" or "release": which profile this binary was built with
    pub profile: &'static str,
}

impl Cx {
    pub fn n(&self, quick: u64, thorough: u64) -> u64 {
        match self.tier {
            Tier::Quick => quick,
            Tier::Thorough => thorough,
        }
    }
    pub fn tier_name(&self) -> &'static str {
        match self.tier {
            Tier::Quick => "quick",
            Tier::Thorough => "thorough",
        }
    }
}

pub fn runner(seed: [u8; 32]) -> TestRunner {
    // (one runner draws a whole stream of cases, so the reject counters of proptest, meant for one test case, would add
    // up over millions of draws: the few filtering strategies left reject a bounded fraction each)
    let cfg = Config { failure_persistence: None, max_local_rejects: u32::MAX / 2, max_global_rejects: u32::MAX / 2, ..Config::default() };
    TestRunner::new_with_rng(cfg, TestRng::from_seed(RngAlgorithm::ChaCha, &seed))
}

thread_local! {
    static LAST_PANIC: std::cell::RefCell<String> = const { std::cell::RefCell::new(String::new()) };
}

pub static QUIET: AtomicBool = AtomicBool::new(true);

pub fn install_panic_hook() {
    std::panic::set_hook(Box::new(|info| {
        let msg = if let Some(s) = info.payload().downcast_ref::<&str>() {
            s.to_string()
        } else if let Some(s) = info.payload().downcast_ref::<String>() {
            s.clone()
        } else {
            "non-string panic payload".to_string()
        };
        let loc = info.location().map(|l| format!("{}:{}", l.file(), l.line())).unwrap_or_default();
        LAST_PANIC.with(|p| *p.borrow_mut() = format!("{msg} @ {loc}"));
        if !QUIET.load(Ordering::Relaxed) {
            eprintln!("panic: {msg} @ {loc}");
        }
    }));
}

/// runs `f`, turning an unwind into `Err(description)`
pub fn guarded<R>(f: impl FnOnce() -> R) -> Result<R, String> {
    match catch_unwind(AssertUnwindSafe(f)) {
        Ok(r) => Ok(r),
        Err(_) => Err(LAST_PANIC.with(|p| p.borrow().clone())),
    }
}

/// Outcome of checking one case.
pub enum Verdict {
    Pass,
    /// excluded from the quantifier (counted by the check itself)
    Skip,
    Fail(String),
}

/// Drives `cases` cases from `strat`. `check(case, acc, record)` must be deterministic; with `record == false`
/// (during shrinking) it must not touch the counters. Returns true if a violation was recorded.
pub fn drive<T, S>(seed: [u8; 32], strat: &S, cases: u64, acc: &mut Acc, to_replay: &dyn Fn(&T) -> Value, check: &mut dyn FnMut(&T, &mut Acc, bool) -> Verdict) -> bool
where
    S: Strategy<Value = T>,
    T: std::fmt::Debug,
{
    let mut r = runner(seed);
    let stream = stream_of_seed(&seed);
    if REGEN_ON.load(Ordering::Relaxed) {
        if stream != REGEN_STREAM.load(Ordering::Relaxed) {
            return false;
        }
        let index = REGEN_INDEX.load(Ordering::Relaxed);
        let mut last = None;
        for _ in 0..=index.min(cases.saturating_sub(1)) {
            last = Some(strat.new_tree(&mut r).expect("generator").current());
        }
        if let Some(c) = last {
            *REGEN_OUT.lock().unwrap() = Some(to_replay(&c));
        }
        std::panic::resume_unwind(Box::new("regen done"));
    }
    for case_index in 0..cases {
        slot_begin(stream, case_index);
        let mut tree = match strat.new_tree(&mut r) {
            Ok(t) => t,
            Err(e) => panic!("generator failed: {e}"),
        };
        let case = tree.current();
        let verdict = match guarded(|| check(&case, acc, true)) {
            Ok(v) => v,
            Err(p) => Verdict::Fail(format!("panic: {p}")),
        };
        if let Verdict::Fail(first_reason) = verdict {
            // shrink: standard simplify / complicate walk, bounded
            let mut best = case;
            let mut best_reason = first_reason;
            let mut steps = 0;
            let mut scratch = Acc::new();
            if tree.simplify() {
                loop {
                    steps += 1;
                    if steps > 1500 {
                        break;
                    }
                    let cur = tree.current();
                    let failed = match guarded(|| check(&cur, &mut scratch, false)) {
                        Ok(Verdict::Fail(reason)) => Some(reason),
                        Ok(_) => None,
                        Err(p) => Some(format!("panic: {p}")),
                    };
                    match failed {
                        Some(reason) => {
                            best = cur;
                            best_reason = reason;
                            if !tree.simplify() {
                                break;
                            }
                        }
                        None => {
                            if !tree.complicate() {
                                break;
                            }
                        }
                    }
                }
            }
            acc.violation(best_reason, to_replay(&best));
            slot_end();
            return true;
        }
    }
    slot_end();
    false
}

/// the `index`-th case the driver would generate from this seed (no case is executed)
pub fn regen<T, S>(seed: [u8; 32], strat: &S, index: u64) -> T
where
    S: Strategy<Value = T>,
    T: std::fmt::Debug,
{
    let mut r = runner(seed);
    let mut last = None;
    for _ in 0..=index {
        last = Some(strat.new_tree(&mut r).expect("generator").current());
    }
    last.unwrap()
}

// ---- crash / hang forensics: every worker thread publishes which case it is executing in a file-backed shared
// mapping that survives the death of the process (DESIGN section 2.3)

#[repr(C)]
pub struct Slot {
    pub active: AtomicU64,
    pub stream: AtomicU64,
    pub index: AtomicU64,
    pub started_ms: AtomicU64,
}

pub const MAX_SLOTS: usize = 64;
static SLOTS: std::sync::atomic::AtomicPtr<Slot> = std::sync::atomic::AtomicPtr::new(std::ptr::null_mut());

thread_local! {
    static MY_SHARD: std::cell::Cell<usize> = const { std::cell::Cell::new(usize::MAX) };
}

pub fn now_ms() -> u64 {
    let mut ts = libc::timespec { tv_sec: 0, tv_nsec: 0 };
    unsafe { libc::clock_gettime(libc::CLOCK_MONOTONIC, &mut ts) };
    ts.tv_sec as u64 * 1000 + ts.tv_nsec as u64 / 1_000_000
}

/// maps (creating if needed) the slot file; used by workers (write) and the supervisor (read)
pub fn map_slots(path: &str) -> *mut Slot {
    use std::os::unix::io::AsRawFd;
    let f = std::fs::OpenOptions::new().read(true).write(true).create(true).truncate(false).open(path).expect("slot file");
    let len = MAX_SLOTS * std::mem::size_of::<Slot>();
    f.set_len(len as u64).expect("slot file size");
    let p = unsafe { libc::mmap(std::ptr::null_mut(), len, libc::PROT_READ | libc::PROT_WRITE, libc::MAP_SHARED, f.as_raw_fd(), 0) };
    assert!(p != libc::MAP_FAILED, "mmap of the slot file failed");
    p as *mut Slot
}

pub fn init_slots(path: &str) {
    SLOTS.store(map_slots(path), Ordering::SeqCst);
}

pub fn set_my_shard(shard: usize) {
    MY_SHARD.with(|s| s.set(shard));
    crate::alloc::set_shard(shard);
}

/// the stream id is carried in the seed's last byte pair by `derive_seed` users: (shard, stream) are known to the
/// caller; the driver only needs the stream, which callers encode through `tag_seed`
pub fn tag_seed(mut seed: [u8; 32], stream: u64) -> [u8; 32] {
    seed[30] = (stream >> 8) as u8;
    seed[31] = stream as u8;
    seed
}
fn stream_of_seed(seed: &[u8; 32]) -> u64 {
    ((seed[30] as u64) << 8) | seed[31] as u64
}

// ---- generic regeneration of a case from (shard, stream, index): the property's own `run` is executed with this
// target set; `parallel` then runs the target shard only and `drive` generates — without executing anything — up to
// the index in the stream whose tag matches, hands the case over and unwinds

pub static REGEN_ON: AtomicBool = AtomicBool::new(false);
static REGEN_SHARD: AtomicU64 = AtomicU64::new(0);
static REGEN_STREAM: AtomicU64 = AtomicU64::new(0);
static REGEN_INDEX: AtomicU64 = AtomicU64::new(0);
static REGEN_OUT: std::sync::Mutex<Option<Value>> = std::sync::Mutex::new(None);

pub fn regen_via_run(shard: usize, stream: u64, index: u64, run: impl FnOnce()) -> Option<Value> {
    REGEN_SHARD.store(shard as u64, Ordering::SeqCst);
    REGEN_STREAM.store(stream, Ordering::SeqCst);
    REGEN_INDEX.store(index, Ordering::SeqCst);
    *REGEN_OUT.lock().unwrap() = None;
    REGEN_ON.store(true, Ordering::SeqCst);
    let _ = guarded(run);
    REGEN_ON.store(false, Ordering::SeqCst);
    REGEN_OUT.lock().unwrap().take()
}

pub fn slot_begin(stream: u64, index: u64) {
    let base = SLOTS.load(Ordering::Relaxed);
    let shard = MY_SHARD.with(|s| s.get());
    if base.is_null() || shard >= MAX_SLOTS {
        return;
    }
    let s = unsafe { &*base.add(shard) };
    s.stream.store(stream, Ordering::Relaxed);
    s.index.store(index, Ordering::Relaxed);
    s.started_ms.store(now_ms(), Ordering::Relaxed);
    s.active.store(1, Ordering::Release);
}

pub fn slot_end() {
    let base = SLOTS.load(Ordering::Relaxed);
    let shard = MY_SHARD.with(|s| s.get());
    if base.is_null() || shard >= MAX_SLOTS {
        return;
    }
    unsafe { &*base.add(shard) }.active.store(0, Ordering::Release);
}

/// runs `f(shard, acc)` on `cx.shards` threads with large stacks and merges the accumulators
pub fn parallel(cx: &Cx, f: &(dyn Fn(usize, &mut Acc) + Sync)) -> Acc {
    let mut total = Acc::new();
    let only = if REGEN_ON.load(Ordering::Relaxed) { Some(REGEN_SHARD.load(Ordering::Relaxed) as usize) } else { None };
    std::thread::scope(|s| {
        let mut hs = Vec::new();
        for shard in 0..cx.shards {
            if only.map(|o| o != shard).unwrap_or(false) {
                continue;
            }
            let h = std::thread::Builder::new()
                .stack_size(256 << 20)
                .spawn_scoped(s, move || {
                    set_my_shard(shard);
                    let mut acc = Acc::new();
                    match guarded(|| f(shard, &mut acc)) {
                        Ok(()) => {}
                        // a panic that comes out of the library's own code is a finding even outside a generated case; one
                        // that comes out of the harness (a generator giving up, a bug of the check) says nothing about
                        // the tree under test: infrastructure, exit 2
                        Err(p) if p.contains("/desert_core/") || p.contains("/desert_macro/") || p.contains("/desert/src/") => acc.violation(format!("panic outside a generated case: {p}"), json!({"harness_panic": p})),
                        Err(p) => {
                            eprintln!("harness failure outside a case (infrastructure, not a finding): {p}");
                            std::process::exit(2);
                        }
                    }
                    acc
                })
                .expect("spawn");
            hs.push(h);
        }
        for h in hs {
            total.merge(h.join().expect("worker thread"));
        }
    });
    total
}

pub fn to_json<T: Serialize>(t: &T) -> Value {
    serde_json::to_value(t).expect("serialize case")
}
