//! Tracking global allocator (C05, C16): per-thread live / peak / largest-single-request counters, armed only
//! around the call under test. A request above HARD_CAP while armed cannot be honoured safely: the allocator
//! records where it happened (raw write, no allocation) and leaves the process with status 86, which the
//! supervisor turns into a violation with the exact case.
use std::alloc::{GlobalAlloc, Layout, System};
use std::cell::Cell;

pub struct Tracking;

thread_local! {
    static ON: Cell<bool> = const { Cell::new(false) };
    static CUR: Cell<usize> = const { Cell::new(0) };
    static PEAK: Cell<usize> = const { Cell::new(0) };
    static MAXREQ: Cell<usize> = const { Cell::new(0) };
    static SHARD: Cell<usize> = const { Cell::new(usize::MAX) };
    /// 0 = off; otherwise every fresh allocation (and the grown part of a reallocation) on this thread is filled with
    /// this byte, so that memory handed out uninitialised has a content the harness chose; freed blocks are filled
    /// with it too before they go back, and a reallocation always moves, so that a pointer kept into a freed or
    /// outgrown block reads that byte instead of the data that used to be there
    static POISON: Cell<u8> = const { Cell::new(0) };
}

#[inline]
fn poison(ptr: *mut u8, from: usize, to: usize) {
    if ptr.is_null() || to <= from {
        return;
    }
    let _ = POISON.try_with(|p| {
        let b = p.get();
        if b != 0 {
            unsafe { std::ptr::write_bytes(ptr.add(from), b, to - from) };
        }
    });
}

/// runs `f` with fresh heap memory on this thread pre-filled with `byte`
pub fn with_poison<R>(byte: u8, f: impl FnOnce() -> R) -> R {
    struct Off;
    impl Drop for Off {
        fn drop(&mut self) {
            POISON.with(|p| p.set(0));
        }
    }
    POISON.with(|p| p.set(byte));
    let _g = Off;
    f()
}

pub const HARD_CAP: usize = 3 << 30;
pub const EXIT_ALLOC: i32 = 86;

#[inline]
fn note(size: usize) {
    let _ = ON.try_with(|on| {
        if on.get() {
            if size > HARD_CAP {
                fatal(size);
            }
            let c = CUR.with(|c| {
                let v = c.get() + size;
                c.set(v);
                v
            });
            PEAK.with(|p| {
                if c > p.get() {
                    p.set(c)
                }
            });
            MAXREQ.with(|m| {
                if size > m.get() {
                    m.set(size)
                }
            });
        }
    });
}

#[inline]
fn unnote(size: usize) {
    let _ = ON.try_with(|on| {
        if on.get() {
            CUR.with(|c| c.set(c.get().saturating_sub(size)));
        }
    });
}

fn fatal(size: usize) -> ! {
    // no allocation here: format by hand into a stack buffer
    let shard = SHARD.try_with(|s| s.get()).unwrap_or(usize::MAX);
    let mut buf = [0u8; 96];
    let mut n = 0;
    for b in b"alloc " {
        buf[n] = *b;
        n += 1;
    }
    n += fmt_usize(shard, &mut buf[n..]);
    buf[n] = b' ';
    n += 1;
    n += fmt_usize(size, &mut buf[n..]);
    buf[n] = b'\n';
    n += 1;
    unsafe {
        if let Some(path) = FATAL_PATH.as_ref() {
            let fd = libc::open(path.as_ptr() as *const libc::c_char, libc::O_WRONLY | libc::O_CREAT | libc::O_APPEND, 0o644);
            if fd >= 0 {
                libc::write(fd, buf.as_ptr() as *const libc::c_void, n);
                libc::close(fd);
            }
        }
        libc::write(2, buf.as_ptr() as *const libc::c_void, n);
        libc::_exit(EXIT_ALLOC);
    }
}

fn fmt_usize(mut v: usize, out: &mut [u8]) -> usize {
    let mut tmp = [0u8; 24];
    let mut i = 0;
    if v == 0 {
        tmp[0] = b'0';
        i = 1;
    }
    while v > 0 {
        tmp[i] = b'0' + (v % 10) as u8;
        v /= 10;
        i += 1;
    }
    for k in 0..i {
        out[k] = tmp[i - 1 - k];
    }
    i
}

/// NUL-terminated path of the fatal file, set once at start-up
static mut FATAL_PATH: Option<Vec<u8>> = None;

pub fn set_fatal_path(p: &str) {
    let mut v = p.as_bytes().to_vec();
    v.push(0);
    unsafe {
        FATAL_PATH = Some(v);
    }
}

pub fn set_shard(shard: usize) {
    SHARD.with(|s| s.set(shard));
}

unsafe impl GlobalAlloc for Tracking {
    unsafe fn alloc(&self, layout: Layout) -> *mut u8 {
        note(layout.size());
        let p = System.alloc(layout);
        poison(p, 0, layout.size());
        p
    }
    unsafe fn alloc_zeroed(&self, layout: Layout) -> *mut u8 {
        note(layout.size());
        System.alloc_zeroed(layout)
    }
    unsafe fn dealloc(&self, ptr: *mut u8, layout: Layout) {
        unnote(layout.size());
        poison(ptr, 0, layout.size());
        System.dealloc(ptr, layout)
    }
    unsafe fn realloc(&self, ptr: *mut u8, layout: Layout, new_size: usize) -> *mut u8 {
        unnote(layout.size());
        note(new_size);
        let active = POISON.try_with(|p| p.get() != 0).unwrap_or(false);
        if active {
            // move, so that the old block can be given its marker content
            let nl = Layout::from_size_align_unchecked(new_size, layout.align());
            let p = System.alloc(nl);
            if p.is_null() {
                return p;
            }
            std::ptr::copy_nonoverlapping(ptr, p, layout.size().min(new_size));
            poison(p, layout.size(), new_size);
            poison(ptr, 0, layout.size());
            System.dealloc(ptr, layout);
            return p;
        }
        let p = System.realloc(ptr, layout, new_size);
        poison(p, layout.size(), new_size);
        p
    }
}

#[derive(Clone, Copy, Debug, Default)]
pub struct AllocStats {
    pub peak: usize,
    pub max_request: usize,
}

/// runs `f` with the counters armed on this thread
pub fn measure<R>(f: impl FnOnce() -> R) -> (R, AllocStats) {
    CUR.with(|c| c.set(0));
    PEAK.with(|c| c.set(0));
    MAXREQ.with(|c| c.set(0));
    struct Disarm;
    impl Drop for Disarm {
        fn drop(&mut self) {
            ON.with(|o| o.set(false));
        }
    }
    ON.with(|o| o.set(true));
    let guard = Disarm;
    let r = f();
    drop(guard);
    (r, AllocStats { peak: PEAK.with(|c| c.get()), max_request: MAXREQ.with(|c| c.get()) })
}
