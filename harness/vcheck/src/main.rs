//! vcheck — one sub-command per property. See /verif/DESIGN.md.
mod props;
mod run;

use run::{Cx, Tier, Verdict};
use serde_json::{json, Value};
use std::path::PathBuf;
use std::time::Instant;
use vmodel::evidence::{evidence_json, Acc, EvidenceMeta};

pub struct PropResult {
    pub acc: Acc,
    pub rule: String,
    pub level: &'static str,
    pub assumptions: Vec<String>,
    pub exhaustive: Option<bool>,
    pub extra: Value,
    /// lines to print verbatim (KNOWN-FINDING: ...)
    pub lines: Vec<String>,
}

impl PropResult {
    pub fn new(acc: Acc, level: &'static str, rule: &str) -> Self {
        PropResult { acc, rule: rule.to_string(), level, assumptions: vec![], exhaustive: None, extra: json!({}), lines: vec![] }
    }
}

#[cfg(debug_assertions)]
pub const PROFILE: &str = "checked";
#[cfg(not(debug_assertions))]
pub const PROFILE: &str = "release";

fn verif_root() -> PathBuf {
    PathBuf::from(std::env::var("VERIF_ROOT").unwrap_or_else(|_| "/verif".to_string()))
}

pub fn out_root() -> PathBuf {
    std::env::var("VERIF_OUT").map(PathBuf::from).unwrap_or_else(|_| verif_root())
}

fn usage() -> ! {
    eprintln!("usage: vcheck <ID> [--tier quick|thorough] [--seed N] [--out file] [--replay file] [--also <release-binary>] [--part]");
    std::process::exit(2)
}

fn main() {
    let args: Vec<String> = std::env::args().collect();
    if args.len() < 2 {
        usage();
    }
    let id = args[1].clone();
    let mut tier = Tier::Quick;
    let mut seed: u64 = std::env::var("VERIF_SEED").ok().and_then(|s| s.trim().parse::<i128>().ok()).map(|v| v as u64).unwrap_or(0);
    let mut out: Option<PathBuf> = None;
    let mut replay: Option<PathBuf> = None;
    let mut also: Option<String> = None;
    let mut part = false;
    let mut shards = 16usize;
    let mut i = 2;
    while i < args.len() {
        match args[i].as_str() {
            "--tier" => {
                i += 1;
                tier = match args[i].as_str() {
                    "quick" => Tier::Quick,
                    "thorough" => Tier::Thorough,
                    _ => usage(),
                }
            }
            "--seed" => {
                i += 1;
                seed = args[i].parse::<i128>().map(|v| v as u64).unwrap_or_else(|_| usage());
            }
            "--out" => {
                i += 1;
                out = Some(PathBuf::from(&args[i]));
            }
            "--replay" => {
                i += 1;
                replay = Some(PathBuf::from(&args[i]));
            }
            "--also" => {
                i += 1;
                also = Some(args[i].clone());
            }
            "--shards" => {
                i += 1;
                shards = args[i].parse().unwrap_or_else(|_| usage());
            }
            "--part" => part = true,
            _ => usage(),
        }
        i += 1;
    }
    let prop: &'static str = Box::leak(id.clone().into_boxed_str());
    let cx = Cx { prop, tier, seed, shards, profile: PROFILE };
    run::install_panic_hook();

    if let Some(path) = replay {
        let text = std::fs::read_to_string(&path).unwrap_or_else(|e| {
            eprintln!("cannot read {}: {e}", path.display());
            std::process::exit(2)
        });
        let v: Value = serde_json::from_str(&text).unwrap_or_else(|e| {
            eprintln!("bad replay file: {e}");
            std::process::exit(2)
        });
        run::QUIET.store(false, std::sync::atomic::Ordering::Relaxed);
        let case = v.get("case").cloned().unwrap_or(Value::Null);
        match run::guarded(|| props::replay(&cx, &case)) {
            Ok(Verdict::Fail(why)) => {
                println!("replay reproduces: {why}");
                println!("VIOLATION property={} replay={}", id, path.display());
                std::process::exit(1);
            }
            Ok(Verdict::Pass) | Ok(Verdict::Skip) => {
                println!("replay passes on this tree (profile {PROFILE})");
                std::process::exit(0);
            }
            Err(p) => {
                println!("replay reproduces: panic: {p}");
                println!("VIOLATION property={} replay={}", id, path.display());
                std::process::exit(1);
            }
        }
    }

    let t0 = Instant::now();
    let mut res = props::run(&cx);
    let mut exit_code = 0;

    // the same exploration under the other build profile (overflow checks off), where the property asks for both
    let mut other_profile = Value::Null;
    if let Some(bin) = also {
        let tmp = out_root().join("evidence").join(format!(".{id}.release.part.json"));
        std::fs::create_dir_all(tmp.parent().unwrap()).ok();
        let status = std::process::Command::new(&bin)
            .arg(&id)
            .args(["--tier", cx.tier_name(), "--seed", &seed.to_string(), "--out"])
            .arg(&tmp)
            .arg("--part")
            .status();
        match status {
            Ok(st) => match st.code() {
                Some(0) => {}
                Some(1) => exit_code = 1,
                _ => {
                    eprintln!("release-profile run ended abnormally: {st:?}");
                    exit_code = exit_code.max(2);
                }
            },
            Err(e) => {
                eprintln!("cannot run {bin}: {e}");
                exit_code = 2;
            }
        }
        if let Ok(t) = std::fs::read_to_string(&tmp) {
            other_profile = serde_json::from_str(&t).unwrap_or(Value::Null);
        }
        std::fs::remove_file(&tmp).ok();
    }

    let wall = t0.elapsed().as_secs_f64();
    // replay files
    let mut vio_lines = Vec::new();
    for v in &res.acc.violations {
        let h = vmodel::hash_json(&v.replay);
        let dir = out_root().join("replays").join(&id);
        std::fs::create_dir_all(&dir).ok();
        let path = dir.join(format!("{h:016x}.json"));
        let body = json!({"property": id, "profile": PROFILE, "tier": cx.tier_name(), "seed": seed, "what": v.what, "case": v.replay});
        std::fs::write(&path, serde_json::to_string_pretty(&body).unwrap()).expect("write replay");
        vio_lines.push((v.what.clone(), path));
    }
    let mut extra = res.extra.clone();
    extra["profile"] = json!(PROFILE);
    if !other_profile.is_null() {
        extra["release_profile_run"] = other_profile["coverage"].clone();
        if let Some(n) = other_profile["coverage"]["evaluations"].as_u64() {
            res.acc.bump("evaluations_in_release_profile", n);
        }
    }
    let meta = EvidenceMeta { property_id: &id, tier: cx.tier_name(), seed, level: res.level, rule: &res.rule, assumptions: res.assumptions.clone(), exhaustive: res.exhaustive, wall_s: wall, extra };
    let ev = evidence_json(&meta, &res.acc);
    let out_path = out.unwrap_or_else(|| out_root().join("evidence").join(format!("{id}.json")));
    std::fs::create_dir_all(out_path.parent().unwrap()).ok();
    std::fs::write(&out_path, serde_json::to_string_pretty(&ev).unwrap()).expect("write evidence");

    for l in &res.lines {
        println!("{l}");
    }
    if !part {
        println!(
            "{id} [{PROFILE}/{}] seed={seed}: {} cases, {} distinct non-trivial, {} violations, {:.1}s",
            cx.tier_name(),
            res.acc.evaluations,
            res.acc.distinct_nontrivial(),
            res.acc.violations.len(),
            wall
        );
    }
    for (what, path) in &vio_lines {
        println!("violation ({PROFILE}): {what}");
        println!("VIOLATION property={} replay={}", id, path.display());
        exit_code = 1;
    }
    std::process::exit(exit_code);
}
