//! vcheck — one sub-command per property. See /verif/DESIGN.md.
//!
//! Process model: `vcheck <ID> ...` is a *supervisor* that re-executes itself as a worker. The worker runs the
//! sharded exploration on threads, catches panics per case, writes evidence and replay files. The supervisor only
//! matters when the worker dies (abort, stack overflow, allocator trap) or a case hangs: it reads the slot file in
//! which every worker thread publishes the case it is executing, re-executes the suspects in fresh processes and
//! reports the one that reproduces as a violation; anything it cannot pin down is exit 2 (inconclusive).
mod alloc;
mod props;
mod run;

use run::{Cx, Tier, Verdict};
use serde_json::{json, Value};
use std::path::PathBuf;
use std::sync::atomic::Ordering;
use std::time::{Duration, Instant};
use vmodel::evidence::{evidence_json, Acc, EvidenceMeta};

#[global_allocator]
static GLOBAL: alloc::Tracking = alloc::Tracking;

pub struct PropResult {
    pub acc: Acc,
    pub rule: String,
    pub level: &'static str,
    pub assumptions: Vec<String>,
    pub exhaustive: Option<bool>,
    pub extra: Value,
    /// lines to print verbatim (KNOWN-FINDING: ...)
    pub lines: Vec<String>,
}

impl PropResult {
    pub fn new(acc: Acc, level: &'static str, rule: &str) -> Self {
        PropResult { acc, rule: rule.to_string(), level, assumptions: vec![], exhaustive: None, extra: json!({}), lines: vec![] }
    }
}

#[cfg(debug_assertions)]
pub const PROFILE: &str = "checked";
#[cfg(not(debug_assertions))]
pub const PROFILE: &str = "release";

pub fn verif_root() -> PathBuf {
    PathBuf::from(std::env::var("VERIF_ROOT").unwrap_or_else(|_| "/verif".to_string()))
}

pub fn out_root() -> PathBuf {
    std::env::var("VERIF_OUT").map(PathBuf::from).unwrap_or_else(|_| verif_root())
}

fn usage() -> ! {
    eprintln!("usage: vcheck <ID> [--tier quick|thorough] [--seed N] [--out file] [--replay file] [--also <release-binary>] [--part]");
    std::process::exit(2)
}

struct Args {
    id: String,
    tier: Tier,
    seed: u64,
    out: Option<PathBuf>,
    replay: Option<PathBuf>,
    also: Option<String>,
    part: bool,
    shards: usize,
    worker: bool,
    probe: Option<(usize, u64, u64)>,
    dump: Option<(usize, u64, u64)>,
    hang_ms: u64,
    artifact: Option<(String, PathBuf)>,
    export_corpus: Option<(String, PathBuf)>,
}

fn parse_args() -> Args {
    let args: Vec<String> = std::env::args().collect();
    if args.len() < 2 {
        usage();
    }
    let mut a = Args {
        id: args[1].clone(),
        tier: Tier::Quick,
        seed: std::env::var("VERIF_SEED").ok().and_then(|s| s.trim().parse::<i128>().ok()).map(|v| v as u64).unwrap_or(0),
        out: None,
        replay: None,
        also: None,
        part: false,
        shards: 16,
        worker: false,
        probe: None,
        dump: None,
        hang_ms: 90_000,
        artifact: None,
        export_corpus: None,
    };
    let triple = |args: &Vec<String>, i: usize| -> (usize, u64, u64) {
        if i + 3 >= args.len() {
            usage()
        }
        (args[i + 1].parse().unwrap_or_else(|_| usage()), args[i + 2].parse().unwrap_or_else(|_| usage()), args[i + 3].parse().unwrap_or_else(|_| usage()))
    };
    let mut i = 2;
    while i < args.len() {
        match args[i].as_str() {
            "--tier" => {
                i += 1;
                a.tier = match args[i].as_str() {
                    "quick" => Tier::Quick,
                    "thorough" => Tier::Thorough,
                    _ => usage(),
                }
            }
            "--seed" => {
                i += 1;
                a.seed = args[i].parse::<i128>().map(|v| v as u64).unwrap_or_else(|_| usage());
            }
            "--out" => {
                i += 1;
                a.out = Some(PathBuf::from(&args[i]));
            }
            "--replay" => {
                i += 1;
                a.replay = Some(PathBuf::from(&args[i]));
            }
            "--also" => {
                i += 1;
                a.also = Some(args[i].clone());
            }
            "--shards" => {
                i += 1;
                a.shards = args[i].parse().unwrap_or_else(|_| usage());
            }
            "--hang-ms" => {
                i += 1;
                a.hang_ms = args[i].parse().unwrap_or_else(|_| usage());
            }
            "--probe" => {
                a.probe = Some(triple(&args, i));
                i += 3;
            }
            "--dump" => {
                a.dump = Some(triple(&args, i));
                i += 3;
            }
            "--artifact" => {
                if i + 2 >= args.len() {
                    usage()
                }
                a.artifact = Some((args[i + 1].clone(), PathBuf::from(&args[i + 2])));
                i += 2;
            }
            "--export-corpus" => {
                if i + 2 >= args.len() {
                    usage()
                }
                a.export_corpus = Some((args[i + 1].clone(), PathBuf::from(&args[i + 2])));
                i += 2;
            }
            "--part" => a.part = true,
            "--worker" => a.worker = true,
            _ => usage(),
        }
        i += 1;
    }
    a
}

fn main() {
    if std::env::var("VCHECK_F13_WITNESS").is_ok() {
        // F13 witness, in a process of its own: a recursive declaration nested 200 000 deep (600 KB of input) decoded
        // on a thread with an ordinary 2 MiB stack
        let d = props::derived::batch().specials.iter().find(|d| d.name == "RecList").cloned().expect("RecList");
        let ty = vmodel::Ty::Adt(d);
        let mut bytes = Vec::new();
        for _ in 0..200_000 {
            bytes.extend_from_slice(&[0, 7, 1]);
        }
        bytes.extend_from_slice(&[0, 7, 0]);
        let h = std::thread::Builder::new().stack_size(2 << 20).spawn(move || vcat::decode_only(&ty, &bytes).map(|_| ()).map_err(|e| e.kind)).expect("spawn");
        println!("survived: {:?}", h.join().map_err(|_| "panic"));
        return;
    }
    if std::env::var("VCHECK_F26_WITNESS").is_ok() {
        println!("survived: {}", vcat::statics::f26_witness());
        return;
    }
    let a = parse_args();
    if let Some((target, file)) = &a.artifact {
        // an input saved by a libFuzzer campaign becomes a replay file of this property
        let bytes = std::fs::read(file).unwrap_or_else(|e| {
            eprintln!("cannot read {}: {e}", file.display());
            std::process::exit(2)
        });
        let case = json!({"FuzzArtifact": {"target": target, "bytes": bytes}});
        let rdir = out_root().join("replays").join(&a.id);
        std::fs::create_dir_all(&rdir).ok();
        let path = rdir.join(format!("{:016x}.json", vmodel::hash_json(&case)));
        let body = json!({"property": a.id, "engine": "libfuzzer", "target": target, "what": format!("input saved by the libFuzzer target {target} (ASan build)"), "case": case});
        std::fs::write(&path, serde_json::to_string_pretty(&body).unwrap()).expect("write replay");
        println!("violation (libfuzzer/{target}): the fuzz target failed on an input of {} bytes", bytes.len());
        println!("VIOLATION property={} replay={}", a.id, path.display());
        std::process::exit(1);
    }
    if let Some((target, dir)) = &a.export_corpus {
        props::faults::export_corpus(target, dir, a.seed);
        std::process::exit(0);
    }
    if a.worker || a.probe.is_some() || a.dump.is_some() {
        worker(a)
    } else {
        supervise(a)
    }
}

// ------------------------------------------------------------------------------------------------
// supervisor

fn work_dir(id: &str) -> PathBuf {
    let d = out_root().join("work").join(format!("{id}-{PROFILE}-{}", std::process::id()));
    std::fs::create_dir_all(&d).expect("work dir");
    d
}

enum End {
    Status(std::process::ExitStatus),
    Hang(usize, u64, u64),
}

fn run_child(args: &[String], slots: &str, fatal: &str, hang_ms: u64, overall: Duration) -> End {
    let exe = std::env::current_exe().expect("current exe");
    let mut child = std::process::Command::new(exe).args(args).env("VCHECK_SLOTS", slots).env("VCHECK_FATAL", fatal).spawn().expect("spawn worker");
    let base = run::map_slots(slots);
    let t0 = Instant::now();
    loop {
        match child.try_wait() {
            Ok(Some(st)) => return End::Status(st),
            Ok(None) => {}
            Err(e) => {
                eprintln!("wait failed: {e}");
                std::process::exit(2)
            }
        }
        std::thread::sleep(Duration::from_millis(100));
        let now = run::now_ms();
        for shard in 0..run::MAX_SLOTS {
            let s = unsafe { &*base.add(shard) };
            if s.active.load(Ordering::Acquire) == 1 {
                let started = s.started_ms.load(Ordering::Relaxed);
                if now.saturating_sub(started) > hang_ms {
                    let r = End::Hang(shard, s.stream.load(Ordering::Relaxed), s.index.load(Ordering::Relaxed));
                    let _ = child.kill();
                    let _ = child.wait();
                    return r;
                }
            }
        }
        if t0.elapsed() > overall {
            let _ = child.kill();
            let _ = child.wait();
            eprintln!("worker exceeded the overall time budget of {:?}: inconclusive", overall);
            std::process::exit(2);
        }
    }
}

fn supervise(a: Args) -> ! {
    let dir = work_dir(&a.id);
    let slots = dir.join("slots").to_string_lossy().to_string();
    let fatal = dir.join("fatal").to_string_lossy().to_string();
    let mut args: Vec<String> = std::env::args().skip(1).collect();
    args.push("--worker".into());
    let overall = Duration::from_secs(if a.tier == Tier::Quick { 1_800 } else { 6 * 3_600 });
    let end = run_child(&args, &slots, &fatal, a.hang_ms, overall);
    let cleanup = || {
        std::fs::remove_dir_all(&dir).ok();
    };
    if a.replay.is_some() {
        // a replay that kills its process reproduces, by definition
        match end {
            End::Status(st) => match st.code() {
                Some(c) if c == 0 || c == 1 || c == 2 => {
                    cleanup();
                    std::process::exit(c)
                }
                _ => {
                    println!("replay reproduces: the process died ({st})");
                    println!("VIOLATION property={} replay={}", a.id, a.replay.as_ref().unwrap().display());
                    cleanup();
                    std::process::exit(1)
                }
            },
            End::Hang(..) => {
                println!("replay reproduces: no result within {} ms", a.hang_ms);
                println!("VIOLATION property={} replay={}", a.id, a.replay.as_ref().unwrap().display());
                cleanup();
                std::process::exit(1)
            }
        }
    }
    let base_args: Vec<String> = vec![a.id.clone(), "--tier".into(), if a.tier == Tier::Quick { "quick".into() } else { "thorough".into() }, "--seed".into(), a.seed.to_string(), "--shards".into(), a.shards.to_string()];
    let mut suspects: Vec<(usize, u64, u64, String)> = Vec::new();
    match end {
        End::Status(st) => {
            if let Some(code) = st.code() {
                if code == 0 || code == 1 || code == 2 {
                    cleanup();
                    std::process::exit(code);
                }
                if code == alloc::EXIT_ALLOC {
                    // "alloc <shard> <size>"
                    let txt = std::fs::read_to_string(&fatal).unwrap_or_default();
                    let base = run::map_slots(&slots);
                    for line in txt.lines() {
                        let p: Vec<&str> = line.split_whitespace().collect();
                        if p.len() == 3 && p[0] == "alloc" {
                            if let (Ok(shard), Ok(size)) = (p[1].parse::<usize>(), p[2].parse::<usize>()) {
                                if shard < run::MAX_SLOTS {
                                    let s = unsafe { &*base.add(shard) };
                                    suspects.push((shard, s.stream.load(Ordering::Relaxed), s.index.load(Ordering::Relaxed), format!("a single allocation request of {size} bytes (above the {} byte trap)", alloc::HARD_CAP)));
                                }
                            }
                        }
                    }
                }
            }
            if suspects.is_empty() {
                // killed by a signal, or an unexpected status: every case that was in flight is a suspect
                let base = run::map_slots(&slots);
                for shard in 0..run::MAX_SLOTS {
                    let s = unsafe { &*base.add(shard) };
                    if s.active.load(Ordering::Acquire) == 1 {
                        suspects.push((shard, s.stream.load(Ordering::Relaxed), s.index.load(Ordering::Relaxed), format!("the process died ({st})")));
                    }
                }
                eprintln!("worker ended abnormally ({st}); {} cases were in flight", suspects.len());
            }
        }
        End::Hang(shard, stream, index) => {
            eprintln!("case shard={shard} stream={stream} index={index} has been running for more than {} ms", a.hang_ms);
            suspects.push((shard, stream, index, format!("no result within {} ms", a.hang_ms)));
        }
    }
    // re-execute each suspect alone, twice, in fresh processes
    for (shard, stream, index, what) in &suspects {
        let mut reproduced = 0;
        let mut how = String::new();
        for _attempt in 0..2 {
            let mut pa = base_args.clone();
            pa.extend(["--probe".into(), shard.to_string(), stream.to_string(), index.to_string()]);
            let s2 = dir.join("slots2").to_string_lossy().to_string();
            std::fs::remove_file(&s2).ok();
            match run_child(&pa, &s2, &fatal, a.hang_ms, Duration::from_secs(600)) {
                End::Status(st) => match st.code() {
                    Some(0) | Some(2) => {}
                    Some(1) => {
                        reproduced += 1;
                        how = "the oracle fails".into();
                    }
                    Some(c) if c == alloc::EXIT_ALLOC => {
                        reproduced += 1;
                        how = what.clone();
                    }
                    // killed from outside (SIGKILL: the kernel's out-of-memory killer, an operator): says nothing about
                    // the case — a crash of its own making ends with SIGSEGV / SIGABRT / SIGBUS / SIGILL
                    None if std::os::unix::process::ExitStatusExt::signal(&st) == Some(9) => {
                        eprintln!("case shard={shard} stream={stream} index={index}: the process was killed from outside (SIGKILL, e.g. out of memory): inconclusive");
                    }
                    _ => {
                        reproduced += 1;
                        how = format!("the process dies ({st})");
                    }
                },
                End::Hang(..) => {
                    reproduced += 1;
                    how = format!("no result within {} ms", a.hang_ms);
                }
            }
        }
        if reproduced == 2 {
            let mut da = base_args.clone();
            da.extend(["--dump".into(), shard.to_string(), stream.to_string(), index.to_string()]);
            let out = std::process::Command::new(std::env::current_exe().unwrap()).args(&da).output().expect("dump");
            let case: Value = serde_json::from_slice(&out.stdout).unwrap_or(json!({"regen": {"shard": shard, "stream": stream, "index": index}}));
            let rdir = out_root().join("replays").join(&a.id);
            std::fs::create_dir_all(&rdir).ok();
            let path = rdir.join(format!("{:016x}.json", vmodel::hash_json(&case)));
            let body = json!({"property": a.id, "profile": PROFILE, "seed": a.seed, "what": how, "case": case});
            std::fs::write(&path, serde_json::to_string_pretty(&body).unwrap()).expect("write replay");
            println!("violation ({PROFILE}): executing this case alone, twice: {how}");
            println!("VIOLATION property={} replay={}", a.id, path.display());
            cleanup();
            std::process::exit(1);
        }
    }
    eprintln!("the abnormal end of the worker could not be reproduced from the cases that were in flight: inconclusive");
    cleanup();
    std::process::exit(2)
}

// ------------------------------------------------------------------------------------------------
// worker

fn worker(a: Args) -> ! {
    let id = a.id.clone();
    let prop: &'static str = Box::leak(id.clone().into_boxed_str());
    let cx = Cx { prop, tier: a.tier, seed: a.seed, shards: a.shards, profile: PROFILE };
    run::install_panic_hook();
    if let Ok(p) = std::env::var("VCHECK_SLOTS") {
        run::init_slots(&p);
    }
    if let Ok(p) = std::env::var("VCHECK_FATAL") {
        alloc::set_fatal_path(&p);
    }

    if id == "C18" {
        if let Some(code) = props::isolation::child_main(a.seed) {
            std::process::exit(code);
        }
    }

    if let Some((shard, stream, index)) = a.dump {
        let case = props::regen(&cx, shard, stream, index).unwrap_or(Value::Null);
        println!("{}", serde_json::to_string(&case).unwrap());
        std::process::exit(0);
    }
    if let Some((shard, stream, index)) = a.probe {
        let case = match props::regen(&cx, shard, stream, index) {
            Some(c) => c,
            None => std::process::exit(2),
        };
        run::set_my_shard(0);
        run::slot_begin(stream, index);
        let code = match run::guarded(|| props::replay(&cx, &case)) {
            Ok(Verdict::Fail(_)) | Err(_) => 1,
            Ok(_) => 0,
        };
        run::slot_end();
        std::process::exit(code);
    }

    if let Some(path) = a.replay {
        let text = std::fs::read_to_string(&path).unwrap_or_else(|e| {
            eprintln!("cannot read {}: {e}", path.display());
            std::process::exit(2)
        });
        let v: Value = serde_json::from_str(&text).unwrap_or_else(|e| {
            eprintln!("bad replay file: {e}");
            std::process::exit(2)
        });
        run::QUIET.store(false, Ordering::Relaxed);
        let case = v.get("case").cloned().unwrap_or(Value::Null);
        run::set_my_shard(0);
        run::slot_begin(255, 0);
        let r = run::guarded(|| props::replay(&cx, &case));
        run::slot_end();
        match r {
            Ok(Verdict::Fail(why)) => {
                println!("replay reproduces: {why}");
                println!("VIOLATION property={} replay={}", id, path.display());
                std::process::exit(1);
            }
            Ok(Verdict::Pass) | Ok(Verdict::Skip) => {
                println!("replay passes on this tree (profile {PROFILE})");
                std::process::exit(0);
            }
            Err(p) => {
                println!("replay reproduces: panic: {p}");
                println!("VIOLATION property={} replay={}", id, path.display());
                std::process::exit(1);
            }
        }
    }

    let t0 = Instant::now();
    let mut res = props::run(&cx);
    let mut exit_code = 0;

    // the same exploration under the other build profile (overflow checks off), where the property asks for both
    let mut other_profile = Value::Null;
    if let Some(bin) = a.also {
        let tmp = out_root().join("evidence").join(format!(".{id}.release.part.json"));
        std::fs::create_dir_all(tmp.parent().unwrap()).ok();
        let status = std::process::Command::new(&bin).arg(&id).args(["--tier", cx.tier_name(), "--seed", &a.seed.to_string(), "--shards", &a.shards.to_string(), "--out"]).arg(&tmp).arg("--part").status();
        match status {
            Ok(st) => match st.code() {
                Some(0) => {}
                Some(1) => exit_code = 1,
                _ => {
                    eprintln!("release-profile run ended abnormally: {st:?}");
                    exit_code = exit_code.max(2);
                }
            },
            Err(e) => {
                eprintln!("cannot run {bin}: {e}");
                exit_code = 2;
            }
        }
        if let Ok(t) = std::fs::read_to_string(&tmp) {
            other_profile = serde_json::from_str(&t).unwrap_or(Value::Null);
        }
        std::fs::remove_file(&tmp).ok();
    }

    let wall = t0.elapsed().as_secs_f64();
    let mut vio_lines = Vec::new();
    for v in &res.acc.violations {
        let h = vmodel::hash_json(&v.replay);
        let dir = out_root().join("replays").join(&id);
        std::fs::create_dir_all(&dir).ok();
        let path = dir.join(format!("{h:016x}.json"));
        let body = json!({"property": id, "profile": PROFILE, "tier": cx.tier_name(), "seed": a.seed, "what": v.what, "case": v.replay});
        std::fs::write(&path, serde_json::to_string_pretty(&body).unwrap()).expect("write replay");
        vio_lines.push((v.what.clone(), path));
    }
    let mut extra = res.extra.clone();
    extra["profile"] = json!(PROFILE);
    if !other_profile.is_null() {
        extra["release_profile_run"] = other_profile["coverage"].clone();
        if let Some(n) = other_profile["coverage"]["evaluations"].as_u64() {
            res.acc.bump("evaluations_in_release_profile", n);
        }
        if other_profile["coverage"]["exhaustive"] == json!(true) {
            res.exhaustive = Some(true);
        }
    }
    let meta = EvidenceMeta { property_id: &id, tier: cx.tier_name(), seed: a.seed, level: res.level, rule: &res.rule, assumptions: res.assumptions.clone(), exhaustive: res.exhaustive, wall_s: wall, extra };
    let ev = evidence_json(&meta, &res.acc);
    let out_path = a.out.unwrap_or_else(|| out_root().join("evidence").join(format!("{id}.json")));
    std::fs::create_dir_all(out_path.parent().unwrap()).ok();
    std::fs::write(&out_path, serde_json::to_string_pretty(&ev).unwrap()).expect("write evidence");

    for l in &res.lines {
        println!("{l}");
    }
    println!(
        "{id} [{PROFILE}/{}] seed={}: {} cases, {} distinct non-trivial, {} violations, {:.1}s",
        cx.tier_name(),
        a.seed,
        res.acc.evaluations,
        res.acc.distinct_nontrivial(),
        res.acc.violations.len(),
        wall
    );
    let _ = a.part;
    for (what, path) in &vio_lines {
        println!("violation ({PROFILE}): {what}");
        println!("VIOLATION property={} replay={}", id, path.display());
        exit_code = 1;
    }
    std::process::exit(exit_code);
}
