pub const IANA_TZDB_VERSION : &str = "2024b";

use crate::timezones::Tz;

pub const CET : Tz = Tz::CET;
pub const CST6CDT : Tz = Tz::CST6CDT;
pub const Cuba : Tz = Tz::Cuba;
pub const EET : Tz = Tz::EET;
pub const EST : Tz = Tz::EST;
pub const EST5EDT : Tz = Tz::EST5EDT;
pub const Egypt : Tz = Tz::Egypt;
pub const Eire : Tz = Tz::Eire;
pub const GB : Tz = Tz::GB;
pub const GBEire : Tz = Tz::GBEire;
pub const GMT : Tz = Tz::GMT;
pub const GMTPlus0 : Tz = Tz::GMTPlus0;
pub const GMTMinus0 : Tz = Tz::GMTMinus0;
pub const GMT0 : Tz = Tz::GMT0;
pub const Greenwich : Tz = Tz::Greenwich;
pub const HST : Tz = Tz::HST;
pub const Hongkong : Tz = Tz::Hongkong;
pub const Iceland : Tz = Tz::Iceland;
pub const Iran : Tz = Tz::Iran;
pub const Israel : Tz = Tz::Israel;
pub const Jamaica : Tz = Tz::Jamaica;
pub const Japan : Tz = Tz::Japan;
pub const Kwajalein : Tz = Tz::Kwajalein;
pub const Libya : Tz = Tz::Libya;
pub const MET : Tz = Tz::MET;
pub const MST : Tz = Tz::MST;
pub const MST7MDT : Tz = Tz::MST7MDT;
pub const NZ : Tz = Tz::NZ;
pub const NZCHAT : Tz = Tz::NZCHAT;
pub const Navajo : Tz = Tz::Navajo;
pub const PRC : Tz = Tz::PRC;
pub const PST8PDT : Tz = Tz::PST8PDT;
pub const Poland : Tz = Tz::Poland;
pub const Portugal : Tz = Tz::Portugal;
pub const ROC : Tz = Tz::ROC;
pub const ROK : Tz = Tz::ROK;
pub const Singapore : Tz = Tz::Singapore;
pub const Turkey : Tz = Tz::Turkey;
pub const UCT : Tz = Tz::UCT;
pub const UTC : Tz = Tz::UTC;
pub const Universal : Tz = Tz::Universal;
pub const WSU : Tz = Tz::WSU;
pub const WET : Tz = Tz::WET;
pub const Zulu : Tz = Tz::Zulu;

pub mod Africa {
    use crate::timezones::Tz;

    pub const Abidjan : Tz = Tz::Africa__Abidjan;
    pub const Accra : Tz = Tz::Africa__Accra;
    pub const Addis_Ababa : Tz = Tz::Africa__Addis_Ababa;
    pub const Algiers : Tz = Tz::Africa__Algiers;
    pub const Asmara : Tz = Tz::Africa__Asmara;
    pub const Asmera : Tz = Tz::Africa__Asmera;
    pub const Bamako : Tz = Tz::Africa__Bamako;
    pub const Bangui : Tz = Tz::Africa__Bangui;
    pub const Banjul : Tz = Tz::Africa__Banjul;
    pub const Bissau : Tz = Tz::Africa__Bissau;
    pub const Blantyre : Tz = Tz::Africa__Blantyre;
    pub const Brazzaville : Tz = Tz::Africa__Brazzaville;
    pub const Bujumbura : Tz = Tz::Africa__Bujumbura;
    pub const Cairo : Tz = Tz::Africa__Cairo;
    pub const Casablanca : Tz = Tz::Africa__Casablanca;
    pub const Ceuta : Tz = Tz::Africa__Ceuta;
    pub const Conakry : Tz = Tz::Africa__Conakry;
    pub const Dakar : Tz = Tz::Africa__Dakar;
    pub const Dar_es_Salaam : Tz = Tz::Africa__Dar_es_Salaam;
    pub const Djibouti : Tz = Tz::Africa__Djibouti;
    pub const Douala : Tz = Tz::Africa__Douala;
    pub const El_Aaiun : Tz = Tz::Africa__El_Aaiun;
    pub const Freetown : Tz = Tz::Africa__Freetown;
    pub const Gaborone : Tz = Tz::Africa__Gaborone;
    pub const Harare : Tz = Tz::Africa__Harare;
    pub const Johannesburg : Tz = Tz::Africa__Johannesburg;
    pub const Juba : Tz = Tz::Africa__Juba;
    pub const Kampala : Tz = Tz::Africa__Kampala;
    pub const Khartoum : Tz = Tz::Africa__Khartoum;
    pub const Kigali : Tz = Tz::Africa__Kigali;
    pub const Kinshasa : Tz = Tz::Africa__Kinshasa;
    pub const Lagos : Tz = Tz::Africa__Lagos;
    pub const Libreville : Tz = Tz::Africa__Libreville;
    pub const Lome : Tz = Tz::Africa__Lome;
    pub const Luanda : Tz = Tz::Africa__Luanda;
    pub const Lubumbashi : Tz = Tz::Africa__Lubumbashi;
    pub const Lusaka : Tz = Tz::Africa__Lusaka;
    pub const Malabo : Tz = Tz::Africa__Malabo;
    pub const Maputo : Tz = Tz::Africa__Maputo;
    pub const Maseru : Tz = Tz::Africa__Maseru;
    pub const Mbabane : Tz = Tz::Africa__Mbabane;
    pub const Mogadishu : Tz = Tz::Africa__Mogadishu;
    pub const Monrovia : Tz = Tz::Africa__Monrovia;
    pub const Nairobi : Tz = Tz::Africa__Nairobi;
    pub const Ndjamena : Tz = Tz::Africa__Ndjamena;
    pub const Niamey : Tz = Tz::Africa__Niamey;
    pub const Nouakchott : Tz = Tz::Africa__Nouakchott;
    pub const Ouagadougou : Tz = Tz::Africa__Ouagadougou;
    pub const PortoNovo : Tz = Tz::Africa__PortoNovo;
    pub const Sao_Tome : Tz = Tz::Africa__Sao_Tome;
    pub const Timbuktu : Tz = Tz::Africa__Timbuktu;
    pub const Tripoli : Tz = Tz::Africa__Tripoli;
    pub const Tunis : Tz = Tz::Africa__Tunis;
    pub const Windhoek : Tz = Tz::Africa__Windhoek;
}

pub mod America {
    use crate::timezones::Tz;

    pub mod Argentina {
        use crate::timezones::Tz;

        pub const Buenos_Aires : Tz = Tz::America__Argentina__Buenos_Aires;
        pub const Catamarca : Tz = Tz::America__Argentina__Catamarca;
        pub const ComodRivadavia : Tz = Tz::America__Argentina__ComodRivadavia;
        pub const Cordoba : Tz = Tz::America__Argentina__Cordoba;
        pub const Jujuy : Tz = Tz::America__Argentina__Jujuy;
        pub const La_Rioja : Tz = Tz::America__Argentina__La_Rioja;
        pub const Mendoza : Tz = Tz::America__Argentina__Mendoza;
        pub const Rio_Gallegos : Tz = Tz::America__Argentina__Rio_Gallegos;
        pub const Salta : Tz = Tz::America__Argentina__Salta;
        pub const San_Juan : Tz = Tz::America__Argentina__San_Juan;
        pub const San_Luis : Tz = Tz::America__Argentina__San_Luis;
        pub const Tucuman : Tz = Tz::America__Argentina__Tucuman;
        pub const Ushuaia : Tz = Tz::America__Argentina__Ushuaia;
    }

    pub mod Indiana {
        use crate::timezones::Tz;

        pub const Indianapolis : Tz = Tz::America__Indiana__Indianapolis;
        pub const Knox : Tz = Tz::America__Indiana__Knox;
        pub const Marengo : Tz = Tz::America__Indiana__Marengo;
        pub const Petersburg : Tz = Tz::America__Indiana__Petersburg;
        pub const Tell_City : Tz = Tz::America__Indiana__Tell_City;
        pub const Vevay : Tz = Tz::America__Indiana__Vevay;
        pub const Vincennes : Tz = Tz::America__Indiana__Vincennes;
        pub const Winamac : Tz = Tz::America__Indiana__Winamac;
    }

    pub mod Kentucky {
        use crate::timezones::Tz;

        pub const Louisville : Tz = Tz::America__Kentucky__Louisville;
        pub const Monticello : Tz = Tz::America__Kentucky__Monticello;
    }

    pub mod North_Dakota {
        use crate::timezones::Tz;

        pub const Beulah : Tz = Tz::America__North_Dakota__Beulah;
        pub const Center : Tz = Tz::America__North_Dakota__Center;
        pub const New_Salem : Tz = Tz::America__North_Dakota__New_Salem;
    }

    pub const Adak : Tz = Tz::America__Adak;
    pub const Anchorage : Tz = Tz::America__Anchorage;
    pub const Anguilla : Tz = Tz::America__Anguilla;
    pub const Antigua : Tz = Tz::America__Antigua;
    pub const Araguaina : Tz = Tz::America__Araguaina;
    pub const Aruba : Tz = Tz::America__Aruba;
    pub const Asuncion : Tz = Tz::America__Asuncion;
    pub const Atikokan : Tz = Tz::America__Atikokan;
    pub const Atka : Tz = Tz::America__Atka;
    pub const Bahia : Tz = Tz::America__Bahia;
    pub const Bahia_Banderas : Tz = Tz::America__Bahia_Banderas;
    pub const Barbados : Tz = Tz::America__Barbados;
    pub const Belem : Tz = Tz::America__Belem;
    pub const Belize : Tz = Tz::America__Belize;
    pub const BlancSablon : Tz = Tz::America__BlancSablon;
    pub const Boa_Vista : Tz = Tz::America__Boa_Vista;
    pub const Bogota : Tz = Tz::America__Bogota;
    pub const Boise : Tz = Tz::America__Boise;
    pub const Buenos_Aires : Tz = Tz::America__Buenos_Aires;
    pub const Cambridge_Bay : Tz = Tz::America__Cambridge_Bay;
    pub const Campo_Grande : Tz = Tz::America__Campo_Grande;
    pub const Cancun : Tz = Tz::America__Cancun;
    pub const Caracas : Tz = Tz::America__Caracas;
    pub const Catamarca : Tz = Tz::America__Catamarca;
    pub const Cayenne : Tz = Tz::America__Cayenne;
    pub const Cayman : Tz = Tz::America__Cayman;
    pub const Chicago : Tz = Tz::America__Chicago;
    pub const Chihuahua : Tz = Tz::America__Chihuahua;
    pub const Ciudad_Juarez : Tz = Tz::America__Ciudad_Juarez;
    pub const Coral_Harbour : Tz = Tz::America__Coral_Harbour;
    pub const Cordoba : Tz = Tz::America__Cordoba;
    pub const Costa_Rica : Tz = Tz::America__Costa_Rica;
    pub const Creston : Tz = Tz::America__Creston;
    pub const Cuiaba : Tz = Tz::America__Cuiaba;
    pub const Curacao : Tz = Tz::America__Curacao;
    pub const Danmarkshavn : Tz = Tz::America__Danmarkshavn;
    pub const Dawson : Tz = Tz::America__Dawson;
    pub const Dawson_Creek : Tz = Tz::America__Dawson_Creek;
    pub const Denver : Tz = Tz::America__Denver;
    pub const Detroit : Tz = Tz::America__Detroit;
    pub const Dominica : Tz = Tz::America__Dominica;
    pub const Edmonton : Tz = Tz::America__Edmonton;
    pub const Eirunepe : Tz = Tz::America__Eirunepe;
    pub const El_Salvador : Tz = Tz::America__El_Salvador;
    pub const Ensenada : Tz = Tz::America__Ensenada;
    pub const Fort_Nelson : Tz = Tz::America__Fort_Nelson;
    pub const Fort_Wayne : Tz = Tz::America__Fort_Wayne;
    pub const Fortaleza : Tz = Tz::America__Fortaleza;
    pub const Glace_Bay : Tz = Tz::America__Glace_Bay;
    pub const Godthab : Tz = Tz::America__Godthab;
    pub const Goose_Bay : Tz = Tz::America__Goose_Bay;
    pub const Grand_Turk : Tz = Tz::America__Grand_Turk;
    pub const Grenada : Tz = Tz::America__Grenada;
    pub const Guadeloupe : Tz = Tz::America__Guadeloupe;
    pub const Guatemala : Tz = Tz::America__Guatemala;
    pub const Guayaquil : Tz = Tz::America__Guayaquil;
    pub const Guyana : Tz = Tz::America__Guyana;
    pub const Halifax : Tz = Tz::America__Halifax;
    pub const Havana : Tz = Tz::America__Havana;
    pub const Hermosillo : Tz = Tz::America__Hermosillo;
    pub const Indianapolis : Tz = Tz::America__Indianapolis;
    pub const Inuvik : Tz = Tz::America__Inuvik;
    pub const Iqaluit : Tz = Tz::America__Iqaluit;
    pub const Jamaica : Tz = Tz::America__Jamaica;
    pub const Jujuy : Tz = Tz::America__Jujuy;
    pub const Juneau : Tz = Tz::America__Juneau;
    pub const Knox_IN : Tz = Tz::America__Knox_IN;
    pub const Kralendijk : Tz = Tz::America__Kralendijk;
    pub const La_Paz : Tz = Tz::America__La_Paz;
    pub const Lima : Tz = Tz::America__Lima;
    pub const Los_Angeles : Tz = Tz::America__Los_Angeles;
    pub const Louisville : Tz = Tz::America__Louisville;
    pub const Lower_Princes : Tz = Tz::America__Lower_Princes;
    pub const Maceio : Tz = Tz::America__Maceio;
    pub const Managua : Tz = Tz::America__Managua;
    pub const Manaus : Tz = Tz::America__Manaus;
    pub const Marigot : Tz = Tz::America__Marigot;
    pub const Martinique : Tz = Tz::America__Martinique;
    pub const Matamoros : Tz = Tz::America__Matamoros;
    pub const Mazatlan : Tz = Tz::America__Mazatlan;
    pub const Mendoza : Tz = Tz::America__Mendoza;
    pub const Menominee : Tz = Tz::America__Menominee;
    pub const Merida : Tz = Tz::America__Merida;
    pub const Metlakatla : Tz = Tz::America__Metlakatla;
    pub const Mexico_City : Tz = Tz::America__Mexico_City;
    pub const Miquelon : Tz = Tz::America__Miquelon;
    pub const Moncton : Tz = Tz::America__Moncton;
    pub const Monterrey : Tz = Tz::America__Monterrey;
    pub const Montevideo : Tz = Tz::America__Montevideo;
    pub const Montreal : Tz = Tz::America__Montreal;
    pub const Montserrat : Tz = Tz::America__Montserrat;
    pub const Nassau : Tz = Tz::America__Nassau;
    pub const New_York : Tz = Tz::America__New_York;
    pub const Nipigon : Tz = Tz::America__Nipigon;
    pub const Nome : Tz = Tz::America__Nome;
    pub const Noronha : Tz = Tz::America__Noronha;
    pub const Nuuk : Tz = Tz::America__Nuuk;
    pub const Ojinaga : Tz = Tz::America__Ojinaga;
    pub const Panama : Tz = Tz::America__Panama;
    pub const Pangnirtung : Tz = Tz::America__Pangnirtung;
    pub const Paramaribo : Tz = Tz::America__Paramaribo;
    pub const Phoenix : Tz = Tz::America__Phoenix;
    pub const PortauPrince : Tz = Tz::America__PortauPrince;
    pub const Port_of_Spain : Tz = Tz::America__Port_of_Spain;
    pub const Porto_Acre : Tz = Tz::America__Porto_Acre;
    pub const Porto_Velho : Tz = Tz::America__Porto_Velho;
    pub const Puerto_Rico : Tz = Tz::America__Puerto_Rico;
    pub const Punta_Arenas : Tz = Tz::America__Punta_Arenas;
    pub const Rainy_River : Tz = Tz::America__Rainy_River;
    pub const Rankin_Inlet : Tz = Tz::America__Rankin_Inlet;
    pub const Recife : Tz = Tz::America__Recife;
    pub const Regina : Tz = Tz::America__Regina;
    pub const Resolute : Tz = Tz::America__Resolute;
    pub const Rio_Branco : Tz = Tz::America__Rio_Branco;
    pub const Rosario : Tz = Tz::America__Rosario;
    pub const Santa_Isabel : Tz = Tz::America__Santa_Isabel;
    pub const Santarem : Tz = Tz::America__Santarem;
    pub const Santiago : Tz = Tz::America__Santiago;
    pub const Santo_Domingo : Tz = Tz::America__Santo_Domingo;
    pub const Sao_Paulo : Tz = Tz::America__Sao_Paulo;
    pub const Scoresbysund : Tz = Tz::America__Scoresbysund;
    pub const Shiprock : Tz = Tz::America__Shiprock;
    pub const Sitka : Tz = Tz::America__Sitka;
    pub const St_Barthelemy : Tz = Tz::America__St_Barthelemy;
    pub const St_Johns : Tz = Tz::America__St_Johns;
    pub const St_Kitts : Tz = Tz::America__St_Kitts;
    pub const St_Lucia : Tz = Tz::America__St_Lucia;
    pub const St_Thomas : Tz = Tz::America__St_Thomas;
    pub const St_Vincent : Tz = Tz::America__St_Vincent;
    pub const Swift_Current : Tz = Tz::America__Swift_Current;
    pub const Tegucigalpa : Tz = Tz::America__Tegucigalpa;
    pub const Thule : Tz = Tz::America__Thule;
    pub const Thunder_Bay : Tz = Tz::America__Thunder_Bay;
    pub const Tijuana : Tz = Tz::America__Tijuana;
    pub const Toronto : Tz = Tz::America__Toronto;
    pub const Tortola : Tz = Tz::America__Tortola;
    pub const Vancouver : Tz = Tz::America__Vancouver;
    pub const Virgin : Tz = Tz::America__Virgin;
    pub const Whitehorse : Tz = Tz::America__Whitehorse;
    pub const Winnipeg : Tz = Tz::America__Winnipeg;
    pub const Yakutat : Tz = Tz::America__Yakutat;
    pub const Yellowknife : Tz = Tz::America__Yellowknife;
}

pub mod Antarctica {
    use crate::timezones::Tz;

    pub const Casey : Tz = Tz::Antarctica__Casey;
    pub const Davis : Tz = Tz::Antarctica__Davis;
    pub const DumontDUrville : Tz = Tz::Antarctica__DumontDUrville;
    pub const Macquarie : Tz = Tz::Antarctica__Macquarie;
    pub const Mawson : Tz = Tz::Antarctica__Mawson;
    pub const McMurdo : Tz = Tz::Antarctica__McMurdo;
    pub const Palmer : Tz = Tz::Antarctica__Palmer;
    pub const Rothera : Tz = Tz::Antarctica__Rothera;
    pub const South_Pole : Tz = Tz::Antarctica__South_Pole;
    pub const Syowa : Tz = Tz::Antarctica__Syowa;
    pub const Troll : Tz = Tz::Antarctica__Troll;
    pub const Vostok : Tz = Tz::Antarctica__Vostok;
}

pub mod Arctic {
    use crate::timezones::Tz;

    pub const Longyearbyen : Tz = Tz::Arctic__Longyearbyen;
}

pub mod Asia {
    use crate::timezones::Tz;

    pub const Aden : Tz = Tz::Asia__Aden;
    pub const Almaty : Tz = Tz::Asia__Almaty;
    pub const Amman : Tz = Tz::Asia__Amman;
    pub const Anadyr : Tz = Tz::Asia__Anadyr;
    pub const Aqtau : Tz = Tz::Asia__Aqtau;
    pub const Aqtobe : Tz = Tz::Asia__Aqtobe;
    pub const Ashgabat : Tz = Tz::Asia__Ashgabat;
    pub const Ashkhabad : Tz = Tz::Asia__Ashkhabad;
    pub const Atyrau : Tz = Tz::Asia__Atyrau;
    pub const Baghdad : Tz = Tz::Asia__Baghdad;
    pub const Bahrain : Tz = Tz::Asia__Bahrain;
    pub const Baku : Tz = Tz::Asia__Baku;
    pub const Bangkok : Tz = Tz::Asia__Bangkok;
    pub const Barnaul : Tz = Tz::Asia__Barnaul;
    pub const Beirut : Tz = Tz::Asia__Beirut;
    pub const Bishkek : Tz = Tz::Asia__Bishkek;
    pub const Brunei : Tz = Tz::Asia__Brunei;
    pub const Calcutta : Tz = Tz::Asia__Calcutta;
    pub const Chita : Tz = Tz::Asia__Chita;
    pub const Choibalsan : Tz = Tz::Asia__Choibalsan;
    pub const Chongqing : Tz = Tz::Asia__Chongqing;
    pub const Chungking : Tz = Tz::Asia__Chungking;
    pub const Colombo : Tz = Tz::Asia__Colombo;
    pub const Dacca : Tz = Tz::Asia__Dacca;
    pub const Damascus : Tz = Tz::Asia__Damascus;
    pub const Dhaka : Tz = Tz::Asia__Dhaka;
    pub const Dili : Tz = Tz::Asia__Dili;
    pub const Dubai : Tz = Tz::Asia__Dubai;
    pub const Dushanbe : Tz = Tz::Asia__Dushanbe;
    pub const Famagusta : Tz = Tz::Asia__Famagusta;
    pub const Gaza : Tz = Tz::Asia__Gaza;
    pub const Harbin : Tz = Tz::Asia__Harbin;
    pub const Hebron : Tz = Tz::Asia__Hebron;
    pub const Ho_Chi_Minh : Tz = Tz::Asia__Ho_Chi_Minh;
    pub const Hong_Kong : Tz = Tz::Asia__Hong_Kong;
    pub const Hovd : Tz = Tz::Asia__Hovd;
    pub const Irkutsk : Tz = Tz::Asia__Irkutsk;
    pub const Istanbul : Tz = Tz::Asia__Istanbul;
    pub const Jakarta : Tz = Tz::Asia__Jakarta;
    pub const Jayapura : Tz = Tz::Asia__Jayapura;
    pub const Jerusalem : Tz = Tz::Asia__Jerusalem;
    pub const Kabul : Tz = Tz::Asia__Kabul;
    pub const Kamchatka : Tz = Tz::Asia__Kamchatka;
    pub const Karachi : Tz = Tz::Asia__Karachi;
    pub const Kashgar : Tz = Tz::Asia__Kashgar;
    pub const Kathmandu : Tz = Tz::Asia__Kathmandu;
    pub const Katmandu : Tz = Tz::Asia__Katmandu;
    pub const Khandyga : Tz = Tz::Asia__Khandyga;
    pub const Kolkata : Tz = Tz::Asia__Kolkata;
    pub const Krasnoyarsk : Tz = Tz::Asia__Krasnoyarsk;
    pub const Kuala_Lumpur : Tz = Tz::Asia__Kuala_Lumpur;
    pub const Kuching : Tz = Tz::Asia__Kuching;
    pub const Kuwait : Tz = Tz::Asia__Kuwait;
    pub const Macao : Tz = Tz::Asia__Macao;
    pub const Macau : Tz = Tz::Asia__Macau;
    pub const Magadan : Tz = Tz::Asia__Magadan;
    pub const Makassar : Tz = Tz::Asia__Makassar;
    pub const Manila : Tz = Tz::Asia__Manila;
    pub const Muscat : Tz = Tz::Asia__Muscat;
    pub const Nicosia : Tz = Tz::Asia__Nicosia;
    pub const Novokuznetsk : Tz = Tz::Asia__Novokuznetsk;
    pub const Novosibirsk : Tz = Tz::Asia__Novosibirsk;
    pub const Omsk : Tz = Tz::Asia__Omsk;
    pub const Oral : Tz = Tz::Asia__Oral;
    pub const Phnom_Penh : Tz = Tz::Asia__Phnom_Penh;
    pub const Pontianak : Tz = Tz::Asia__Pontianak;
    pub const Pyongyang : Tz = Tz::Asia__Pyongyang;
    pub const Qatar : Tz = Tz::Asia__Qatar;
    pub const Qostanay : Tz = Tz::Asia__Qostanay;
    pub const Qyzylorda : Tz = Tz::Asia__Qyzylorda;
    pub const Rangoon : Tz = Tz::Asia__Rangoon;
    pub const Riyadh : Tz = Tz::Asia__Riyadh;
    pub const Saigon : Tz = Tz::Asia__Saigon;
    pub const Sakhalin : Tz = Tz::Asia__Sakhalin;
    pub const Samarkand : Tz = Tz::Asia__Samarkand;
    pub const Seoul : Tz = Tz::Asia__Seoul;
    pub const Shanghai : Tz = Tz::Asia__Shanghai;
    pub const Singapore : Tz = Tz::Asia__Singapore;
    pub const Srednekolymsk : Tz = Tz::Asia__Srednekolymsk;
    pub const Taipei : Tz = Tz::Asia__Taipei;
    pub const Tashkent : Tz = Tz::Asia__Tashkent;
    pub const Tbilisi : Tz = Tz::Asia__Tbilisi;
    pub const Tehran : Tz = Tz::Asia__Tehran;
    pub const Tel_Aviv : Tz = Tz::Asia__Tel_Aviv;
    pub const Thimbu : Tz = Tz::Asia__Thimbu;
    pub const Thimphu : Tz = Tz::Asia__Thimphu;
    pub const Tokyo : Tz = Tz::Asia__Tokyo;
    pub const Tomsk : Tz = Tz::Asia__Tomsk;
    pub const Ujung_Pandang : Tz = Tz::Asia__Ujung_Pandang;
    pub const Ulaanbaatar : Tz = Tz::Asia__Ulaanbaatar;
    pub const Ulan_Bator : Tz = Tz::Asia__Ulan_Bator;
    pub const Urumqi : Tz = Tz::Asia__Urumqi;
    pub const UstNera : Tz = Tz::Asia__UstNera;
    pub const Vientiane : Tz = Tz::Asia__Vientiane;
    pub const Vladivostok : Tz = Tz::Asia__Vladivostok;
    pub const Yakutsk : Tz = Tz::Asia__Yakutsk;
    pub const Yangon : Tz = Tz::Asia__Yangon;
    pub const Yekaterinburg : Tz = Tz::Asia__Yekaterinburg;
    pub const Yerevan : Tz = Tz::Asia__Yerevan;
}

pub mod Atlantic {
    use crate::timezones::Tz;

    pub const Azores : Tz = Tz::Atlantic__Azores;
    pub const Bermuda : Tz = Tz::Atlantic__Bermuda;
    pub const Canary : Tz = Tz::Atlantic__Canary;
    pub const Cape_Verde : Tz = Tz::Atlantic__Cape_Verde;
    pub const Faeroe : Tz = Tz::Atlantic__Faeroe;
    pub const Faroe : Tz = Tz::Atlantic__Faroe;
    pub const Jan_Mayen : Tz = Tz::Atlantic__Jan_Mayen;
    pub const Madeira : Tz = Tz::Atlantic__Madeira;
    pub const Reykjavik : Tz = Tz::Atlantic__Reykjavik;
    pub const South_Georgia : Tz = Tz::Atlantic__South_Georgia;
    pub const St_Helena : Tz = Tz::Atlantic__St_Helena;
    pub const Stanley : Tz = Tz::Atlantic__Stanley;
}

pub mod Australia {
    use crate::timezones::Tz;

    pub const ACT : Tz = Tz::Australia__ACT;
    pub const Adelaide : Tz = Tz::Australia__Adelaide;
    pub const Brisbane : Tz = Tz::Australia__Brisbane;
    pub const Broken_Hill : Tz = Tz::Australia__Broken_Hill;
    pub const Canberra : Tz = Tz::Australia__Canberra;
    pub const Currie : Tz = Tz::Australia__Currie;
    pub const Darwin : Tz = Tz::Australia__Darwin;
    pub const Eucla : Tz = Tz::Australia__Eucla;
    pub const Hobart : Tz = Tz::Australia__Hobart;
    pub const LHI : Tz = Tz::Australia__LHI;
    pub const Lindeman : Tz = Tz::Australia__Lindeman;
    pub const Lord_Howe : Tz = Tz::Australia__Lord_Howe;
    pub const Melbourne : Tz = Tz::Australia__Melbourne;
    pub const NSW : Tz = Tz::Australia__NSW;
    pub const North : Tz = Tz::Australia__North;
    pub const Perth : Tz = Tz::Australia__Perth;
    pub const Queensland : Tz = Tz::Australia__Queensland;
    pub const South : Tz = Tz::Australia__South;
    pub const Sydney : Tz = Tz::Australia__Sydney;
    pub const Tasmania : Tz = Tz::Australia__Tasmania;
    pub const Victoria : Tz = Tz::Australia__Victoria;
    pub const West : Tz = Tz::Australia__West;
    pub const Yancowinna : Tz = Tz::Australia__Yancowinna;
}

pub mod Brazil {
    use crate::timezones::Tz;

    pub const Acre : Tz = Tz::Brazil__Acre;
    pub const DeNoronha : Tz = Tz::Brazil__DeNoronha;
    pub const East : Tz = Tz::Brazil__East;
    pub const West : Tz = Tz::Brazil__West;
}

pub mod Canada {
    use crate::timezones::Tz;

    pub const Atlantic : Tz = Tz::Canada__Atlantic;
    pub const Central : Tz = Tz::Canada__Central;
    pub const Eastern : Tz = Tz::Canada__Eastern;
    pub const Mountain : Tz = Tz::Canada__Mountain;
    pub const Newfoundland : Tz = Tz::Canada__Newfoundland;
    pub const Pacific : Tz = Tz::Canada__Pacific;
    pub const Saskatchewan : Tz = Tz::Canada__Saskatchewan;
    pub const Yukon : Tz = Tz::Canada__Yukon;
}

pub mod Chile {
    use crate::timezones::Tz;

    pub const Continental : Tz = Tz::Chile__Continental;
    pub const EasterIsland : Tz = Tz::Chile__EasterIsland;
}

pub mod Etc {
    use crate::timezones::Tz;

    pub const GMT : Tz = Tz::Etc__GMT;
    pub const GMTPlus0 : Tz = Tz::Etc__GMTPlus0;
    pub const GMTPlus1 : Tz = Tz::Etc__GMTPlus1;
    pub const GMTPlus10 : Tz = Tz::Etc__GMTPlus10;
    pub const GMTPlus11 : Tz = Tz::Etc__GMTPlus11;
    pub const GMTPlus12 : Tz = Tz::Etc__GMTPlus12;
    pub const GMTPlus2 : Tz = Tz::Etc__GMTPlus2;
    pub const GMTPlus3 : Tz = Tz::Etc__GMTPlus3;
    pub const GMTPlus4 : Tz = Tz::Etc__GMTPlus4;
    pub const GMTPlus5 : Tz = Tz::Etc__GMTPlus5;
    pub const GMTPlus6 : Tz = Tz::Etc__GMTPlus6;
    pub const GMTPlus7 : Tz = Tz::Etc__GMTPlus7;
    pub const GMTPlus8 : Tz = Tz::Etc__GMTPlus8;
    pub const GMTPlus9 : Tz = Tz::Etc__GMTPlus9;
    pub const GMTMinus0 : Tz = Tz::Etc__GMTMinus0;
    pub const GMTMinus1 : Tz = Tz::Etc__GMTMinus1;
    pub const GMTMinus10 : Tz = Tz::Etc__GMTMinus10;
    pub const GMTMinus11 : Tz = Tz::Etc__GMTMinus11;
    pub const GMTMinus12 : Tz = Tz::Etc__GMTMinus12;
    pub const GMTMinus13 : Tz = Tz::Etc__GMTMinus13;
    pub const GMTMinus14 : Tz = Tz::Etc__GMTMinus14;
    pub const GMTMinus2 : Tz = Tz::Etc__GMTMinus2;
    pub const GMTMinus3 : Tz = Tz::Etc__GMTMinus3;
    pub const GMTMinus4 : Tz = Tz::Etc__GMTMinus4;
    pub const GMTMinus5 : Tz = Tz::Etc__GMTMinus5;
    pub const GMTMinus6 : Tz = Tz::Etc__GMTMinus6;
    pub const GMTMinus7 : Tz = Tz::Etc__GMTMinus7;
    pub const GMTMinus8 : Tz = Tz::Etc__GMTMinus8;
    pub const GMTMinus9 : Tz = Tz::Etc__GMTMinus9;
    pub const GMT0 : Tz = Tz::Etc__GMT0;
    pub const Greenwich : Tz = Tz::Etc__Greenwich;
    pub const UCT : Tz = Tz::Etc__UCT;
    pub const UTC : Tz = Tz::Etc__UTC;
    pub const Universal : Tz = Tz::Etc__Universal;
    pub const Zulu : Tz = Tz::Etc__Zulu;
}

pub mod Europe {
    use crate::timezones::Tz;

    pub const Amsterdam : Tz = Tz::Europe__Amsterdam;
    pub const Andorra : Tz = Tz::Europe__Andorra;
    pub const Astrakhan : Tz = Tz::Europe__Astrakhan;
    pub const Athens : Tz = Tz::Europe__Athens;
    pub const Belfast : Tz = Tz::Europe__Belfast;
    pub const Belgrade : Tz = Tz::Europe__Belgrade;
    pub const Berlin : Tz = Tz::Europe__Berlin;
    pub const Bratislava : Tz = Tz::Europe__Bratislava;
    pub const Brussels : Tz = Tz::Europe__Brussels;
    pub const Bucharest : Tz = Tz::Europe__Bucharest;
    pub const Budapest : Tz = Tz::Europe__Budapest;
    pub const Busingen : Tz = Tz::Europe__Busingen;
    pub const Chisinau : Tz = Tz::Europe__Chisinau;
    pub const Copenhagen : Tz = Tz::Europe__Copenhagen;
    pub const Dublin : Tz = Tz::Europe__Dublin;
    pub const Gibraltar : Tz = Tz::Europe__Gibraltar;
    pub const Guernsey : Tz = Tz::Europe__Guernsey;
    pub const Helsinki : Tz = Tz::Europe__Helsinki;
    pub const Isle_of_Man : Tz = Tz::Europe__Isle_of_Man;
    pub const Istanbul : Tz = Tz::Europe__Istanbul;
    pub const Jersey : Tz = Tz::Europe__Jersey;
    pub const Kaliningrad : Tz = Tz::Europe__Kaliningrad;
    pub const Kiev : Tz = Tz::Europe__Kiev;
    pub const Kirov : Tz = Tz::Europe__Kirov;
    pub const Kyiv : Tz = Tz::Europe__Kyiv;
    pub const Lisbon : Tz = Tz::Europe__Lisbon;
    pub const Ljubljana : Tz = Tz::Europe__Ljubljana;
    pub const London : Tz = Tz::Europe__London;
    pub const Luxembourg : Tz = Tz::Europe__Luxembourg;
    pub const Madrid : Tz = Tz::Europe__Madrid;
    pub const Malta : Tz = Tz::Europe__Malta;
    pub const Mariehamn : Tz = Tz::Europe__Mariehamn;
    pub const Minsk : Tz = Tz::Europe__Minsk;
    pub const Monaco : Tz = Tz::Europe__Monaco;
    pub const Moscow : Tz = Tz::Europe__Moscow;
    pub const Nicosia : Tz = Tz::Europe__Nicosia;
    pub const Oslo : Tz = Tz::Europe__Oslo;
    pub const Paris : Tz = Tz::Europe__Paris;
    pub const Podgorica : Tz = Tz::Europe__Podgorica;
    pub const Prague : Tz = Tz::Europe__Prague;
    pub const Riga : Tz = Tz::Europe__Riga;
    pub const Rome : Tz = Tz::Europe__Rome;
    pub const Samara : Tz = Tz::Europe__Samara;
    pub const San_Marino : Tz = Tz::Europe__San_Marino;
    pub const Sarajevo : Tz = Tz::Europe__Sarajevo;
    pub const Saratov : Tz = Tz::Europe__Saratov;
    pub const Simferopol : Tz = Tz::Europe__Simferopol;
    pub const Skopje : Tz = Tz::Europe__Skopje;
    pub const Sofia : Tz = Tz::Europe__Sofia;
    pub const Stockholm : Tz = Tz::Europe__Stockholm;
    pub const Tallinn : Tz = Tz::Europe__Tallinn;
    pub const Tirane : Tz = Tz::Europe__Tirane;
    pub const Tiraspol : Tz = Tz::Europe__Tiraspol;
    pub const Ulyanovsk : Tz = Tz::Europe__Ulyanovsk;
    pub const Uzhgorod : Tz = Tz::Europe__Uzhgorod;
    pub const Vaduz : Tz = Tz::Europe__Vaduz;
    pub const Vatican : Tz = Tz::Europe__Vatican;
    pub const Vienna : Tz = Tz::Europe__Vienna;
    pub const Vilnius : Tz = Tz::Europe__Vilnius;
    pub const Volgograd : Tz = Tz::Europe__Volgograd;
    pub const Warsaw : Tz = Tz::Europe__Warsaw;
    pub const Zagreb : Tz = Tz::Europe__Zagreb;
    pub const Zaporozhye : Tz = Tz::Europe__Zaporozhye;
    pub const Zurich : Tz = Tz::Europe__Zurich;
}

pub mod Indian {
    use crate::timezones::Tz;

    pub const Antananarivo : Tz = Tz::Indian__Antananarivo;
    pub const Chagos : Tz = Tz::Indian__Chagos;
    pub const Christmas : Tz = Tz::Indian__Christmas;
    pub const Cocos : Tz = Tz::Indian__Cocos;
    pub const Comoro : Tz = Tz::Indian__Comoro;
    pub const Kerguelen : Tz = Tz::Indian__Kerguelen;
    pub const Mahe : Tz = Tz::Indian__Mahe;
    pub const Maldives : Tz = Tz::Indian__Maldives;
    pub const Mauritius : Tz = Tz::Indian__Mauritius;
    pub const Mayotte : Tz = Tz::Indian__Mayotte;
    pub const Reunion : Tz = Tz::Indian__Reunion;
}

pub mod Mexico {
    use crate::timezones::Tz;

    pub const BajaNorte : Tz = Tz::Mexico__BajaNorte;
    pub const BajaSur : Tz = Tz::Mexico__BajaSur;
    pub const General : Tz = Tz::Mexico__General;
}

pub mod Pacific {
    use crate::timezones::Tz;

    pub const Apia : Tz = Tz::Pacific__Apia;
    pub const Auckland : Tz = Tz::Pacific__Auckland;
    pub const Bougainville : Tz = Tz::Pacific__Bougainville;
    pub const Chatham : Tz = Tz::Pacific__Chatham;
    pub const Chuuk : Tz = Tz::Pacific__Chuuk;
    pub const Easter : Tz = Tz::Pacific__Easter;
    pub const Efate : Tz = Tz::Pacific__Efate;
    pub const Enderbury : Tz = Tz::Pacific__Enderbury;
    pub const Fakaofo : Tz = Tz::Pacific__Fakaofo;
    pub const Fiji : Tz = Tz::Pacific__Fiji;
    pub const Funafuti : Tz = Tz::Pacific__Funafuti;
    pub const Galapagos : Tz = Tz::Pacific__Galapagos;
    pub const Gambier : Tz = Tz::Pacific__Gambier;
    pub const Guadalcanal : Tz = Tz::Pacific__Guadalcanal;
    pub const Guam : Tz = Tz::Pacific__Guam;
    pub const Honolulu : Tz = Tz::Pacific__Honolulu;
    pub const Johnston : Tz = Tz::Pacific__Johnston;
    pub const Kanton : Tz = Tz::Pacific__Kanton;
    pub const Kiritimati : Tz = Tz::Pacific__Kiritimati;
    pub const Kosrae : Tz = Tz::Pacific__Kosrae;
    pub const Kwajalein : Tz = Tz::Pacific__Kwajalein;
    pub const Majuro : Tz = Tz::Pacific__Majuro;
    pub const Marquesas : Tz = Tz::Pacific__Marquesas;
    pub const Midway : Tz = Tz::Pacific__Midway;
    pub const Nauru : Tz = Tz::Pacific__Nauru;
    pub const Niue : Tz = Tz::Pacific__Niue;
    pub const Norfolk : Tz = Tz::Pacific__Norfolk;
    pub const Noumea : Tz = Tz::Pacific__Noumea;
    pub const Pago_Pago : Tz = Tz::Pacific__Pago_Pago;
    pub const Palau : Tz = Tz::Pacific__Palau;
    pub const Pitcairn : Tz = Tz::Pacific__Pitcairn;
    pub const Pohnpei : Tz = Tz::Pacific__Pohnpei;
    pub const Ponape : Tz = Tz::Pacific__Ponape;
    pub const Port_Moresby : Tz = Tz::Pacific__Port_Moresby;
    pub const Rarotonga : Tz = Tz::Pacific__Rarotonga;
    pub const Saipan : Tz = Tz::Pacific__Saipan;
    pub const Samoa : Tz = Tz::Pacific__Samoa;
    pub const Tahiti : Tz = Tz::Pacific__Tahiti;
    pub const Tarawa : Tz = Tz::Pacific__Tarawa;
    pub const Tongatapu : Tz = Tz::Pacific__Tongatapu;
    pub const Truk : Tz = Tz::Pacific__Truk;
    pub const Wake : Tz = Tz::Pacific__Wake;
    pub const Wallis : Tz = Tz::Pacific__Wallis;
    pub const Yap : Tz = Tz::Pacific__Yap;
}

pub mod US {
    use crate::timezones::Tz;

    pub const Alaska : Tz = Tz::US__Alaska;
    pub const Aleutian : Tz = Tz::US__Aleutian;
    pub const Arizona : Tz = Tz::US__Arizona;
    pub const Central : Tz = Tz::US__Central;
    pub const EastIndiana : Tz = Tz::US__EastIndiana;
    pub const Eastern : Tz = Tz::US__Eastern;
    pub const Hawaii : Tz = Tz::US__Hawaii;
    pub const IndianaStarke : Tz = Tz::US__IndianaStarke;
    pub const Michigan : Tz = Tz::US__Michigan;
    pub const Mountain : Tz = Tz::US__Mountain;
    pub const Pacific : Tz = Tz::US__Pacific;
    pub const Samoa : Tz = Tz::US__Samoa;
}

