//! C19 (thorough tier): the decode paths implemented with unsafe code, executed under Miri on a deterministic corpus
//! of valid, count-mismatched, truncated and unknown-length-form inputs. Miri reports what AddressSanitizer cannot
//! see (reads of uninitialised memory, invalid transmutes). The results themselves (Ok / Err) are not judged here.
use desert::{deserialize, serialize_to_byte_vec, BinaryDeserializer, BinarySerializer};
use std::fmt::Debug;

fn var_i32(v: i32, out: &mut Vec<u8>) {
    let mut z = ((v << 1) ^ (v >> 31)) as u32;
    loop {
        let g = (z & 0x7f) as u8;
        z >>= 7;
        if z == 0 {
            out.push(g);
            return;
        }
        out.push(g | 0x80);
    }
}

static mut CASES: usize = 0;

fn feed<T: BinaryDeserializer + Debug>(bytes: &[u8]) {
    unsafe { CASES += 1 };
    // every returned value is fully formatted: Miri checks each byte it touches
    if let Ok(v) = deserialize::<T>(bytes) {
        let s = format!("{v:?}");
        std::hint::black_box(s);
    }
}

fn variants<T: BinarySerializer + BinaryDeserializer + Debug>(valid: &T, elem_bytes: &[u8], n: usize, byte_array: bool) {
    let enc = serialize_to_byte_vec(valid).unwrap();
    feed::<T>(&enc);
    for k in 0..enc.len() {
        feed::<T>(&enc[..k]);
    }
    if byte_array {
        // length prefix (var-u32) different from N
        for len in [0usize, n.saturating_sub(1), n + 1, n + 7] {
            let mut b = vec![len as u8];
            b.extend(std::iter::repeat(0xAB).take(len));
            feed::<T>(&b);
            b.extend_from_slice(&[1, 2, 3]);
            feed::<T>(&b);
        }
    } else {
        // known-length form with a count different from N, and the unknown-length form with n-1, n, n+1 items
        for count in [0i32, n as i32 - 1, n as i32 + 1, n as i32 + 5, -2, i32::MAX] {
            let mut b = Vec::new();
            var_i32(count, &mut b);
            for _ in 0..count.clamp(0, 40) {
                b.extend_from_slice(elem_bytes);
            }
            feed::<T>(&b);
        }
        for items in [n.saturating_sub(1), n, n + 1] {
            let mut b = Vec::new();
            var_i32(-1, &mut b);
            for _ in 0..items {
                b.push(1);
                b.extend_from_slice(elem_bytes);
            }
            b.push(0);
            feed::<T>(&b);
            b.pop();
            feed::<T>(&b);
        }
    }
}

macro_rules! arrays {
    ($t:ty, $mk:expr, $eb:expr, $ba:expr; $($n:literal),*) => {$(
        {
            let arr: [$t; $n] = std::array::from_fn(|i| $mk(i));
            variants(&arr, $eb, $n, $ba);
        }
    )*};
}

fn main() {
    arrays!(u8, |i| i as u8, &[7u8], true; 0, 1, 3, 16, 17, 33);
    arrays!(u32, |i| i as u32 * 3, &[0u8, 0, 0, 9], false; 0, 1, 3, 16, 17, 33);
    arrays!(String, |i| format!("s{i}"), &[4u8, b'a', b'b'], false; 0, 1, 3, 17);
    arrays!(Vec<u16>, |i| vec![i as u16; i % 3], &[2u8, 0, 5], false; 0, 1, 3, 17);
    arrays!(Option<Box<u64>>, |i| if i % 2 == 0 { Some(Box::new(i as u64)) } else { None }, &[1u8, 0, 0, 0, 0, 0, 0, 0, 42], false; 0, 1, 3, 17);
    arrays!(i8, |i| i as i8, &[0xFFu8], false; 0, 1, 3);
    arrays!((), |_| (), &[], false; 0, 1, 3);
    variants(&vec![1u8, 2, 3, 4, 5], &[9u8], 5, true);
    variants(&vec!["x".to_string(), "yy".to_string()], &[2u8, b'z'], 2, false);
    variants(&vec![[1u8, 2, 3], [4, 5, 6]], &[3u8, 1, 2, 3], 2, false);
    println!("miri_paths: {} decodes executed", unsafe { CASES });
}
