//! Structure-aware fault injection on encodings (DESIGN §3.4). Operators address *sites* of the reference
//! encoder's site map, so a rewrite hits a chunk size, a count, a tag ... rather than a random byte.
use crate::refcodec::{var_i32, var_u32, Frag, Site, SiteKind};
use proptest::prelude::*;
use proptest::strategy::BoxedStrategy;
use serde::{Deserialize, Serialize};

#[derive(Clone, Debug, PartialEq, Serialize, Deserialize)]
pub enum TOp {
    /// rewrite a varint site (chunk size, step code, count, length, constructor index, back-reference)
    RewriteVarint { sel: u16, choice: u8 },
    /// re-encode a varint site non-minimally with the same value (a leniency: must not change the meaning)
    OverlongVarint { sel: u16, pad: u8 },
    /// replace a one-byte site (version, tag, item flag, terminator, position byte)
    ReplaceByte { sel: u16, choice: u8 },
    FlipBit { at: u16, bit: u8 },
    DeleteRange { sel: u16 },
    DuplicateRange { sel: u16 },
    SwapRanges { a: u16, b: u16 },
    /// overwrite a range with a range of the donor encoding
    Splice { sel: u16, donor_sel: u16 },
    Truncate { at: u16 },
    Append { bytes: Vec<u8> },
    SetByte { at: u16, value: u8 },
}

fn pick(sel: u16, len: usize) -> usize {
    ((sel as usize) * len) >> 16
}

fn is_varint(k: SiteKind) -> bool {
    matches!(k, SiteKind::ChunkSize | SiteKind::StepCode | SiteKind::SeqCount | SiteKind::StrLen | SiteKind::BytesLen | SiteKind::CtorIdx | SiteKind::DedupRef | SiteKind::LeafVarI | SiteKind::LeafVarU)
}
fn is_unsigned(k: SiteKind) -> bool {
    matches!(k, SiteKind::BytesLen | SiteKind::CtorIdx | SiteKind::LeafVarU)
}
fn is_byte(k: SiteKind) -> bool {
    matches!(k, SiteKind::Version | SiteKind::Tag | SiteKind::ItemFlag | SiteKind::Terminator | SiteKind::Position)
}
fn is_range(k: SiteKind) -> bool {
    matches!(k, SiteKind::Elem | SiteKind::Chunk | SiteKind::StrBody | SiteKind::RemovedName)
}

pub fn varint_choices(v: i64, unsigned: bool) -> Vec<i64> {
    if unsigned {
        vec![0, 1, v + 1, (v - 1).max(0), v * 2, 127, 128, 16384, i32::MAX as i64, u32::MAX as i64, (v + 2), 1 << 31]
    } else {
        vec![0, 1, v + 1, v - 1, v * 2, -1, -2, -3, -4, i32::MIN as i64, i32::MAX as i64, 63, 64, -(v.max(1)), i32::MIN as i64 + 1, v + 2]
    }
}

fn encode_choice(v: i64, unsigned: bool) -> Vec<u8> {
    let mut o = Vec::new();
    if unsigned {
        var_u32(v.clamp(0, u32::MAX as i64) as u32, &mut o)
    } else {
        var_i32(v.clamp(i32::MIN as i64, i32::MAX as i64) as i32, &mut o)
    }
    o
}

/// what was done, for classification in the evidence
#[derive(Clone, Debug, Default)]
pub struct Applied {
    pub kinds: Vec<String>,
}

/// applies the operators; site-addressed operators are applied from the highest offset down so that the
/// offsets of the remaining sites stay valid
pub fn apply(frag: &Frag, ops: &[TOp], donor: Option<&Frag>) -> (Vec<u8>, Applied) {
    let mut bytes = frag.bytes.clone();
    let mut applied = Applied::default();
    let varints: Vec<&Site> = frag.sites.iter().filter(|s| is_varint(s.kind)).collect();
    let onebytes: Vec<&Site> = frag.sites.iter().filter(|s| is_byte(s.kind)).collect();
    let ranges: Vec<&Site> = frag.sites.iter().filter(|s| is_range(s.kind) && s.len > 0).collect();
    // resolve to concrete edits: (offset, old_len, replacement, label)
    let mut edits: Vec<(usize, usize, Vec<u8>, String)> = Vec::new();
    let mut tail_ops: Vec<&TOp> = Vec::new();
    for op in ops {
        match op {
            TOp::RewriteVarint { sel, choice } => {
                if varints.is_empty() {
                    continue;
                }
                let s = varints[pick(*sel, varints.len())];
                let un = is_unsigned(s.kind);
                let cs = varint_choices(s.value, un);
                let v = cs[*choice as usize % cs.len()];
                edits.push((s.off, s.len, encode_choice(v, un), format!("rewrite {:?}", s.kind)));
            }
            TOp::OverlongVarint { sel, pad } => {
                if varints.is_empty() {
                    continue;
                }
                let s = varints[pick(*sel, varints.len())];
                let mut b = bytes_of(&frag.bytes, s);
                let extra = 1 + (*pad as usize % 4);
                if b.len() + extra <= 5 {
                    // set the continuation bit on the last byte and append zero groups
                    let n = b.len();
                    b[n - 1] |= 0x80;
                    for i in 0..extra {
                        b.push(if i + 1 == extra { 0x00 } else { 0x80 });
                    }
                    edits.push((s.off, s.len, b, format!("overlong {:?}", s.kind)));
                }
            }
            TOp::ReplaceByte { sel, choice } => {
                if onebytes.is_empty() {
                    continue;
                }
                let s = onebytes[pick(*sel, onebytes.len())];
                let old = frag.bytes[s.off];
                let cs = [0u8, 1, 2, old.wrapping_add(1), old.wrapping_sub(1), 0x7f, 0x80, 0xff, 0xfe, 3, old ^ 1];
                edits.push((s.off, 1, vec![cs[*choice as usize % cs.len()]], format!("byte {:?}", s.kind)));
            }
            TOp::DeleteRange { sel } => {
                if ranges.is_empty() {
                    continue;
                }
                let s = ranges[pick(*sel, ranges.len())];
                edits.push((s.off, s.len, vec![], format!("delete {:?}", s.kind)));
            }
            TOp::DuplicateRange { sel } => {
                if ranges.is_empty() {
                    continue;
                }
                let s = ranges[pick(*sel, ranges.len())];
                let mut b = bytes_of(&frag.bytes, s);
                b.extend_from_slice(&bytes_of(&frag.bytes, s));
                edits.push((s.off, s.len, b, format!("duplicate {:?}", s.kind)));
            }
            TOp::SwapRanges { a, b } => {
                if ranges.len() < 2 {
                    continue;
                }
                let x = ranges[pick(*a, ranges.len())];
                let y = ranges[pick(*b, ranges.len())];
                // only disjoint ranges
                if x.off + x.len <= y.off || y.off + y.len <= x.off {
                    edits.push((x.off, x.len, bytes_of(&frag.bytes, y), format!("swap {:?}", x.kind)));
                    edits.push((y.off, y.len, bytes_of(&frag.bytes, x), format!("swap {:?}", y.kind)));
                }
            }
            TOp::Splice { sel, donor_sel } => {
                if let Some(d) = donor {
                    let dr: Vec<&Site> = d.sites.iter().filter(|s| is_range(s.kind) && s.len > 0).collect();
                    if ranges.is_empty() || dr.is_empty() {
                        continue;
                    }
                    let s = ranges[pick(*sel, ranges.len())];
                    let t = dr[pick(*donor_sel, dr.len())];
                    edits.push((s.off, s.len, bytes_of(&d.bytes, t), format!("splice {:?}", s.kind)));
                }
            }
            other => tail_ops.push(other),
        }
    }
    // drop overlapping edits (keep the first of each overlapping group), apply from the highest offset down
    edits.sort_by(|a, b| b.0.cmp(&a.0));
    let mut last_start = usize::MAX;
    for (off, len, rep, label) in edits {
        if off + len > last_start {
            continue;
        }
        bytes.splice(off..off + len, rep);
        last_start = off;
        applied.kinds.push(label);
    }
    for op in tail_ops {
        match op {
            TOp::FlipBit { at, bit } => {
                if !bytes.is_empty() {
                    let i = pick(*at, bytes.len());
                    bytes[i] ^= 1 << (bit % 8);
                    applied.kinds.push("bit flip".into());
                }
            }
            TOp::SetByte { at, value } => {
                if !bytes.is_empty() {
                    let i = pick(*at, bytes.len());
                    bytes[i] = *value;
                    applied.kinds.push("set byte".into());
                }
            }
            TOp::Truncate { at } => {
                let i = pick(*at, bytes.len() + 1);
                bytes.truncate(i);
                applied.kinds.push("truncate".into());
            }
            TOp::Append { bytes: b } => {
                bytes.extend_from_slice(b);
                applied.kinds.push("append".into());
            }
            _ => unreachable!(),
        }
    }
    (bytes, applied)
}

fn bytes_of(b: &[u8], s: &Site) -> Vec<u8> {
    b[s.off..s.off + s.len].to_vec()
}

pub fn top_strategy() -> BoxedStrategy<TOp> {
    prop_oneof![
        8 => (any::<u16>(), any::<u8>()).prop_map(|(sel, choice)| TOp::RewriteVarint { sel, choice }),
        2 => (any::<u16>(), any::<u8>()).prop_map(|(sel, pad)| TOp::OverlongVarint { sel, pad }),
        5 => (any::<u16>(), any::<u8>()).prop_map(|(sel, choice)| TOp::ReplaceByte { sel, choice }),
        2 => (any::<u16>(), 0u8..8).prop_map(|(at, bit)| TOp::FlipBit { at, bit }),
        2 => any::<u16>().prop_map(|sel| TOp::DeleteRange { sel }),
        2 => any::<u16>().prop_map(|sel| TOp::DuplicateRange { sel }),
        2 => (any::<u16>(), any::<u16>()).prop_map(|(a, b)| TOp::SwapRanges { a, b }),
        2 => (any::<u16>(), any::<u16>()).prop_map(|(sel, donor_sel)| TOp::Splice { sel, donor_sel }),
        1 => any::<u16>().prop_map(|at| TOp::Truncate { at }),
        1 => proptest::collection::vec(any::<u8>(), 1..6).prop_map(|bytes| TOp::Append { bytes }),
        1 => (any::<u16>(), any::<u8>()).prop_map(|(at, value)| TOp::SetByte { at, value }),
    ]
    .boxed()
}

pub fn tops_strategy() -> BoxedStrategy<Vec<TOp>> {
    prop_oneof![5 => proptest::collection::vec(top_strategy(), 1..=1), 2 => proptest::collection::vec(top_strategy(), 2..=2), 1 => proptest::collection::vec(top_strategy(), 3..=3)].boxed()
}
