//! Declarations and evolution histories (DESIGN §3.3). A history is generated as a *spec* of selectors; building
//! it resolves every selector over the candidates that are legal at that point, so every built history is legal
//! by construction (chunk-0 order never changes; a removed / transient field is the last one serialized in its chunk).
use crate::gen::{pick, val_strategy, ValCfg};
use crate::ty::{Decl, DeclBody, Field, Record, Shape, Step, Ty, Variant};
use crate::val::Val;
use proptest::prelude::*;
use proptest::strategy::{BoxedStrategy, ValueTree};
use proptest::test_runner::{Config, RngAlgorithm, TestRng, TestRunner};
use serde::{Deserialize, Serialize};
use std::sync::Arc;

#[derive(Clone, Copy, Debug, PartialEq, Eq, Serialize, Deserialize)]
pub enum StepKind {
    Add,
    MakeOptional,
    Remove,
    MakeTransient,
}

#[derive(Clone, Debug, PartialEq, Serialize, Deserialize)]
pub struct StepSpec {
    pub kind: StepKind,
    pub sel: u16,
    pub ty_sel: u16,
    pub pos_sel: u16,
}

#[derive(Clone, Debug, PartialEq, Serialize, Deserialize)]
pub struct InitField {
    pub ty_sel: u16,
    pub transient: bool,
}

#[derive(Clone, Debug, PartialEq, Serialize, Deserialize)]
pub struct HistorySpec {
    pub init: Vec<InitField>,
    pub steps: Vec<StepSpec>,
    /// seeds the default values (drawn from the value strategies, deterministically)
    pub seed: u64,
}

/// deterministic draw from a value strategy (defaults of added / transient fields)
pub fn sample_val(ty: &Ty, cfg: ValCfg, seed: u64) -> Val {
    let mut s = [0u8; 32];
    s[..8].copy_from_slice(&seed.to_le_bytes());
    s[8..16].copy_from_slice(&crate::fnv64(ty.render().as_bytes()).to_le_bytes());
    let mut r = TestRunner::new_with_rng(Config { failure_persistence: None, ..Config::default() }, TestRng::from_seed(RngAlgorithm::ChaCha, &s));
    // a default is an expression, not decoded data: spell nested transient fields with their declared defaults so
    // that 'what decoding yields' and 'what the default expression yields' coincide
    crate::val::with_transient_defaults(ty, &val_strategy(ty, cfg).new_tree(&mut r).expect("value").current())
}

pub fn history_spec_strategy(max_init: usize, max_steps: usize) -> BoxedStrategy<HistorySpec> {
    let init = proptest::collection::vec((any::<u16>(), prop::bool::weighted(0.12)).prop_map(|(ty_sel, transient)| InitField { ty_sel, transient }), 0..=max_init);
    let kind = prop_oneof![4 => Just(StepKind::Add), 3 => Just(StepKind::MakeOptional), 2 => Just(StepKind::Remove), 2 => Just(StepKind::MakeTransient)];
    let step = (kind, any::<u16>(), any::<u16>(), any::<u16>()).prop_map(|(kind, sel, ty_sel, pos_sel)| StepSpec { kind, sel, ty_sel, pos_sel });
    let steps = prop_oneof![1 => proptest::collection::vec(step.clone(), 0..=0), 6 => proptest::collection::vec(step.clone(), 1..=max_steps.min(4)), 3 => proptest::collection::vec(step, 0..=max_steps)];
    (init, steps, any::<u64>()).prop_map(|(init, steps, seed)| HistorySpec { init, steps, seed }).boxed()
}

const DEFAULT_CFG: ValCfg = ValCfg { non_bmp: false, max_len: 3, long: false, small_alphabet: false, transient_ctors: false };

fn is_serialized(f: &Field) -> bool {
    f.transient.is_none()
}

/// names of the fields that may legally be removed / made transient now
fn removable(r: &Record) -> Vec<String> {
    let mut out = Vec::new();
    // last serialized field of chunk 0
    if let Some(f) = r.fields.iter().filter(|f| is_serialized(f) && r.chunk_of(&f.name) == 0).last() {
        out.push(f.name.clone());
    }
    // every added field still serialized is alone in its chunk
    for f in r.fields.iter().filter(|f| is_serialized(f) && r.chunk_of(&f.name) > 0) {
        out.push(f.name.clone());
    }
    out
}

fn optionalizable(r: &Record) -> Vec<String> {
    r.fields.iter().filter(|f| is_serialized(f) && !f.is_option()).map(|f| f.name.clone()).collect()
}

/// all versions 0..=n of the history (`versions[i]` = the record after `i` steps). `prefix` makes field names unique
/// per history when needed ("f" / "a" by default).
pub fn build_history(spec: &HistorySpec, menu: &[Ty]) -> Vec<Record> {
    build_history_opts(spec, menu, false)
}

/// `relaxed`: FieldRemoved / FieldMadeTransient may hit ANY serialized field, not only the last one of its chunk.
/// Such histories are not legal evolutions (C03 does not use them); they make readers meet headers and field
/// layouts that legal histories never produce, which is what C06 wants to feed a decoder with.
pub fn build_history_opts(spec: &HistorySpec, menu: &[Ty], relaxed: bool) -> Vec<Record> {
    let mut cur = Record { fields: Vec::new(), steps: Vec::new() };
    for (i, f) in spec.init.iter().enumerate() {
        let ty = menu[pick(f.ty_sel, menu.len())].clone();
        let transient = if f.transient { Some(sample_val(&ty, DEFAULT_CFG, spec.seed ^ (i as u64 + 1))) } else { None };
        // (some names carry leading underscores, as fields kept only for their side effects do)
        let us = match f.ty_sel % 11 {
            3 => "_",
            7 => "__",
            _ => "",
        };
        cur.fields.push(Field { name: format!("{us}f{i}"), ty, transient, opt_spelling: (f.ty_sel % 3) as u8 });
    }
    let mut versions = vec![cur.clone()];
    for (si, st) in spec.steps.iter().enumerate() {
        if cur.steps.len() >= 120 || cur.fields.iter().filter(|f| is_serialized(f)).count() >= 100 {
            break;
        }
        let mut kind = st.kind;
        let opt = optionalizable(&cur);
        let rem = if relaxed { cur.fields.iter().filter(|f| is_serialized(f)).map(|f| f.name.clone()).collect() } else { removable(&cur) };
        if kind == StepKind::MakeOptional && opt.is_empty() {
            kind = StepKind::Add;
        }
        if (kind == StepKind::Remove || kind == StepKind::MakeTransient) && rem.is_empty() {
            kind = StepKind::Add;
        }
        match kind {
            StepKind::Add => {
                let ty = menu[pick(st.ty_sel, menu.len())].clone();
                let name = format!("{}a{}", if st.sel % 9 == 4 { "_" } else { "" }, si + 1);
                let default = sample_val(&ty, DEFAULT_CFG, spec.seed ^ ((si as u64 + 1) << 20));
                let pos = pick(st.pos_sel, cur.fields.len() + 1);
                cur.fields.insert(pos, Field { name: name.clone(), ty, transient: None, opt_spelling: (st.sel % 3) as u8 });
                cur.steps.push(Step::Added { name, default });
            }
            StepKind::MakeOptional => {
                let name = opt[pick(st.sel, opt.len())].clone();
                for f in cur.fields.iter_mut() {
                    if f.name == name {
                        f.ty = Ty::Option(Arc::new(f.ty.clone()));
                        f.opt_spelling = (st.pos_sel % 3) as u8;
                    }
                }
                // the default expression of an earlier FieldAdded must now have the optional type
                for s in cur.steps.iter_mut() {
                    if let Step::Added { name: n, default } = s {
                        if *n == name {
                            *default = Val::some(default.clone());
                        }
                    }
                }
                cur.steps.push(Step::MadeOptional { name });
            }
            StepKind::Remove => {
                let name = rem[pick(st.sel, rem.len())].clone();
                cur.fields.retain(|f| f.name != name);
                cur.steps.push(Step::Removed { name });
            }
            StepKind::MakeTransient => {
                let name = rem[pick(st.sel, rem.len())].clone();
                for f in cur.fields.iter_mut() {
                    if f.name == name {
                        f.transient = Some(sample_val(&f.ty, DEFAULT_CFG, spec.seed ^ ((si as u64 + 1) << 40)));
                    }
                }
                cur.steps.push(Step::MadeTransient { name });
            }
        }
        versions.push(cur.clone());
    }
    versions
}

/// a history whose fields can be positional (a tuple variant): fields are only ever appended at the end, none is
/// removed or made transient by a step (positions would shift); every version's fields are named field0, field1, ...
/// over all declared fields, as the derive macro names them
pub fn build_history_positional(spec: &HistorySpec, menu: &[Ty]) -> Vec<Record> {
    let mut sp = spec.clone();
    for s in sp.steps.iter_mut() {
        // (a step that finds no candidate falls back to FieldAdded: every step appends)
        s.pos_sel = u16::MAX;
        if matches!(s.kind, StepKind::Remove | StepKind::MakeTransient) {
            s.kind = StepKind::MakeOptional;
        }
    }
    let mut versions = build_history(&sp, menu);
    let last = versions.last().unwrap().clone();
    let rename = |n: &str| -> String { last.fields.iter().position(|f| f.name == n).map(|i| format!("field{i}")).unwrap_or_else(|| n.to_string()) };
    for v in versions.iter_mut() {
        for f in v.fields.iter_mut() {
            f.name = rename(&f.name);
        }
        for st in v.steps.iter_mut() {
            match st {
                Step::Added { name, .. } | Step::MadeOptional { name } | Step::Removed { name } | Step::MadeTransient { name } => *name = rename(name),
            }
        }
    }
    versions
}

pub fn tuple_holder(name: &str, r: &Record) -> Arc<Decl> {
    variant_holder(name, r, Shape::Tuple)
}

pub fn variant_holder(name: &str, r: &Record, shape: Shape) -> Arc<Decl> {
    Arc::new(Decl {
        name: name.to_string(),
        body: DeclBody::Enum {
            sorted: false,
            steps: vec![],
            variants: vec![
                Variant { name: "Nil".into(), shape: Shape::Unit, transient: false, record: Record { fields: vec![], steps: vec![] } },
                Variant { name: "Rec".into(), shape, transient: false, record: r.clone() },
            ],
        },
    })
}

#[derive(Clone, Debug, PartialEq, Eq)]
pub enum ReadErr {
    FieldRemovedInSerializedVersion(String),
    NonOptionalFieldSerializedAsNone(String),
}

#[derive(Clone, Debug, PartialEq, Eq)]
pub enum ReadClass {
    Plain,
    Default,
    Wrap,
    Unwrap,
    UnwrapError,
    RemovedNone,
    RemovedError,
    SkippedChunk,
}

/// DESIGN §5.3: the documented outcome of reading, with version `r`, data written by version `w` — computed on the
/// logical level (no bytes involved). `v` is a value of version `w` (all declared fields). Returns the value of
/// version `r` or the specific error, plus the classes of reader branches that were exercised.
pub fn expected_read(versions: &[Record], w: usize, r: usize, v: &Val) -> (Result<Val, ReadErr>, Vec<ReadClass>) {
    expected_read_adapt(&versions[w], &versions[r], versions.last().unwrap(), w, r, v, &mut |_, _, x| Ok(x.clone()))
}

/// The same with the writer's and the reader's record given separately (their field *types* may differ where a
/// nested declaration has a history of its own): `adapt(writer field type, reader field type, written value)` says
/// what the reader makes of a value that reaches it (after wrapping / unwrapping); an error there is the outcome of
/// the whole read, in field order.
pub fn expected_read_adapt(wr: &Record, rr: &Record, last: &Record, w: usize, r: usize, v: &Val, adapt: &mut dyn FnMut(&Ty, &Ty, &Val) -> Result<Val, ReadErr>) -> (Result<Val, ReadErr>, Vec<ReadClass>) {
    let wvals = match v {
        Val::Rec(fs) => fs,
        _ => panic!("expected_read: not a record value"),
    };
    let mut classes = Vec::new();
    let mut out = Vec::new();
    // removed (or made transient) by the writer's version
    // (a name that was removed may be added again by a later step: a removal concerns the reader's field only if it
    // comes after the step that introduced the field as the reader knows it)
    let removed_by_w = |name: &str| wr.steps.iter().enumerate().any(|(i, s)| matches!(s, Step::Removed { name: n } | Step::MadeTransient { name: n } if n == name) && i + 1 > rr.chunk_of(name));
    // a chunk the writer has and the reader does not read
    if wr.steps.len() > rr.steps.len() && wr.steps[rr.steps.len()..].iter().any(|s| matches!(s, Step::Added { .. })) {
        classes.push(ReadClass::SkippedChunk);
    }
    for g in &rr.fields {
        if let Some(d) = &g.transient {
            out.push(d.clone());
            continue;
        }
        if removed_by_w(&g.name) {
            if g.is_option() {
                classes.push(ReadClass::RemovedNone);
                out.push(Val::None);
                continue;
            } else {
                classes.push(ReadClass::RemovedError);
                return (Err(ReadErr::FieldRemovedInSerializedVersion(g.name.clone())), classes);
            }
        }
        let added_at = rr.chunk_of(&g.name);
        if added_at > w {
            classes.push(ReadClass::Default);
            out.push(rr.default_of(&g.name).expect("FieldAdded declares a default").clone());
            continue;
        }
        // written by w
        let (wi, wf) = wr.fields.iter().enumerate().find(|(_, f)| f.name == g.name).expect("field present in writer version");
        assert!(wf.transient.is_none(), "writer field is serialized");
        let x = &wvals[wi];
        // o = index of the step that made the field optional (0: never)
        let o = last.made_optional_at(&g.name);
        let wrap = o > 0 && w < o && o <= r;
        let unwrap = o > 0 && r < o && o <= w;
        let inner_of = |t: &Ty| match t {
            Ty::Option(i) => (**i).clone(),
            other => panic!("optional field has type {other:?}"),
        };
        if wrap {
            classes.push(ReadClass::Wrap);
            match adapt(&wf.ty, &inner_of(&g.ty), x) {
                Ok(y) => out.push(Val::some(y)),
                Err(e) => return (Err(e), classes),
            }
        } else if unwrap {
            match x {
                Val::Some(y) => {
                    classes.push(ReadClass::Unwrap);
                    match adapt(&inner_of(&wf.ty), &g.ty, y) {
                        Ok(z) => out.push(z),
                        Err(e) => return (Err(e), classes),
                    }
                }
                Val::None => {
                    classes.push(ReadClass::UnwrapError);
                    return (Err(ReadErr::NonOptionalFieldSerializedAsNone(g.name.clone())), classes);
                }
                other => panic!("optional writer field holds {other:?}"),
            }
        } else {
            classes.push(ReadClass::Plain);
            match adapt(&wf.ty, &g.ty, x) {
                Ok(y) => out.push(y),
                Err(e) => return (Err(e), classes),
            }
        }
    }
    (Ok(Val::Rec(out)), classes)
}

/// DESIGN §9: stored version 0 and the reader legally dropped a chunk-0 field: no framing tells an embedded reader
/// how far the record extends
pub fn unframed_removal(versions: &[Record], w: usize, r: usize) -> bool {
    if w != 0 {
        return false;
    }
    let rr = &versions[r];
    rr.steps.iter().any(|s| match s {
        Step::Removed { name } | Step::MadeTransient { name } => versions[0].fields.iter().any(|f| &f.name == name && f.transient.is_none()),
        _ => false,
    })
}

pub fn struct_decl(name: &str, r: &Record) -> Arc<Decl> {
    Arc::new(Decl { name: name.to_string(), body: DeclBody::Struct(r.clone()) })
}

// ------------------------------------------------------------------------------------------------
// enums and enum families (C13)

#[derive(Clone, Debug, PartialEq, Serialize, Deserialize)]
pub struct VariantSpec {
    pub shape: u8,
    pub transient: bool,
    pub hist: HistorySpec,
    /// which version of the variant's history the declaration carries
    pub version_sel: u16,
}

#[derive(Clone, Debug, PartialEq, Serialize, Deserialize)]
pub struct EnumSpec {
    pub sorted: bool,
    pub base: Vec<VariantSpec>,
    /// variants appended by the successive extensions E', E''
    pub ext1: Vec<VariantSpec>,
    pub ext2: Vec<VariantSpec>,
    pub name_seed: u16,
}

pub fn enum_spec_strategy() -> BoxedStrategy<EnumSpec> {
    let variant = (0u8..3, prop::bool::weighted(0.15), history_spec_strategy(3, 3), any::<u16>()).prop_map(|(shape, transient, hist, version_sel)| VariantSpec { shape, transient, hist, version_sel });
    (any::<bool>(), proptest::collection::vec(variant.clone(), 1..=5), proptest::collection::vec(variant.clone(), 1..=2), proptest::collection::vec(variant, 0..=2), any::<u16>())
        .prop_map(|(sorted, base, ext1, ext2, name_seed)| EnumSpec { sorted, base, ext1, ext2, name_seed })
        .boxed()
}

const VARIANT_NAMES: [&str; 12] = ["Mango", "Apple", "Kiwi", "Cherry", "Banana", "Lemon", "Date", "Fig", "Grape", "Olive", "Elder", "Ivy"];

fn build_variant(name: String, vs: &VariantSpec, menu: &[Ty]) -> Variant {
    let shape = match vs.shape {
        0 => Shape::Unit,
        1 => Shape::Tuple,
        _ => Shape::Struct,
    };
    if shape == Shape::Unit {
        // a constructor that used to have fields: its own evolution says so, the declaration is a unit variant
        let steps = match vs.version_sel % 5 {
            1 => vec![Step::Removed { name: "gone".into() }],
            3 => vec![Step::Removed { name: "gone".into() }, Step::Removed { name: "_also".into() }],
            _ => vec![],
        };
        return Variant { name, shape, transient: vs.transient, record: Record { fields: vec![], steps } };
    }
    let mut hist = vs.hist.clone();
    if shape == Shape::Tuple {
        // positional fields may carry #[transient(..)] too; positional names follow the macro (field0, field1, ...
        // numbered over ALL declared fields, transient ones included)
        for s in hist.steps.iter_mut() {
            if s.kind == StepKind::MakeTransient {
                s.kind = StepKind::Remove;
            }
        }
    }
    let versions = build_history(&hist, menu);
    let mut rec = versions[pick(vs.version_sel, versions.len())].clone();
    if shape == Shape::Tuple {
        // a tuple variant's fields are named by position, so an evolution history over positional names only makes
        // sense when positions are stable: keep the initial version's steps out (plain tuple variant) unless every
        // step is an append at the end. Simplest sound choice: tuple variants carry no evolution.
        rec = versions[0].clone();
        for (i, f) in rec.fields.iter_mut().enumerate() {
            f.name = format!("field{i}");
        }
    }
    Variant { name, shape, transient: vs.transient, record: rec }
}

/// the family E ⊂ E' ⊂ E'' as three declarations named `{name}A`, `{name}B`, `{name}C`
pub fn build_enum_family(name: &str, spec: &EnumSpec, menu: &[Ty]) -> Vec<Arc<Decl>> {
    // names: a rotation of the pool so that sorted order differs from declaration order; extensions get names that
    // sort after every base name ("Zz...") so that appended variants also come last in sorted index order
    let rot = spec.name_seed as usize % VARIANT_NAMES.len();
    let mut variants: Vec<Variant> = Vec::new();
    for (i, vs) in spec.base.iter().enumerate() {
        variants.push(build_variant(VARIANT_NAMES[(rot + i * 5) % VARIANT_NAMES.len()].to_string() + &format!("{i}"), vs, menu));
    }
    // at least one non-transient variant so that values exist
    if variants.iter().all(|v| v.transient) {
        variants[0].transient = false;
    }
    // evolution steps on the enum itself (one family in three): none on E, one on E', more on E'' — the extensions
    // are later versions of the type in this sense too
    let own = |k: usize| -> Vec<Step> {
        let all = [Step::Removed { name: "legacy".into() }, Step::Added { name: "shadow".into(), default: Val::Unit }, Step::MadeTransient { name: "_memo".into() }];
        match spec.name_seed % 3 {
            0 => all[..(k * 2).min(3)].to_vec(),
            _ => vec![],
        }
    };
    let mut out = vec![Arc::new(Decl { name: format!("{name}A"), body: DeclBody::Enum { sorted: spec.sorted, variants: variants.clone(), steps: own(0) } })];
    for (i, vs) in spec.ext1.iter().enumerate() {
        variants.push(build_variant(format!("Zza{i}"), vs, menu));
    }
    out.push(Arc::new(Decl { name: format!("{name}B"), body: DeclBody::Enum { sorted: spec.sorted, variants: variants.clone(), steps: own(1) } }));
    for (i, vs) in spec.ext2.iter().enumerate() {
        variants.push(build_variant(format!("Zzb{i}"), vs, menu));
    }
    out.push(Arc::new(Decl { name: format!("{name}C"), body: DeclBody::Enum { sorted: spec.sorted, variants, steps: own(2) } }));
    out
}

/// field-type menu for declarations interpreted at run time (E3): any built-in type is fine
pub fn dynamic_menu(with_dedup: bool) -> Vec<Ty> {
    use Ty::*;
    let a = |t: Ty| std::sync::Arc::new(t);
    let mut m = vec![
        U8,
        I32,
        U64,
        Bool,
        Str,
        F64,
        Char,
        I8,
        U16,
        Dedup,
        Vec(a(U16)),
        Vec(a(U8)),
        Tuple(vec![U8, Str]),
        Option(a(U32)),
        Option(a(Str)),
        Vec(a(Str)),
        BTreeMap(a(U8), a(Str)),
        Array(a(U8), 3),
        Array(a(U16), 2),
        Box(a(I16)),
        Uuid,
        Duration,
        Unit,
        HashSet(a(U32)),
        Result(a(U8), a(Str)),
        Vec(a(Dedup)),
        NaiveDate,
        BigInt,
    ];
    if !with_dedup {
        m.retain(|t| *t != Dedup && *t != Vec(a(Dedup)));
    }
    m
}

/// a derived type for the generic (type, value) engines: a struct at a random version of a random history, or a
/// member of a random enum family. Interpreted at run time (E3) unless its name is a compiled declaration.
pub fn adt_ty_strategy(with_dedup: bool) -> BoxedStrategy<Ty> {
    let menu = dynamic_menu(with_dedup);
    let menu2 = menu.clone();
    prop_oneof![
        3 => (history_spec_strategy(5, 6), any::<u16>()).prop_map(move |(spec, vsel)| {
            let versions = build_history(&spec, &menu);
            let i = pick(vsel, versions.len());
            Ty::Adt(struct_decl(&format!("DynS{:08x}v{i}", crate::hash_json(&spec) as u32), &versions[i]))
        }),
        1 => (enum_spec_strategy(), any::<u16>()).prop_map(move |(spec, sel)| {
            let fam = build_enum_family(&format!("DynE{:08x}", crate::hash_json(&spec) as u32), &spec, &menu2);
            Ty::Adt(fam[pick(sel, fam.len())].clone())
        }),
    ]
    .boxed()
}

/// hand-written declarations covering every evolution step kind, optional / transient fields and enums; used where
/// a *fixed* type list is needed (exhaustive byte enumeration of C05, anchors)
pub fn fixed_decls() -> Vec<Arc<Decl>> {
    use Ty::*;
    let a = |t: Ty| std::sync::Arc::new(t);
    let f = |n: &str, t: Ty| Field::new(n, t);
    let mut out: std::vec::Vec<std::sync::Arc<Decl>> = std::vec::Vec::new();
    // version-0 record
    out.push(struct_decl("FixP0", &Record { fields: vec![f("x", U8), f("s", Str)], steps: vec![] }));
    // the Point of tests/derivation.rs: FieldAdded("x", 0), FieldRemoved("z"), a transient field
    out.push(struct_decl(
        "FixPoint",
        &Record {
            fields: vec![f("x", I32), f("y", I32), Field { name: "_cached_str".into(), ty: Option(a(Str)), transient: Some(Val::None), opt_spelling: 0 }],
            steps: vec![Step::Added { name: "x".into(), default: Val::Int(0) }, Step::Removed { name: "z".into() }],
        },
    ));
    // made optional, then a field added, then the optional one made transient
    out.push(struct_decl(
        "FixOpt",
        &Record {
            fields: vec![f("a", U8), f("b", Option(a(U16))), f("c", Str)],
            steps: vec![Step::MadeOptional { name: "b".into() }, Step::Added { name: "c".into(), default: Val::str("d") }],
        },
    ));
    out.push(struct_decl(
        "FixOld",
        &Record { fields: vec![f("a", U8), f("b", U16)], steps: vec![] },
    ));
    out.push(struct_decl(
        "FixTr",
        &Record {
            fields: vec![f("a", Dedup), Field { name: "t".into(), ty: U32, transient: Some(Val::Int(7)), opt_spelling: 0 }, f("n", Option(a(Dedup)))],
            steps: vec![Step::MadeTransient { name: "t".into() }, Step::Added { name: "n".into(), default: Val::None }],
        },
    ));
    let unit = Record { fields: vec![], steps: vec![] };
    out.push(std::sync::Arc::new(Decl {
        name: "FixEnum".into(),
        body: DeclBody::Enum {
            sorted: false,
            steps: vec![],
            variants: vec![
                Variant { name: "A".into(), shape: Shape::Unit, transient: false, record: unit.clone() },
                Variant { name: "B".into(), shape: Shape::Tuple, transient: false, record: Record { fields: vec![f("field0", Str)], steps: vec![] } },
                Variant { name: "T".into(), shape: Shape::Unit, transient: true, record: unit.clone() },
                Variant {
                    name: "C".into(),
                    shape: Shape::Struct,
                    transient: false,
                    record: Record { fields: vec![f("p", Option(a(U8))), f("z", U64)], steps: vec![Step::Added { name: "z".into(), default: Val::Int(3) }] },
                },
            ],
        },
    }));
    out
}

// ------------------------------------------------------------------------------------------------
// the compiled batch (E2): a deterministic function of a seed, shared by vgen (source) and vcheck (model)

pub struct Batch {
    /// histories[h][v]: struct `H{h}V{v}`
    pub histories: Vec<Vec<Arc<Decl>>>,
    /// histories whose menu contains DeduplicatedString (excluded from cross-version checks)
    pub dedup_histories: Vec<bool>,
    /// families[n] = [E{n}A, E{n}B, E{n}C]
    pub families: Vec<Vec<Arc<Decl>>>,
    /// tuple_histories[t][v]: enum `T{t}V{v}` = { Nil, Rec(<positional fields of version v>) } with the history on
    /// the tuple variant (the macro's unnamed-field branches, across versions)
    pub tuple_histories: Vec<Vec<Arc<Decl>>>,
    pub specials: Vec<Arc<Decl>>,
}

impl Batch {
    pub fn all(&self) -> Vec<Arc<Decl>> {
        let mut v: Vec<Arc<Decl>> = Vec::new();
        // dependency order: a declaration only refers to declarations generated before it
        v.extend(self.specials.iter().cloned());
        let nh = self.histories.len();
        let nf = self.families.len();
        for i in 0..nh.max(nf) {
            if i < nf {
                v.extend(self.families[i].iter().cloned());
            }
            if i < nh {
                v.extend(self.histories[i].iter().cloned());
            }
        }
        for t in &self.tuple_histories {
            v.extend(t.iter().cloned());
        }
        v
    }
    pub fn hash(&self) -> u64 {
        crate::hash_json(&self.all())
    }
}

fn draw<T: std::fmt::Debug>(s: &BoxedStrategy<T>, r: &mut TestRunner) -> T {
    s.new_tree(r).expect("draw").current()
}

pub fn static_menu(with_dedup: bool) -> Vec<Ty> {
    dynamic_menu(with_dedup)
}

pub fn compiled_batch(seed: u64, n_hist: usize, n_fam: usize) -> Batch {
    let mut s = [0u8; 32];
    s[..8].copy_from_slice(&seed.to_le_bytes());
    s[8] = 0xE2;
    let mut r = TestRunner::new_with_rng(Config { failure_persistence: None, ..Config::default() }, TestRng::from_seed(RngAlgorithm::ChaCha, &s));
    let mut nested: Vec<Ty> = Vec::new();
    let a = |t: Ty| Arc::new(t);
    // ---- specials
    let mut specials: Vec<Arc<Decl>> = Vec::new();
    let f = |n: &str, t: Ty| Field::new(n, t);
    specials.push(struct_decl("UnitU", &Record { fields: vec![], steps: vec![] }));
    specials.push(struct_decl("EmptyBraces", &Record { fields: vec![], steps: vec![] }));
    specials.push(struct_decl(
        "OnlyTransient",
        &Record { fields: vec![Field { name: "t".into(), ty: Ty::U32, transient: Some(Val::Int(9)), opt_spelling: 0 }, Field { name: "u".into(), ty: Ty::Str, transient: Some(Val::str("dflt")), opt_spelling: 0 }], steps: vec![] },
    ));
    specials.push(struct_decl("RecList", &Record { fields: vec![f("v", Ty::U8), f("next", Ty::Option(a(Ty::Box(a(Ty::Rec("RecList".into()))))))], steps: vec![] }));
    specials.push(struct_decl("RecTree", &Record { fields: vec![f("label", Ty::Str), f("kids", Ty::Vec(a(Ty::Rec("RecTree".into()))))], steps: vec![Step::Added { name: "label".into(), default: Val::str("") }] }));
    specials.push(Arc::new(Decl {
        name: "RecEnum".into(),
        body: DeclBody::Enum {
            sorted: false,
            steps: vec![],
            variants: vec![
                Variant { name: "Leaf".into(), shape: Shape::Tuple, transient: false, record: Record { fields: vec![f("field0", Ty::U8)], steps: vec![] } },
                Variant { name: "Node".into(), shape: Shape::Struct, transient: false, record: Record { fields: vec![f("l", Ty::Box(a(Ty::Rec("RecEnum".into())))), f("r", Ty::Option(a(Ty::Box(a(Ty::Rec("RecEnum".into()))))))], steps: vec![] } },
            ],
        },
    }));
    // the documented limit: 255 entries in the evolution table = 254 user steps
    {
        let mut steps = Vec::new();
        for i in 0..126 {
            steps.push(Step::Added { name: format!("g{i}"), default: Val::Int(i as i128) });
            steps.push(Step::Removed { name: format!("g{i}") });
        }
        steps.push(Step::Added { name: "last".into(), default: Val::str("end") });
        steps.push(Step::MadeOptional { name: "first".into() });
        specials.push(struct_decl("Max254", &Record { fields: vec![f("first", Ty::Option(a(Ty::U16))), f("last", Ty::Str)], steps }));
    }
    // unit-only enums with explicit discriminants (render.rs spells them for names starting with "Disc"): constructor
    // ids are positions, whatever the discriminants say
    let unit = |n: &str| Variant { name: n.into(), shape: Shape::Unit, transient: false, record: Record { fields: vec![], steps: vec![] } };
    specials.push(Arc::new(Decl { name: "DiscU".into(), body: DeclBody::Enum { sorted: false, steps: vec![], variants: vec![unit("Low"), unit("High"), unit("Critical"), unit("Boom")] } }));
    specials.push(Arc::new(Decl { name: "DiscS".into(), body: DeclBody::Enum { sorted: true, steps: vec![], variants: vec![unit("Pear"), unit("Apple"), unit("Quince")] } }));
    // sorted constructors whose names order differently by code unit and by letter
    specials.push(Arc::new(Decl {
        name: "SortCase".into(),
        body: DeclBody::Enum {
            sorted: true,
            steps: vec![],
            variants: vec![
                Variant { name: "Idle".into(), shape: Shape::Unit, transient: false, record: Record { fields: vec![], steps: vec![] } },
                Variant { name: "IOError".into(), shape: Shape::Tuple, transient: false, record: Record { fields: vec![f("field0", Ty::Str)], steps: vec![] } },
                Variant { name: "Aa".into(), shape: Shape::Struct, transient: false, record: Record { fields: vec![f("n", Ty::U16)], steps: vec![] } },
                Variant { name: "AB".into(), shape: Shape::Unit, transient: false, record: Record { fields: vec![], steps: vec![] } },
                // one name continuing another at a capital or a digit
                Variant { name: "GetAll".into(), shape: Shape::Unit, transient: false, record: Record { fields: vec![], steps: vec![] } },
                Variant { name: "Get".into(), shape: Shape::Tuple, transient: false, record: Record { fields: vec![f("field0", Ty::U8)], steps: vec![] } },
                Variant { name: "V10".into(), shape: Shape::Unit, transient: false, record: Record { fields: vec![], steps: vec![] } },
                Variant { name: "V1".into(), shape: Shape::Unit, transient: false, record: Record { fields: vec![], steps: vec![] } },
            ],
        },
    }));
    // one record at three moments: an optional field in front, a field added behind it (another chunk), then the
    // optional one removed — what a reader of the middle version meets depends on who wrote the data
    {
        let opt = || Field { name: "opt".into(), ty: Ty::Option(a(Ty::U32)), transient: None, opt_spelling: 0 };
        let added = Step::Added { name: "b".into(), default: Val::str("dflt") };
        specials.push(struct_decl("MemoV0", &Record { fields: vec![opt(), f("a", Ty::U8)], steps: vec![] }));
        specials.push(struct_decl("MemoV1", &Record { fields: vec![opt(), f("a", Ty::U8), f("b", Ty::Str)], steps: vec![added.clone()] }));
        specials.push(struct_decl("MemoV2", &Record { fields: vec![f("a", Ty::U8), f("b", Ty::Str)], steps: vec![added, Step::Removed { name: "opt".into() }] }));
    }
    // a field made transient under its own name in front of live fields of the same chunk, one of them made optional
    {
        let cache = || Field { name: "cache".into(), ty: Ty::Option(a(Ty::Str)), transient: Some(Val::None), opt_spelling: 0 };
        let steps = vec![Step::MadeOptional { name: "label".into() }, Step::MadeTransient { name: "cache".into() }];
        specials.push(struct_decl("TrSkip", &Record { fields: vec![cache(), f("count", Ty::U32), Field { name: "label".into(), ty: Ty::Option(a(Ty::Str)), transient: None, opt_spelling: 0 }, f("tail", Ty::U8)], steps: steps.clone() }));
        specials.push(Arc::new(Decl {
            name: "TrSkipE".into(),
            body: DeclBody::Enum {
                sorted: false,
                steps: vec![],
                variants: vec![
                    Variant { name: "Plain".into(), shape: Shape::Unit, transient: false, record: Record { fields: vec![], steps: vec![] } },
                    Variant { name: "Job".into(), shape: Shape::Struct, transient: false, record: Record { fields: vec![cache(), f("count", Ty::U32), Field { name: "label".into(), ty: Ty::Option(a(Ty::Str)), transient: None, opt_spelling: 1 }], steps } },
                ],
            },
        }));
    }
    // constructors whose transient fields share a name (or a position) and a type, with different defaults
    {
        let tr = |n: &str, d: i128| Field { name: n.into(), ty: Ty::U32, transient: Some(Val::Int(d)), opt_spelling: 0 };
        specials.push(Arc::new(Decl {
            name: "SameTr".into(),
            body: DeclBody::Enum {
                sorted: false,
                steps: vec![],
                variants: vec![
                    Variant { name: "Queued".into(), shape: Shape::Struct, transient: false, record: Record { fields: vec![tr("attempts", 0), f("id", Ty::U8)], steps: vec![] } },
                    Variant { name: "Running".into(), shape: Shape::Struct, transient: false, record: Record { fields: vec![tr("attempts", 1), f("who", Ty::Str)], steps: vec![] } },
                    Variant { name: "Tup".into(), shape: Shape::Tuple, transient: false, record: Record { fields: vec![tr("field0", 7), f("field1", Ty::U8)], steps: vec![] } },
                    Variant { name: "Tup2".into(), shape: Shape::Tuple, transient: false, record: Record { fields: vec![tr("field0", 9), f("field1", Ty::U16)], steps: vec![] } },
                    Variant { name: "Done".into(), shape: Shape::Struct, transient: false, record: Record { fields: vec![f("id", Ty::U8), tr("attempts", 2)], steps: vec![Step::Added { name: "id".into(), default: Val::Int(0) }] } },
                ],
            },
        }));
    }
    // an enum with a single unit constructor: no size in memory, three bytes on the wire
    specials.push(Arc::new(Decl { name: "OneCtor".into(), body: DeclBody::Enum { sorted: false, steps: vec![], variants: vec![Variant { name: "Only".into(), shape: Shape::Unit, transient: false, record: Record { fields: vec![], steps: vec![] } }] } }));
    // only unit constructors, some of them transient (and one more than once)
    for (n, sorted) in [("AllUnitT", false), ("AllUnitTS", true)] {
        specials.push(Arc::new(Decl {
            name: n.into(),
            body: DeclBody::Enum {
                sorted,
                steps: vec![],
                variants: ["Red", "Blinking", "Green", "Amber", "Off"].iter().map(|v| Variant { name: v.to_string(), shape: Shape::Unit, transient: *v == "Blinking" || *v == "Amber", record: Record { fields: vec![], steps: vec![] } }).collect(),
            },
        }));
    }
    // more constructors than one var-int byte can number
    specials.push(Arc::new(Decl {
        name: "Wide".into(),
        body: DeclBody::Enum {
            sorted: false,
            steps: vec![],
            variants: (0..300)
                .map(|k| match k {
                    5 | 127 | 128 | 130 | 255 | 256 | 257 | 299 => Variant { name: format!("C{k}"), shape: Shape::Tuple, transient: false, record: Record { fields: vec![f("field0", Ty::U8)], steps: vec![] } },
                    129 => Variant { name: format!("C{k}"), shape: Shape::Struct, transient: false, record: Record { fields: vec![f("s", Ty::Str)], steps: vec![Step::Added { name: "s".into(), default: Val::str("") }] } },
                    _ => Variant { name: format!("C{k}"), shape: Shape::Unit, transient: false, record: Record { fields: vec![], steps: vec![] } },
                })
                .collect(),
        },
    }));
    // the same with evolution steps on the enum itself: the constructor index lives in chunk 0
    specials.push(Arc::new(Decl {
        name: "WideE".into(),
        body: DeclBody::Enum {
            sorted: false,
            steps: vec![Step::Removed { name: "legacy".into() }],
            variants: (0..300)
                .map(|k| match k {
                    3 | 127 | 128 | 129 | 255 | 256 | 299 => Variant { name: format!("D{k}"), shape: Shape::Tuple, transient: false, record: Record { fields: vec![f("field0", Ty::U8)], steps: vec![] } },
                    _ => Variant { name: format!("D{k}"), shape: Shape::Unit, transient: false, record: Record { fields: vec![], steps: vec![] } },
                })
                .collect(),
        },
    }));
    // positional transient fields in front of and between stored fields of the SAME type (a reader that fills them in
    // at another position still type-checks)
    {
        let tr = |n: &str, t: Ty, d: i128| Field { name: n.into(), ty: t, transient: Some(Val::Int(d)), opt_spelling: 0 };
        specials.push(Arc::new(Decl {
            name: "TrPos".into(),
            body: DeclBody::Enum {
                sorted: false,
                steps: vec![],
                variants: vec![
                    Variant { name: "Queued".into(), shape: Shape::Tuple, transient: false, record: Record { fields: vec![tr("field0", Ty::U32, 0), f("field1", Ty::U32)], steps: vec![] } },
                    Variant { name: "Failed".into(), shape: Shape::Tuple, transient: false, record: Record { fields: vec![f("field0", Ty::Str), tr("field1", Ty::U32, 3), f("field2", Ty::U32)], steps: vec![] } },
                    Variant {
                        name: "Mid".into(),
                        shape: Shape::Tuple,
                        transient: false,
                        record: Record { fields: vec![f("field0", Ty::U8), tr("field1", Ty::U8, 9), f("field2", Ty::U8), tr("field3", Ty::U8, 1), f("field4", Ty::U8)], steps: vec![] },
                    },
                    Variant { name: "Named".into(), shape: Shape::Struct, transient: false, record: Record { fields: vec![tr("t", Ty::U16, 4), f("a", Ty::U16), tr("u", Ty::U16, 5), f("b", Ty::U16)], steps: vec![] } },
                    // steps that name positional fields BEHIND a transient one (names are declared positions)
                    Variant {
                        name: "Evo".into(),
                        shape: Shape::Tuple,
                        transient: false,
                        record: Record {
                            fields: vec![f("field0", Ty::I32), tr("field1", Ty::U8, 0), Field { name: "field2".into(), ty: Ty::Option(a(Ty::Str)), transient: None, opt_spelling: 0 }, f("field3", Ty::I64)],
                            steps: vec![Step::MadeOptional { name: "field2".into() }, Step::Added { name: "field3".into(), default: Val::Int(7) }],
                        },
                    },
                ],
            },
        }));
    }
    // raw identifiers as field names (the name a step refers to is the identifier as written, `r#type`)
    specials.push(struct_decl(
        "RawId",
        &Record {
            fields: vec![f("plain", Ty::U16), f("r#type", Ty::U8), Field { name: "r#match".into(), ty: Ty::Option(a(Ty::Str)), transient: None, opt_spelling: 0 }],
            steps: vec![Step::Added { name: "r#type".into(), default: Val::Int(1) }, Step::MadeOptional { name: "r#match".into() }],
        },
    ));
    // a record produced by a macro_rules! template (render.rs): optional fields in all three spellings, one made
    // optional by a step, one added, one removed
    specials.push(struct_decl(
        "TplRec",
        &Record {
            fields: vec![
                f("k", Ty::U8),
                Field { name: "v".into(), ty: Ty::Option(a(Ty::U32)), transient: None, opt_spelling: 0 },
                Field { name: "w".into(), ty: Ty::Option(a(Ty::Str)), transient: None, opt_spelling: 1 },
                Field { name: "x".into(), ty: Ty::Option(a(Ty::U16)), transient: None, opt_spelling: 2 },
                f("s", Ty::Str),
            ],
            steps: vec![Step::MadeOptional { name: "v".into() }, Step::Added { name: "w".into(), default: Val::None }, Step::MadeOptional { name: "x".into() }, Step::Removed { name: "old".into() }],
        },
    ));
    // two pairs of declarations with the SAME identifier in different modules and different histories (vgen puts the
    // `..Other` one into a module of its own and aliases it)
    specials.push(struct_decl("Twin", &Record { fields: vec![f("id", Ty::U32), f("name", Ty::Str)], steps: vec![Step::Added { name: "name".into(), default: Val::str("anon") }] }));
    specials.push(struct_decl(
        "TwinOther",
        &Record { fields: vec![f("id", Ty::Option(a(Ty::U32))), f("tags", Ty::Vec(a(Ty::Str)))], steps: vec![Step::MadeOptional { name: "id".into() }, Step::Added { name: "tags".into(), default: Val::Seq(vec![]) }, Step::Removed { name: "name".into() }] },
    ));
    specials.push(Arc::new(Decl {
        name: "TwinE".into(),
        body: DeclBody::Enum {
            sorted: false,
            steps: vec![],
            variants: vec![
                Variant { name: "Circle".into(), shape: Shape::Struct, transient: false, record: Record { fields: vec![f("r", Ty::U8)], steps: vec![] } },
                Variant { name: "Dot".into(), shape: Shape::Unit, transient: false, record: Record { fields: vec![], steps: vec![] } },
            ],
        },
    }));
    specials.push(Arc::new(Decl {
        name: "TwinEOther".into(),
        body: DeclBody::Enum {
            sorted: false,
            steps: vec![],
            variants: vec![
                Variant { name: "Dot".into(), shape: Shape::Unit, transient: false, record: Record { fields: vec![], steps: vec![Step::Removed { name: "weight".into() }] } },
                Variant {
                    name: "Circle".into(),
                    shape: Shape::Struct,
                    transient: false,
                    record: Record { fields: vec![f("r", Ty::Option(a(Ty::U8))), f("label", Ty::Str)], steps: vec![Step::Added { name: "label".into(), default: Val::str("c") }, Step::MadeOptional { name: "r".into() }] },
                },
            ],
        },
    }));
    // ---- histories and families, interleaved so that later ones can nest earlier ones
    let mut histories = Vec::new();
    let mut dedup_histories = Vec::new();
    let mut families = Vec::new();
    let hs = history_spec_strategy(5, 6);
    let es = enum_spec_strategy();
    for i in 0..n_hist.max(n_fam) {
        if i < n_fam {
            let spec = draw(&es, &mut r);
            let mut menu = static_menu(true);
            menu.extend(nested.iter().cloned());
            let fam = build_enum_family(&format!("E{i}"), &spec, &menu);
            if i % 2 == 0 {
                nested.push(Ty::Adt(fam[0].clone()));
                nested.push(Ty::Vec(a(Ty::Adt(fam[2].clone()))));
            }
            families.push(fam);
        }
        if i < n_hist {
            let spec = draw(&hs, &mut r);
            let with_dedup = i % 4 == 1;
            let mut menu = static_menu(with_dedup);
            // nested declarations: they carry their own headers (possibly with removed names): keep them out of the
            // histories that are read across versions with DeduplicatedString in play
            menu.extend(nested.iter().cloned());
            let versions = build_history(&spec, &menu);
            let decls: Vec<Arc<Decl>> = versions.iter().enumerate().map(|(v, rec)| struct_decl(&format!("H{i}V{v}"), rec)).collect();
            if i % 3 == 0 {
                let last = decls.last().unwrap().clone();
                nested.push(Ty::Adt(last.clone()));
                nested.push(Ty::Option(a(Ty::Adt(last.clone()))));
                nested.push(Ty::Vec(a(Ty::Adt(last))));
            }
            histories.push(decls);
            dedup_histories.push(with_dedup);
        }
    }
    // names that are removed and added again later (the new field lives in the chunk of its own step; what the header
    // says about the removed one must not reach it): an optional one, a required one, and one that comes and goes twice
    {
        let opt_s = || Ty::Option(a(Ty::Str));
        let note = || f("note", opt_s());
        let v: Vec<Vec<Record>> = vec![
            vec![
                Record { fields: vec![f("id", Ty::U32), note()], steps: vec![] },
                Record { fields: vec![f("id", Ty::U32)], steps: vec![Step::Removed { name: "note".into() }] },
                Record { fields: vec![f("id", Ty::U32), note()], steps: vec![Step::Removed { name: "note".into() }, Step::Added { name: "note".into(), default: Val::None }] },
                Record {
                    fields: vec![f("id", Ty::U32), note(), f("extra", Ty::U8)],
                    steps: vec![Step::Removed { name: "note".into() }, Step::Added { name: "note".into(), default: Val::None }, Step::Added { name: "extra".into(), default: Val::Int(5) }],
                },
            ],
            vec![
                Record { fields: vec![f("id", Ty::U32), f("n", Ty::U32)], steps: vec![] },
                Record { fields: vec![f("id", Ty::U32)], steps: vec![Step::Removed { name: "n".into() }] },
                Record { fields: vec![f("n", Ty::U32), f("id", Ty::U32)], steps: vec![Step::Removed { name: "n".into() }, Step::Added { name: "n".into(), default: Val::Int(0) }] },
            ],
            vec![
                Record { fields: vec![f("k", Ty::Str)], steps: vec![] },
                Record { fields: vec![f("k", Ty::Str), f("x", Ty::U8)], steps: vec![Step::Added { name: "x".into(), default: Val::Int(1) }] },
                Record { fields: vec![f("k", Ty::Str)], steps: vec![Step::Added { name: "x".into(), default: Val::Int(1) }, Step::Removed { name: "x".into() }] },
                Record { fields: vec![f("x", Ty::U8), f("k", Ty::Str)], steps: vec![Step::Added { name: "x".into(), default: Val::Int(1) }, Step::Removed { name: "x".into() }, Step::Added { name: "x".into(), default: Val::Int(2) }] },
                Record {
                    fields: vec![f("k", Ty::Str)],
                    steps: vec![Step::Added { name: "x".into(), default: Val::Int(1) }, Step::Removed { name: "x".into() }, Step::Added { name: "x".into(), default: Val::Int(2) }, Step::Removed { name: "x".into() }],
                },
            ],
        ];
        for versions in v {
            let i = histories.len();
            histories.push(versions.iter().enumerate().map(|(v, rec)| struct_decl(&format!("H{i}V{v}"), rec)).collect());
            dedup_histories.push(false);
        }
    }
    // records with more fields in one chunk than a signed byte counts (version 0, and with a step so that the fields
    // go through chunk buffers)
    {
        let wide = |n: usize| -> Vec<Field> {
            (0..n)
                .map(|i| {
                    f(&format!("w{i}"), match i % 5 {
                        0 => Ty::U8,
                        1 => Ty::Option(a(Ty::U16)),
                        2 => Ty::Str,
                        3 => Ty::Bool,
                        _ => Ty::I64,
                    })
                })
                .collect()
        };
        specials.push(struct_decl("WideRec", &Record { fields: wide(130), steps: vec![] }));
        // linked lists of element types that are neither Eq nor Hash
        specials.push(struct_decl("FloatList", &Record { fields: vec![f("l", Ty::LinkedList(a(Ty::F64))), f("o", Ty::LinkedList(a(Ty::Option(a(Ty::F64)))))], steps: vec![] }));
        let mut fs = wide(200);
        fs.push(f("late", Ty::U8));
        specials.push(struct_decl("WideRecE", &Record { fields: fs, steps: vec![Step::Added { name: "late".into(), default: Val::Int(3) }] }));
    }
    // tuple-variant histories (no nested declarations, no DeduplicatedString: they are read across versions)
    let mut tuple_histories = Vec::new();
    for t in 0..(n_hist / 3).max(4) {
        let spec = draw(&hs, &mut r);
        let versions = build_history_positional(&spec, &static_menu(false));
        tuple_histories.push(versions.iter().enumerate().map(|(v, rec)| tuple_holder(&format!("T{t}V{v}"), rec)).collect());
    }
    // struct-variant histories S{s}V{v} = { Nil, Rec { .. } }: every step kind; a version without declared fields is a
    // unit variant that carries the evolution attribute (checked like the tuple-variant ones)
    for t in 0..(n_hist / 3).max(4) {
        let spec = draw(&hs, &mut r);
        let versions = build_history(&spec, &static_menu(false));
        tuple_histories.push(versions.iter().enumerate().map(|(v, rec)| variant_holder(&format!("S{t}V{v}"), rec, if rec.fields.is_empty() { Shape::Unit } else { Shape::Struct })).collect());
    }
    // variant histories that end without any field: the newest versions are unit variants whose attribute still tells
    // the story, older versions have the fields
    for t in 0..3u16 {
        let spec = draw(&hs, &mut r);
        let pickty = |k: usize| spec.init.get(k).map(|f| f.ty_sel).unwrap_or(t * 7 + k as u16);
        let fld = |k: usize| InitField { ty_sel: pickty(k), transient: false };
        // (sel 0 takes the first candidate: the last serialized field of chunk 0, else the oldest added field)
        let st = |kind: StepKind, k: u16| StepSpec { kind, sel: 0, ty_sel: pickty(k as usize + 1), pos_sel: 0 };
        let vanishing = match t {
            0 => HistorySpec { init: vec![fld(0)], steps: vec![st(StepKind::Remove, 0)], seed: spec.seed },
            1 => HistorySpec { init: vec![fld(0), fld(1)], steps: vec![st(StepKind::MakeOptional, 1), st(StepKind::Remove, 0), st(StepKind::Remove, 0)], seed: spec.seed },
            _ => HistorySpec { init: vec![fld(0)], steps: vec![st(StepKind::Add, 0), st(StepKind::Remove, 1), st(StepKind::MakeOptional, 0), st(StepKind::Remove, 0)], seed: spec.seed },
        };
        let versions = build_history(&vanishing, &static_menu(false));
        let n = tuple_histories.len();
        tuple_histories.push(versions.iter().enumerate().map(|(v, rec)| variant_holder(&format!("S{n}V{v}"), rec, if rec.fields.is_empty() { Shape::Unit } else { Shape::Struct })).collect());
    }
    // a tuple-variant history with a transient positional field in front: the names the steps use are declared
    // positions (field2, field3), whatever is transient before them
    {
        let tr = Field { name: "field1".into(), ty: Ty::U8, transient: Some(Val::Int(0)), opt_spelling: 0 };
        let v0 = Record { fields: vec![f("field0", Ty::I32), tr.clone(), f("field2", Ty::Str)], steps: vec![] };
        let s1 = Step::Added { name: "field3".into(), default: Val::Int(7) };
        let v1 = Record { fields: vec![f("field0", Ty::I32), tr.clone(), f("field2", Ty::Str), f("field3", Ty::I64)], steps: vec![s1.clone()] };
        let s2 = Step::MadeOptional { name: "field2".into() };
        let v2 = Record {
            fields: vec![f("field0", Ty::I32), tr.clone(), Field { name: "field2".into(), ty: Ty::Option(a(Ty::Str)), transient: None, opt_spelling: 0 }, f("field3", Ty::I64)],
            steps: vec![s1.clone(), s2.clone()],
        };
        let s3 = Step::Added { name: "field4".into(), default: Val::None };
        let v3 = Record {
            fields: vec![f("field0", Ty::I32), tr, Field { name: "field2".into(), ty: Ty::Option(a(Ty::Str)), transient: None, opt_spelling: 0 }, f("field3", Ty::I64), Field { name: "field4".into(), ty: Ty::Option(a(Ty::U16)), transient: None, opt_spelling: 0 }],
            steps: vec![s1, s2, s3],
        };
        let n = tuple_histories.len();
        tuple_histories.push([v0, v1, v2, v3].iter().enumerate().map(|(v, rec)| tuple_holder(&format!("T{n}V{v}"), rec)).collect());
    }
    Batch { histories, dedup_histories, families, tuple_histories, specials }
}

/// compiled declarations without any size in memory (their encodings are not empty): sequences of them are
/// instantiated at the real types by the harness (vcat::live), not at its element type
pub const ZST_DECLS: [&str; 3] = ["UnitU", "EmptyBraces", "OneCtor"];

pub const QUICK_BATCH: (u64, usize, usize) = (20260928, 36, 12);

/// The declaration of `TestModel1` from desert_macro/tests/golden.rs, transcribed into the model: the type of the
/// Scala-produced golden/dataset1.bin (anchor of the reference codec, DESIGN section 4).
pub fn golden_model() -> Ty {
    use Ty::*;
    let a = |t: Ty| std::sync::Arc::new(t);
    let f = |n: &str, t: Ty| Field::new(n, t);
    let plain = |fields: std::vec::Vec<Field>| Record { fields, steps: vec![] };
    let list_element1 = Adt(struct_decl("DynListElement1", &plain(vec![f("id", Str)])));
    // hand-written codec in golden.rs: 00, three Option<String>, var-u32 line number
    let stack_trace_element = Adt(struct_decl("DynStackTraceElement", &plain(vec![f("class_name", Option(a(Str))), f("method_name", Option(a(Str))), f("file_name", Option(a(Str))), f("line_number", VarU32)])));
    let throwable = Adt(struct_decl(
        "DynThrowable",
        &plain(vec![f("class_name", Str), f("message", Str), f("stack_trace", Vec(a(stack_trace_element))), f("cause", Option(a(Box(a(Rec("DynThrowable".into()))))))]),
    ));
    let list_element2 = Adt(std::sync::Arc::new(Decl {
        name: "DynListElement2".into(),
        body: DeclBody::Enum {
            sorted: true,
            steps: vec![],
            variants: vec![
                Variant { name: "First".into(), shape: Shape::Struct, transient: false, record: plain(vec![f("elem", list_element1.clone())]) },
                Variant {
                    name: "Second".into(),
                    shape: Shape::Struct,
                    transient: false,
                    record: Record {
                        fields: vec![f("uuid", Uuid), f("desc", Option(a(Str))), Field { name: "_cached".into(), ty: Option(a(Str)), transient: Some(Val::None), opt_spelling: 0 }],
                        steps: vec![Step::MadeTransient { name: "cached".into() }],
                    },
                },
                Variant { name: "Third".into(), shape: Shape::Struct, transient: true, record: plain(vec![f("_file", Str)]) },
            ],
        },
    }));
    Adt(struct_decl(
        "DynTestModel1",
        &Record {
            fields: vec![
                f("byte", I8),
                f("short", I16),
                f("int", I32),
                f("long", I64),
                f("float", F32),
                f("double", F64),
                f("boolean", Bool),
                f("unit", Unit),
                f("string", Str),
                f("uuid", Uuid),
                f("exception", throwable.clone()),
                f("list", Vec(a(list_element1.clone()))),
                f("array", Vec(a(I64))),
                f("vector", Vec(a(list_element1))),
                f("set", HashSet(a(Str))),
                f("either", Result(a(Bool), a(Str))),
                f("tried", Result(a(list_element2.clone()), a(throwable))),
                f("option", Option(a(HashMap(a(Str), a(list_element2))))),
            ],
            steps: vec![Step::MadeOptional { name: "option".into() }, Step::Added { name: "string".into(), default: Val::str("default string") }, Step::Added { name: "set".into(), default: Val::Seq(vec![]) }],
        },
    ))
}
