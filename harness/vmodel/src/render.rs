//! Rust source rendering of declarations, types and values (used by vgen; DESIGN §3.3).
use crate::ty::{Decl, DeclBody, Field, Record, Shape, Step, Ty};
use crate::val::Val;

pub fn rust_ty(t: &Ty) -> String {
    use Ty::*;
    match t {
        U8 => "u8".into(),
        I8 => "i8".into(),
        U16 => "u16".into(),
        I16 => "i16".into(),
        U32 => "u32".into(),
        I32 => "i32".into(),
        U64 => "u64".into(),
        I64 => "i64".into(),
        I128 => "i128".into(),
        F64 => "f64".into(),
        Bool => "bool".into(),
        Unit => "()".into(),
        Char => "char".into(),
        Str => "String".into(),
        Dedup => "DS".into(),
        Duration => "std::time::Duration".into(),
        Uuid => "uuid::Uuid".into(),
        BigInt => "bigdecimal::num_bigint::BigInt".into(),
        NaiveDate => "chrono::NaiveDate".into(),
        Option(a) => format!("Option<{}>", rust_ty(a)),
        Result(a, b) => format!("std::result::Result<{}, {}>", rust_ty(a), rust_ty(b)),
        Tuple(ts) => format!("({})", ts.iter().map(rust_ty).collect::<std::vec::Vec<_>>().join(", ")),
        Vec(a) => format!("Vec<{}>", rust_ty(a)),
        Array(a, n) => format!("[{}; {}]", rust_ty(a), n),
        HashSet(a) => format!("std::collections::HashSet<{}>", rust_ty(a)),
        LinkedList(a) => format!("std::collections::LinkedList<{}>", rust_ty(a)),
        BTreeMap(a, b) => format!("std::collections::BTreeMap<{}, {}>", rust_ty(a), rust_ty(b)),
        Box(a) => format!("Box<{}>", rust_ty(a)),
        Adt(d) => d.name.clone(),
        Rec(n) => n.clone(),
        other => panic!("rust_ty: {other:?} is not in the static vocabulary"),
    }
}

/// field type as written in the declaration: the Option spelling varies (the macro detects Option by name)
fn field_ty(f: &Field) -> String {
    match (&f.ty, f.opt_spelling) {
        (Ty::Option(a), 1) => format!("std::option::Option<{}>", rust_ty(a)),
        (Ty::Option(a), 2) => format!("core::option::Option<{}>", rust_ty(a)),
        (t, _) => rust_ty(t),
    }
}

pub fn rust_val(t: &Ty, v: &Val) -> String {
    use Ty::*;
    match (t, v) {
        (U8 | I8 | U16 | I16 | U32 | I32 | U64 | I64 | I128, Val::Int(i)) => format!("{}{}", i, rust_ty(t)),
        (F64, Val::F64(b)) => format!("f64::from_bits({b}u64)"),
        (Bool, Val::Bool(b)) => format!("{b}"),
        (Unit, _) => "()".into(),
        (Char, Val::Char(c)) => format!("char::from_u32({c}u32).unwrap()"),
        (Str, Val::Str(s)) => format!("{s:?}.to_string()"),
        (Dedup, Val::Str(s)) => format!("DS({s:?}.to_string())"),
        (Duration, Val::Duration(s, n)) => format!("std::time::Duration::new({s}u64, {n}u32)"),
        (Uuid, Val::Bytes(b)) => format!("uuid::Uuid::from_bytes([{}])", b.iter().map(|x| format!("{x}u8")).collect::<std::vec::Vec<_>>().join(", ")),
        (BigInt, Val::Bytes(b)) => format!("bigdecimal::num_bigint::BigInt::from_signed_bytes_be(&[{}])", b.iter().map(|x| format!("{x}u8")).collect::<std::vec::Vec<_>>().join(", ")),
        (NaiveDate, Val::Date(y, m, d)) => format!("chrono::NaiveDate::from_ymd_opt({y}, {m}, {d}).unwrap()"),
        (Option(a), Val::None) => format!("None::<{}>", rust_ty(a)),
        (Option(a), Val::Some(x)) => format!("Some({})", rust_val(a, x)),
        (Result(a, b), Val::Ok(x)) => format!("std::result::Result::<{}, {}>::Ok({})", rust_ty(a), rust_ty(b), rust_val(a, x)),
        (Result(a, b), Val::Err(x)) => format!("std::result::Result::<{}, {}>::Err({})", rust_ty(a), rust_ty(b), rust_val(b, x)),
        (Tuple(ts), Val::Tuple(xs)) => format!("({},)", ts.iter().zip(xs).map(|(t, x)| rust_val(t, x)).collect::<std::vec::Vec<_>>().join(", ")),
        (Vec(a), Val::Bytes(b)) if **a == U8 => format!("vec![{}]", b.iter().map(|x| format!("{x}u8")).collect::<std::vec::Vec<_>>().join(", ")),
        (Array(a, _), Val::Bytes(b)) if **a == U8 => format!("[{}]", b.iter().map(|x| format!("{x}u8")).collect::<std::vec::Vec<_>>().join(", ")),
        (Vec(a), Val::Seq(xs)) => format!("Vec::<{}>::from([{}])", rust_ty(a), xs.iter().map(|x| rust_val(a, x)).collect::<std::vec::Vec<_>>().join(", ")),
        (Array(a, _), Val::Seq(xs)) => format!("[{}]", xs.iter().map(|x| rust_val(a, x)).collect::<std::vec::Vec<_>>().join(", ")),
        (LinkedList(a), Val::Seq(xs)) => format!("std::collections::LinkedList::<{}>::from_iter([{}])", rust_ty(a), xs.iter().map(|x| rust_val(a, x)).collect::<std::vec::Vec<_>>().join(", ")),
        (HashSet(a), Val::Seq(xs)) => format!("std::collections::HashSet::<{}>::from_iter([{}])", rust_ty(a), xs.iter().map(|x| rust_val(a, x)).collect::<std::vec::Vec<_>>().join(", ")),
        (BTreeMap(k, w), Val::Map(ps)) => format!(
            "std::collections::BTreeMap::<{}, {}>::from_iter([{}])",
            rust_ty(k),
            rust_ty(w),
            ps.iter().map(|(a, b)| format!("({}, {})", rust_val(k, a), rust_val(w, b))).collect::<std::vec::Vec<_>>().join(", ")
        ),
        (Box(a), x) => format!("Box::new({})", rust_val(a, x)),
        (Adt(d), x) => decl_val(d, x),
        _ => panic!("rust_val: {} vs {}", t.render(), v.brief()),
    }
}

fn decl_val(d: &Decl, v: &Val) -> String {
    match (&d.body, v) {
        (DeclBody::Struct(r), Val::Rec(fs)) => {
            if r.fields.is_empty() {
                format!("{} {{}}", d.name)
            } else {
                format!("{} {{ {} }}", d.name, r.fields.iter().zip(fs).map(|(f, x)| format!("{}: {}", f.name, rust_val(&f.ty, x))).collect::<std::vec::Vec<_>>().join(", "))
            }
        }
        (DeclBody::Enum { variants, .. }, Val::Variant(i, fs)) => {
            let var = &variants[*i];
            match var.shape {
                Shape::Unit => format!("{}::{}", d.name, var.name),
                Shape::Tuple => format!("{}::{}({})", d.name, var.name, var.record.fields.iter().zip(fs).map(|(f, x)| rust_val(&f.ty, x)).collect::<std::vec::Vec<_>>().join(", ")),
                Shape::Struct => format!("{}::{} {{ {} }}", d.name, var.name, var.record.fields.iter().zip(fs).map(|(f, x)| format!("{}: {}", f.name, rust_val(&f.ty, x))).collect::<std::vec::Vec<_>>().join(", ")),
            }
        }
        _ => panic!("decl_val"),
    }
}

fn evolution_attr(r: &Record) -> String {
    if r.steps.is_empty() {
        return String::new();
    }
    let field_ty_of = |name: &str| r.fields.iter().find(|f| f.name == name).map(|f| f.ty.clone());
    let steps: std::vec::Vec<String> = r
        .steps
        .iter()
        .map(|s| match s {
            Step::Added { name, default } => {
                // the default is typed as the field is declared *now*; a field that has since been removed has no
                // declared type any more — its default expression is never evaluated, any expression will do
                match field_ty_of(name) {
                    Some(t) => format!("FieldAdded({name:?}, {})", rust_val(&t, default)),
                    None => format!("FieldAdded({name:?}, ())"),
                }
            }
            Step::MadeOptional { name } => format!("FieldMadeOptional({name:?})"),
            Step::Removed { name } => format!("FieldRemoved({name:?})"),
            Step::MadeTransient { name } => format!("FieldMadeTransient({name:?})"),
        })
        .collect();
    // a history may be spread over several attributes on the same item (one per release, say)
    let key = crate::fnv64(steps.join(",").as_bytes());
    if steps.len() >= 2 && key % 3 == 0 {
        let cut = 1 + (key / 3) as usize % (steps.len() - 1);
        format!("#[evolution({})]\n#[evolution({})]\n", steps[..cut].join(", "), steps[cut..].join(", "))
    } else {
        format!("#[evolution({})]\n", steps.join(", "))
    }
}

fn fields_src(r: &Record, named: bool, vis: &str) -> String {
    r.fields
        .iter()
        .map(|f| {
            // other attributes around #[transient(..)], as lint switches and documentation are in real code
            let tr = match &f.transient {
                Some(d) => {
                    let t = format!("#[transient({})] ", rust_val(&f.ty, d));
                    match crate::fnv64(f.name.as_bytes()) % 4 {
                        1 => format!("{t}#[allow(dead_code)] "),
                        2 => format!("{t}#[doc = \"kept in memory only\"] "),
                        3 => format!("#[doc = \"kept in memory only\"] {t}"),
                        _ => t,
                    }
                }
                None => String::new(),
            };
            if named {
                format!("    {tr}{vis}{}: {},\n", f.name, field_ty(f))
            } else {
                format!("{tr}{}", field_ty(f))
            }
        })
        .collect::<std::vec::Vec<_>>()
        .join(if named { "" } else { ", " })
}

/// Declarations whose name starts with "Tpl" are produced by a `macro_rules!` template that receives the field types
/// as `ty` fragments (such types reach the derive macro wrapped in an invisible group).
pub fn decl_src(d: &Decl) -> String {
    if let (true, DeclBody::Struct(r)) = (d.name.starts_with("Tpl"), &d.body) {
        let mut body = decl_src_plain(d);
        let mut params = std::vec::Vec::new();
        let mut args = std::vec::Vec::new();
        for (i, f) in r.fields.iter().enumerate() {
            let from = format!("pub {}: {},", f.name, field_ty(f));
            let to = format!("pub {}: $t{i},", f.name);
            assert!(body.contains(&from), "templated field not found: {from}");
            body = body.replacen(&from, &to, 1);
            params.push(format!("$t{i}:ty"));
            args.push(field_ty(f));
        }
        return format!("macro_rules! mk_{0} {{\n    ({1}) => {{\n{2}    }};\n}}\nmk_{0}!({3});\n", d.name.to_lowercase(), params.join(", "), body, args.join(", "));
    }
    decl_src_plain(d)
}

fn decl_src_plain(d: &Decl) -> String {
    let mut s = String::from("#[derive(Debug, Clone, PartialEq, desert::BinaryCodec)]\n");
    match &d.body {
        DeclBody::Struct(r) => {
            s.push_str(&evolution_attr(r));
            if r.fields.is_empty() && d.name.ends_with("U") {
                s.push_str(&format!("pub struct {};\n", d.name));
            } else {
                s.push_str(&format!("pub struct {} {{\n{}}}\n", d.name, fields_src(r, true, "pub ")));
            }
        }
        DeclBody::Enum { sorted, variants, steps } => {
            if *sorted {
                s.push_str("#[sorted_constructors]\n");
            }
            s.push_str(&evolution_attr(&Record { fields: vec![], steps: steps.clone() }));
            s.push_str(&format!("pub enum {} {{\n", d.name));
            for v in variants {
                if v.transient {
                    s.push_str("    #[transient]\n");
                }
                let ev = evolution_attr(&v.record);
                if !ev.is_empty() {
                    s.push_str(&format!("    {}", ev.trim_end().replace('\n', "\n    ")));
                    s.push('\n');
                }
                match v.shape {
                    // explicit discriminants, descending so that they disagree with every index order
                    Shape::Unit if d.name.starts_with("Disc") => {
                        let k = variants.iter().position(|x| x.name == v.name).unwrap();
                        if k % 2 == 0 {
                            s.push_str(&format!("    {} = {},\n", v.name, 10 * (variants.len() - k)))
                        } else {
                            s.push_str(&format!("    {},\n", v.name))
                        }
                    }
                    Shape::Unit => s.push_str(&format!("    {},\n", v.name)),
                    Shape::Tuple => s.push_str(&format!("    {}({}),\n", v.name, fields_src(&v.record, false, ""))),
                    Shape::Struct => s.push_str(&format!("    {} {{\n{}    }},\n", v.name, fields_src(&v.record, true, "").replace("\n    ", "\n        ").replacen("    ", "        ", 1))),
                }
            }
            s.push_str("}\n");
        }
    }
    s
}

pub fn conv_src(d: &Decl) -> String {
    let n = &d.name;
    let mut s = format!("impl Conv for {n} {{\n    fn from_val(v: &Val) -> Self {{\n");
    match &d.body {
        DeclBody::Struct(r) => {
            s.push_str("        let fs = v.as_seq();\n        let _ = fs;\n");
            s.push_str(&format!("        {n} {{ {} }}\n    }}\n", r.fields.iter().enumerate().map(|(i, f)| format!("{}: Conv::from_val(&fs[{i}])", f.name)).collect::<std::vec::Vec<_>>().join(", ")));
            s.push_str(&format!("    fn to_val(&self) -> Val {{\n        Val::Rec(vec![{}])\n    }}\n}}\n", r.fields.iter().map(|f| format!("self.{}.to_val()", f.name)).collect::<std::vec::Vec<_>>().join(", ")));
        }
        DeclBody::Enum { variants, .. } => {
            s.push_str("        let (i, fs) = match v { Val::Variant(i, fs) => (*i, fs), _ => panic!(\"enum value\") };\n        let _ = fs;\n        match i {\n");
            for (i, var) in variants.iter().enumerate() {
                let args = |named: bool| var.record.fields.iter().enumerate().map(|(k, f)| if named { format!("{}: Conv::from_val(&fs[{k}])", f.name) } else { format!("Conv::from_val(&fs[{k}])") }).collect::<std::vec::Vec<_>>().join(", ");
                match var.shape {
                    Shape::Unit => s.push_str(&format!("            {i} => {n}::{},\n", var.name)),
                    Shape::Tuple => s.push_str(&format!("            {i} => {n}::{}({}),\n", var.name, args(false))),
                    Shape::Struct => s.push_str(&format!("            {i} => {n}::{} {{ {} }},\n", var.name, args(true))),
                }
            }
            s.push_str("            _ => panic!(\"variant index\"),\n        }\n    }\n    fn to_val(&self) -> Val {\n        match self {\n");
            for (i, var) in variants.iter().enumerate() {
                let names: std::vec::Vec<String> = var.record.fields.iter().enumerate().map(|(k, f)| if var.shape == Shape::Tuple { format!("x{k}") } else { f.name.clone() }).collect();
                let vals = names.iter().map(|x| format!("{x}.to_val()")).collect::<std::vec::Vec<_>>().join(", ");
                match var.shape {
                    Shape::Unit => s.push_str(&format!("            {n}::{} => Val::Variant({i}, vec![]),\n", var.name)),
                    Shape::Tuple => s.push_str(&format!("            {n}::{}({}) => Val::Variant({i}, vec![{vals}]),\n", var.name, names.join(", "))),
                    Shape::Struct => s.push_str(&format!("            {n}::{} {{ {} }} => Val::Variant({i}, vec![{vals}]),\n", var.name, names.join(", "))),
                }
            }
            s.push_str("        }\n    }\n}\n");
        }
    }
    s.push_str(&format!("impl ConvElem for {n} {{}}\n"));
    s
}
