//! Evidence accumulation (DESIGN §2.4): every count is measured on the run that writes it.
use serde::{Deserialize, Serialize};
use serde_json::{json, Value};
use std::collections::{BTreeMap, HashSet};

#[derive(Clone, Debug, Serialize, Deserialize)]
pub struct Violation {
    pub what: String,
    pub replay: Value,
}

#[derive(Default)]
pub struct Acc {
    pub evaluations: u64,
    pub nontrivial: HashSet<u64>,
    /// non-trivial cases that are distinct by construction (complete enumerations), counted instead of hashed
    pub nontrivial_enumerated: u64,
    pub classes: BTreeMap<String, u64>,
    pub excluded: BTreeMap<String, u64>,
    samples: BTreeMap<String, Vec<Value>>,
    pub violations: Vec<Violation>,
    pub known: BTreeMap<String, u64>,
    pub extra: BTreeMap<String, u64>,
}

pub const SAMPLES_PER_CLASS: usize = 2;

impl Acc {
    pub fn new() -> Self {
        Self::default()
    }
    pub fn distinct_nontrivial(&self) -> u64 {
        self.nontrivial.len() as u64 + self.nontrivial_enumerated
    }
    /// one executed case. `hash` identifies the case; `nontrivial` per the property's stated rule.
    pub fn case(&mut self, class: &str, hash: u64, nontrivial: bool) {
        self.evaluations += 1;
        *self.classes.entry(class.to_string()).or_insert(0) += 1;
        if nontrivial {
            self.nontrivial.insert(hash);
        }
    }
    pub fn wants_sample(&self, class: &str) -> bool {
        self.samples.get(class).map(|v| v.len()).unwrap_or(0) < SAMPLES_PER_CLASS
    }
    pub fn sample(&mut self, class: &str, v: Value) {
        let e = self.samples.entry(class.to_string()).or_default();
        if e.len() < SAMPLES_PER_CLASS {
            e.push(well_formed_json(v));
        }
    }
    pub fn exclude(&mut self, why: &str) {
        *self.excluded.entry(why.to_string()).or_insert(0) += 1;
    }
    pub fn bump(&mut self, key: &str, n: u64) {
        *self.extra.entry(key.to_string()).or_insert(0) += n;
    }
    pub fn violation(&mut self, what: String, replay: Value) {
        // what a broken decoder returned may be a String that is not text: nothing of it may reach the report as such
        self.violations.push(Violation { what: well_formed(&what), replay: well_formed_json(replay) });
    }
    pub fn merge(&mut self, o: Acc) {
        self.evaluations += o.evaluations;
        self.nontrivial.extend(o.nontrivial);
        self.nontrivial_enumerated += o.nontrivial_enumerated;
        for (k, v) in o.classes {
            *self.classes.entry(k).or_insert(0) += v;
        }
        for (k, v) in o.excluded {
            *self.excluded.entry(k).or_insert(0) += v;
        }
        for (k, v) in o.known {
            *self.known.entry(k).or_insert(0) += v;
        }
        for (k, v) in o.extra {
            *self.extra.entry(k).or_insert(0) += v;
        }
        for (k, vs) in o.samples {
            let e = self.samples.entry(k).or_default();
            for v in vs {
                if e.len() < SAMPLES_PER_CLASS {
                    e.push(v);
                }
            }
        }
        self.violations.extend(o.violations);
    }
    pub fn samples_flat(&self, max: usize) -> Vec<Value> {
        let mut out = Vec::new();
        // round-robin over classes so every class is represented before any gets a second sample
        for round in 0..SAMPLES_PER_CLASS {
            for (k, vs) in &self.samples {
                if let Some(v) = vs.get(round) {
                    if out.len() < max {
                        out.push(json!({"class": k, "case": v}));
                    }
                }
            }
        }
        out
    }
}

pub struct EvidenceMeta<'a> {
    pub property_id: &'a str,
    pub tier: &'a str,
    pub seed: u64,
    pub level: &'a str,
    pub rule: &'a str,
    pub assumptions: Vec<String>,
    pub exhaustive: Option<bool>,
    pub wall_s: f64,
    pub extra: Value,
}

pub fn evidence_json(meta: &EvidenceMeta, acc: &Acc) -> Value {
    let mut coverage = json!({
        "evaluations": acc.evaluations,
        "distinct_nontrivial": acc.distinct_nontrivial(),
        "rule": meta.rule,
        "samples": acc.samples_flat(48),
        "classes": acc.classes,
        "excluded_by_construction": acc.excluded,
        "known_finding_hits": acc.known,
        "counters": acc.extra,
    });
    if let Some(e) = meta.exhaustive {
        coverage["exhaustive"] = json!(e);
    }
    if let Value::Object(m) = &meta.extra {
        for (k, v) in m {
            coverage[k] = v.clone();
        }
    }
    json!({
        "property_id": meta.property_id,
        "tier": meta.tier,
        "seed": meta.seed,
        "level": meta.level,
        "coverage": coverage,
        "assumptions": meta.assumptions,
        "wall_s": meta.wall_s,
        "violations": acc.violations.len(),
    })
}

/// a copy that is guaranteed to be UTF-8 (invalid sequences become U+FFFD)
pub fn well_formed(s: &str) -> String {
    String::from_utf8_lossy(s.as_bytes()).into_owned()
}

pub fn well_formed_json(v: Value) -> Value {
    match v {
        Value::String(s) => Value::String(well_formed(&s)),
        Value::Array(xs) => Value::Array(xs.into_iter().map(well_formed_json).collect()),
        Value::Object(m) => Value::Object(m.into_iter().map(|(k, x)| (well_formed(&k), well_formed_json(x))).collect()),
        other => other,
    }
}
