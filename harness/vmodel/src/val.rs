//! Dynamic values. A `Val` is wire-structural: it spells out what the format carries for a value,
//! independent of any Rust representation (floats by bit pattern, calendar types by fields).
use crate::ty::{DeclBody, Ty};
use serde::{Deserialize, Serialize};

#[derive(Clone, Debug, PartialEq, Eq, Hash, PartialOrd, Ord, Serialize, Deserialize)]
pub enum Val {
    /// every integer type except u128 (range of the type is respected by construction)
    Int(#[serde(with = "as_str")] i128),
    U128(#[serde(with = "as_str")] u128),
    F32(u32),
    F64(u64),
    Bool(bool),
    Unit,
    /// Unicode scalar value
    Char(u32),
    Str(String),
    /// Vec<u8>, [u8; N], Bytes, Uuid (16 bytes), BigInt (signed big-endian, minimal)
    Bytes(Vec<u8>),
    /// seconds, nanoseconds (< 1e9)
    Duration(u64, u32),
    None,
    Some(Box<Val>),
    Ok(Box<Val>),
    Err(Box<Val>),
    /// tuples, and the composite calendar types:
    /// NaiveDateTime = [Date, Time]; DtUtc = [Int secs, Int nanos]; DtLocal = [Date, Time] (local);
    /// DtFixed = [Date, Time (local), Offset]; DtTz = [Date, Time (UTC), Tz]
    Tuple(Vec<Val>),
    /// elements in order (for hash containers: in the order they are / were written)
    Seq(Vec<Val>),
    Map(Vec<(Val, Val)>),
    /// 1 = Monday .. 7 = Sunday
    Weekday(u8),
    /// 1 = January .. 12
    Month(u8),
    /// seconds east of UTC
    Offset(i32),
    Tz(String),
    Date(i32, u8, u8),
    /// h, m, s, nanos (nanos may reach 1_999_999_999 for a leap second)
    Time(u8, u8, u8, u32),
    /// all declared fields (including transient) in declaration order
    Rec(Vec<Val>),
    /// variant index in *declaration* order, fields of that variant
    Variant(usize, Vec<Val>),
}

impl Val {
    pub fn some(v: Val) -> Val {
        Val::Some(Box::new(v))
    }
    pub fn str(s: &str) -> Val {
        Val::Str(s.to_string())
    }
    pub fn as_int(&self) -> i128 {
        match self {
            Val::Int(i) => *i,
            other => panic!("not an int: {other:?}"),
        }
    }
    pub fn as_seq(&self) -> &Vec<Val> {
        match self {
            Val::Seq(v) | Val::Tuple(v) | Val::Rec(v) => v,
            other => panic!("not a seq: {other:?}"),
        }
    }
    /// short rendering for evidence samples
    pub fn brief(&self) -> String {
        let s = format!("{self:?}");
        if s.len() > 300 {
            let mut cut = 300;
            while !s.is_char_boundary(cut) {
                cut -= 1;
            }
            format!("{}…({} chars)", &s[..cut], s.len())
        } else {
            s
        }
    }
}

/// Canonical form for comparison: hash/ordered sets are sorted and de-duplicated, maps are sorted by key with the
/// *last* pair of a key winning (that is what collecting pairs into a map does), transparent wrappers ignored.
pub fn canon(ty: &Ty, v: &Val) -> Val {
    canon_in(ty, v, &mut Vec::new())
}

fn canon_in<'a>(ty: &'a Ty, v: &Val, stack: &mut Vec<&'a std::sync::Arc<crate::ty::Decl>>) -> Val {
    use Ty::*;
    match (ty, v) {
        (Option(t), Val::Some(x)) => Val::some(canon_in(t, x, stack)),
        (Result(t, _), Val::Ok(x)) => Val::Ok(std::boxed::Box::new(canon_in(t, x, stack))),
        (Result(_, e), Val::Err(x)) => Val::Err(std::boxed::Box::new(canon_in(e, x, stack))),
        (Tuple(ts), Val::Tuple(xs)) => Val::Tuple(ts.iter().zip(xs).map(|(t, x)| canon_in(t, x, stack)).collect()),
        (Vec(t) | Array(t, _) | LinkedList(t) | Slice(t) | RcSlice(t), Val::Seq(xs)) => Val::Seq(xs.iter().map(|x| canon_in(t, x, stack)).collect()),
        (HashSet(t) | BTreeSet(t), Val::Seq(xs)) => {
            let mut ys: std::vec::Vec<Val> = xs.iter().map(|x| canon_in(t, x, stack)).collect();
            ys.sort();
            ys.dedup();
            Val::Seq(ys)
        }
        (HashMap(k, w) | BTreeMap(k, w), Val::Map(ps)) => {
            let mut m = std::collections::BTreeMap::new();
            for (a, b) in ps {
                m.insert(canon_in(k, a, stack), canon_in(w, b, stack));
            }
            Val::Map(m.into_iter().collect())
        }
        // BigDecimal equality is numeric ("1.0" == "1.00"); the wire carries its Display rendering
        (BigDecimal, Val::Str(s)) => match s.parse::<bigdecimal::BigDecimal>() {
            // (normalized() computes scale - trailing zeros in plain i64: keep away from it at the far ends)
            Ok(b) if b.as_bigint_and_exponent().1.unsigned_abs() < (1 << 40) => Val::Str(b.normalized().to_string()),
            Ok(b) => Val::Str(b.to_string()),
            Err(_) => v.clone(),
        },
        (Box(t) | Rc(t) | Arc(t) | Ref(t), x) => canon_in(t, x, stack),
        (Adt(d), x) => {
            stack.push(d);
            let r = canon_decl(d, x, stack);
            stack.pop();
            r
        }
        (Rec(name), x) => {
            let d = *stack.iter().rev().find(|d| &d.name == name).expect("Rec target");
            stack.push(d);
            let r = canon_decl(d, x, stack);
            stack.pop();
            r
        }
        (_, x) => x.clone(),
    }
}

fn canon_decl<'a>(d: &'a std::sync::Arc<crate::ty::Decl>, x: &Val, stack: &mut Vec<&'a std::sync::Arc<crate::ty::Decl>>) -> Val {
    match (&d.body, x) {
        (DeclBody::Struct(r), Val::Rec(fs)) => Val::Rec(r.fields.iter().zip(fs).map(|(f, x)| canon_in(&f.ty, x, stack)).collect()),
        (DeclBody::Enum { variants, .. }, Val::Variant(i, fs)) => Val::Variant(*i, variants[*i].record.fields.iter().zip(fs).map(|(f, x)| canon_in(&f.ty, x, stack)).collect()),
        (_, x) => x.clone(),
    }
}

pub fn hex(b: &[u8]) -> String {
    let mut s = String::with_capacity(b.len() * 2);
    for x in b {
        s.push_str(&format!("{x:02x}"));
    }
    s
}

pub fn unhex(s: &str) -> Vec<u8> {
    let s: String = s.chars().filter(|c| !c.is_whitespace()).collect();
    (0..s.len() / 2).map(|i| u8::from_str_radix(&s[2 * i..2 * i + 2], 16).unwrap()).collect()
}

/// 128-bit integers travel as decimal strings (serde_json::Value cannot hold them)
mod as_str {
    use serde::{Deserialize, Deserializer, Serializer};
    pub fn serialize<T: std::fmt::Display, S: Serializer>(v: &T, s: S) -> Result<S::Ok, S::Error> {
        s.serialize_str(&v.to_string())
    }
    pub fn deserialize<'de, T: std::str::FromStr, D: Deserializer<'de>>(d: D) -> Result<T, D::Error> {
        let s = String::deserialize(d)?;
        s.parse().map_err(|_| serde::de::Error::custom("bad 128-bit integer"))
    }
}

/// what a round trip through the same definition must return: every transient field takes its declared default
pub fn with_transient_defaults(ty: &Ty, v: &Val) -> Val {
    wtd(ty, v, &mut Vec::new())
}

fn wtd<'a>(ty: &'a Ty, v: &Val, stack: &mut Vec<&'a std::sync::Arc<crate::ty::Decl>>) -> Val {
    use Ty::*;
    match (ty, v) {
        (Option(t), Val::Some(x)) => Val::some(wtd(t, x, stack)),
        (Result(t, _), Val::Ok(x)) => Val::Ok(std::boxed::Box::new(wtd(t, x, stack))),
        (Result(_, e), Val::Err(x)) => Val::Err(std::boxed::Box::new(wtd(e, x, stack))),
        (Tuple(ts), Val::Tuple(xs)) => Val::Tuple(ts.iter().zip(xs).map(|(t, x)| wtd(t, x, stack)).collect()),
        (Vec(t) | Array(t, _) | LinkedList(t) | Slice(t) | RcSlice(t) | HashSet(t) | BTreeSet(t), Val::Seq(xs)) => Val::Seq(xs.iter().map(|x| wtd(t, x, stack)).collect()),
        (HashMap(k, w) | BTreeMap(k, w), Val::Map(ps)) => Val::Map(ps.iter().map(|(a, b)| (wtd(k, a, stack), wtd(w, b, stack))).collect()),
        (Box(t) | Rc(t) | Arc(t) | Ref(t), x) => wtd(t, x, stack),
        (Adt(d), x) => {
            stack.push(d);
            let r = wtd_decl(d, x, stack);
            stack.pop();
            r
        }
        (Rec(name), x) => {
            let d = *stack.iter().rev().find(|d| &d.name == name).expect("Rec target");
            stack.push(d);
            let r = wtd_decl(d, x, stack);
            stack.pop();
            r
        }
        (_, x) => x.clone(),
    }
}

fn wtd_decl<'a>(d: &'a std::sync::Arc<crate::ty::Decl>, x: &Val, stack: &mut Vec<&'a std::sync::Arc<crate::ty::Decl>>) -> Val {
    let fields = |r: &'a crate::ty::Record, fs: &std::vec::Vec<Val>, stack: &mut Vec<&'a std::sync::Arc<crate::ty::Decl>>| -> std::vec::Vec<Val> {
        r.fields
            .iter()
            .zip(fs)
            .map(|(f, x)| match &f.transient {
                Some(d) => d.clone(),
                None => wtd(&f.ty, x, stack),
            })
            .collect()
    };
    match (&d.body, x) {
        (DeclBody::Struct(r), Val::Rec(fs)) => Val::Rec(fields(r, fs, stack)),
        (DeclBody::Enum { variants, .. }, Val::Variant(i, fs)) => Val::Variant(*i, fields(&variants[*i].record, fs, stack)),
        (_, x) => x.clone(),
    }
}

/// the same declaration under names no compiled declaration has, so that the run-time interpreter (E3) handles it
pub fn dynamized(ty: &Ty) -> Ty {
    use Ty::*;
    let a = |t: &Ty| std::sync::Arc::new(dynamized(t));
    match ty {
        Option(t) => Option(a(t)),
        Result(t, e) => Result(a(t), a(e)),
        Tuple(ts) => Tuple(ts.iter().map(dynamized).collect()),
        Vec(t) => Vec(a(t)),
        Array(t, n) => Array(a(t), *n),
        LinkedList(t) => LinkedList(a(t)),
        HashSet(t) => HashSet(a(t)),
        BTreeSet(t) => BTreeSet(a(t)),
        HashMap(k, v) => HashMap(a(k), a(v)),
        BTreeMap(k, v) => BTreeMap(a(k), a(v)),
        Box(t) => Box(a(t)),
        Rc(t) => Rc(a(t)),
        Arc(t) => Arc(a(t)),
        Rec(n) => Rec(format!("Dyn_{n}")),
        Adt(d) => {
            let rec = |r: &crate::ty::Record| crate::ty::Record { fields: r.fields.iter().map(|f| crate::ty::Field { ty: dynamized(&f.ty), ..f.clone() }).collect(), steps: r.steps.clone() };
            let body = match &d.body {
                DeclBody::Struct(r) => DeclBody::Struct(rec(r)),
                DeclBody::Enum { sorted, variants, steps } => DeclBody::Enum { sorted: *sorted, variants: variants.iter().map(|v| crate::ty::Variant { record: rec(&v.record), ..v.clone() }).collect(), steps: steps.clone() },
            };
            Adt(std::sync::Arc::new(crate::ty::Decl { name: format!("Dyn_{}", d.name), body }))
        }
        other => other.clone(),
    }
}
