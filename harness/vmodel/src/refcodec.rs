//! Independent reference model of the desert binary format (DESIGN §4). No dependency on desert.
//! Encoder produces bytes plus a site map (for structure-aware tampering); the decoder is strict
//! about framing and lenient exactly where DESIGN §4.5 says so.
use crate::ty::{Decl, DeclBody, Record, Shape, Step, Ty};
use crate::val::Val;
use serde::{Deserialize, Serialize};
use std::collections::HashMap;
use std::sync::Arc;

// ------------------------------------------------------------------------------------------------
// primitives

pub fn var_u32(mut v: u32, out: &mut Vec<u8>) {
    loop {
        let g = (v & 0x7f) as u8;
        v >>= 7;
        if v == 0 {
            out.push(g);
            return;
        }
        out.push(g | 0x80);
    }
}

pub fn zigzag(v: i32) -> u32 {
    // (v << 1) ^ (v >> 31), written with explicit wrapping arithmetic
    ((v as u32) << 1) ^ (if v < 0 { u32::MAX } else { 0 })
}

pub fn unzigzag(r: u32) -> i32 {
    if r & 1 == 0 {
        (r >> 1) as i32
    } else {
        !((r >> 1) as i32)
    }
}

pub fn var_i32(v: i32, out: &mut Vec<u8>) {
    var_u32(zigzag(v), out)
}

pub fn var_u32_bytes(v: u32) -> Vec<u8> {
    let mut o = Vec::new();
    var_u32(v, &mut o);
    o
}
pub fn var_i32_bytes(v: i32) -> Vec<u8> {
    let mut o = Vec::new();
    var_i32(v, &mut o);
    o
}

// ------------------------------------------------------------------------------------------------
// site map

#[derive(Clone, Copy, Debug, PartialEq, Eq, Hash, PartialOrd, Ord, Serialize, Deserialize)]
pub enum SiteKind {
    Version,
    ChunkSize,
    StepCode,
    Position,
    RemovedName,
    SeqCount,
    StrLen,
    BytesLen,
    Tag,
    ItemFlag,
    Terminator,
    CtorIdx,
    DedupRef,
    FixedInt,
    /// a var-int that is (part of) a leaf value: a FixedOffset's seconds, a year, nanoseconds, a VarU32
    LeafVarI,
    LeafVarU,
    /// a whole element / field / chunk (range), for splice, delete, duplicate
    Elem,
    Chunk,
    StrBody,
}

#[derive(Clone, Debug, PartialEq, Eq, Serialize, Deserialize)]
pub struct Site {
    pub kind: SiteKind,
    pub off: usize,
    pub len: usize,
    /// value stored at the site where it is an integer
    pub value: i64,
}

#[derive(Clone, Debug, Default)]
pub struct Frag {
    pub bytes: Vec<u8>,
    pub sites: Vec<Site>,
}

impl Frag {
    fn site(&mut self, kind: SiteKind, start: usize, value: i64) {
        let len = self.bytes.len() - start;
        self.sites.push(Site { kind, off: start, len, value });
    }
    fn append(&mut self, other: Frag) {
        let base = self.bytes.len();
        self.bytes.extend_from_slice(&other.bytes);
        for mut s in other.sites {
            s.off += base;
            self.sites.push(s);
        }
    }
    fn u8(&mut self, kind: SiteKind, b: u8) {
        let s = self.bytes.len();
        self.bytes.push(b);
        self.site(kind, s, b as i64);
    }
    fn vu32(&mut self, kind: SiteKind, v: u32) {
        let s = self.bytes.len();
        var_u32(v, &mut self.bytes);
        self.site(kind, s, v as i64);
    }
    fn vi32(&mut self, kind: SiteKind, v: i32) {
        let s = self.bytes.len();
        var_i32(v, &mut self.bytes);
        self.site(kind, s, v as i64);
    }
    fn fixed(&mut self, b: &[u8]) {
        let s = self.bytes.len();
        self.bytes.extend_from_slice(b);
        self.site(SiteKind::FixedInt, s, 0);
    }
}

#[derive(Clone, Debug, PartialEq, Eq, Serialize, Deserialize)]
pub enum EncErr {
    UnsupportedCharacter(u32),
    SerializingTransientConstructor { type_name: String, constructor_name: String },
    UnknownFieldReferenceInEvolutionStep(String),
    /// the (ty, val) pair is malformed — a harness bug, never a property violation
    Shape(String),
}

/// Form choices the reference encoder may take where the format allows several encodings of one value.
pub trait Forms {
    /// true: write this sequence in unknown-length form (-1, flagged items, terminator)
    fn unknown_len(&mut self) -> bool;
}
pub struct WriterForms;
impl Forms for WriterForms {
    fn unknown_len(&mut self) -> bool {
        false
    }
}
/// scripted choices (bits consumed in encounter order; exhausted => known-length)
pub struct ScriptForms {
    pub bits: Vec<bool>,
    pub pos: usize,
    pub used_unknown: usize,
}
impl ScriptForms {
    pub fn new(bits: Vec<bool>) -> Self {
        ScriptForms { bits, pos: 0, used_unknown: 0 }
    }
}
impl Forms for ScriptForms {
    fn unknown_len(&mut self) -> bool {
        let b = self.bits.get(self.pos).copied().unwrap_or(false);
        self.pos += 1;
        if b {
            self.used_unknown += 1;
        }
        b
    }
}

pub struct Enc<'f> {
    strings: HashMap<String, i32>,
    next_string: i32,
    forms: &'f mut dyn Forms,
    decls: Vec<Arc<Decl>>,
}

impl<'f> Enc<'f> {
    pub fn new(forms: &'f mut dyn Forms) -> Self {
        Enc { strings: HashMap::new(), next_string: 0, forms, decls: Vec::new() }
    }

    /// returns (id, is_new)
    fn intern(&mut self, s: &str) -> (i32, bool) {
        if let Some(id) = self.strings.get(s) {
            (*id, false)
        } else {
            self.next_string += 1;
            self.strings.insert(s.to_string(), self.next_string);
            (self.next_string, true)
        }
    }

    fn string(&mut self, s: &str, f: &mut Frag) {
        f.vi32(SiteKind::StrLen, s.len() as i32);
        let st = f.bytes.len();
        f.bytes.extend_from_slice(s.as_bytes());
        f.site(SiteKind::StrBody, st, 0);
    }

    fn dedup(&mut self, s: &str, f: &mut Frag) {
        let (id, new) = self.intern(s);
        if new {
            self.string(s, f)
        } else {
            f.vi32(SiteKind::DedupRef, -id)
        }
    }

    fn seq(&mut self, elem: &Ty, xs: &[Val], f: &mut Frag) -> Result<(), EncErr> {
        if self.forms.unknown_len() {
            f.vi32(SiteKind::SeqCount, -1);
            for x in xs {
                f.u8(SiteKind::ItemFlag, 1);
                let st = f.bytes.len();
                self.enc(elem, x, f)?;
                f.site(SiteKind::Elem, st, 0);
            }
            f.u8(SiteKind::Terminator, 0);
        } else {
            f.vi32(SiteKind::SeqCount, xs.len() as i32);
            for x in xs {
                let st = f.bytes.len();
                self.enc(elem, x, f)?;
                f.site(SiteKind::Elem, st, 0);
            }
        }
        Ok(())
    }

    fn bytes(&mut self, b: &[u8], f: &mut Frag) {
        f.vu32(SiteKind::BytesLen, b.len() as u32);
        let st = f.bytes.len();
        f.bytes.extend_from_slice(b);
        f.site(SiteKind::StrBody, st, 0);
    }

    pub fn enc(&mut self, ty: &Ty, v: &Val, f: &mut Frag) -> Result<(), EncErr> {
        use Ty::*;
        let shape = || EncErr::Shape(format!("{} vs {}", ty.render(), v.brief()));
        match (ty, v) {
            (U8, Val::Int(i)) => f.fixed(&[*i as u8]),
            (I8, Val::Int(i)) => f.fixed(&[*i as i8 as u8]),
            (U16, Val::Int(i)) => f.fixed(&(*i as u16).to_be_bytes()),
            (I16, Val::Int(i)) => f.fixed(&(*i as i16).to_be_bytes()),
            (U32, Val::Int(i)) => f.fixed(&(*i as u32).to_be_bytes()),
            (I32, Val::Int(i)) => f.fixed(&(*i as i32).to_be_bytes()),
            (U64, Val::Int(i)) => f.fixed(&(*i as u64).to_be_bytes()),
            (I64, Val::Int(i)) => f.fixed(&(*i as i64).to_be_bytes()),
            (I128, Val::Int(i)) => f.fixed(&i.to_be_bytes()),
            (U128, Val::U128(i)) => f.fixed(&i.to_be_bytes()),
            (F32, Val::F32(b)) => f.fixed(&b.to_be_bytes()),
            (F64, Val::F64(b)) => f.fixed(&b.to_be_bytes()),
            (Bool, Val::Bool(b)) => f.u8(SiteKind::Tag, *b as u8),
            (Unit, Val::Unit) | (Phantom, Val::Unit) => {}
            (Char, Val::Char(c)) => {
                if *c > 0xFFFF {
                    return Err(EncErr::UnsupportedCharacter(*c));
                }
                f.fixed(&(*c as u16).to_be_bytes())
            }
            (Str | StrRef | RcStr, Val::Str(s)) => self.string(s, f),
            (Dedup, Val::Str(s)) => self.dedup(s, f),
            (VarU32, Val::Int(i)) => f.vu32(SiteKind::LeafVarU, *i as u32),
            (Duration, Val::Duration(s, n)) => {
                f.fixed(&s.to_be_bytes());
                f.fixed(&n.to_be_bytes());
            }
            (Option(_), Val::None) => f.u8(SiteKind::Tag, 0),
            (Option(t), Val::Some(x)) => {
                f.u8(SiteKind::Tag, 1);
                self.enc(t, x, f)?
            }
            (Result(t, _), Val::Ok(x)) => {
                f.u8(SiteKind::Tag, 1);
                self.enc(t, x, f)?
            }
            (Result(_, e), Val::Err(x)) => {
                f.u8(SiteKind::Tag, 0);
                self.enc(e, x, f)?
            }
            (Tuple(ts), Val::Tuple(xs)) if ts.len() == xs.len() => {
                f.u8(SiteKind::Version, 0);
                for (t, x) in ts.iter().zip(xs) {
                    let st = f.bytes.len();
                    self.enc(t, x, f)?;
                    f.site(SiteKind::Elem, st, 0);
                }
            }
            (Vec(e) | Array(e, _) | Slice(e) | RcSlice(e), Val::Bytes(b)) if **e == U8 => self.bytes(b, f),
            (Bytes | Uuid | BigInt, Val::Bytes(b)) => {
                if *ty == Uuid {
                    f.fixed(b)
                } else {
                    self.bytes(b, f)
                }
            }
            (Vec(e) | Array(e, _) | Slice(e) | RcSlice(e) | LinkedList(e) | HashSet(e) | BTreeSet(e), Val::Seq(xs)) => self.seq(e, xs, f)?,
            (HashMap(k, w) | BTreeMap(k, w), Val::Map(ps)) => {
                let pair = Tuple(vec![(**k).clone(), (**w).clone()]);
                let xs: std::vec::Vec<Val> = ps.iter().map(|(a, b)| Val::Tuple(vec![a.clone(), b.clone()])).collect();
                self.seq(&pair, &xs, f)?
            }
            (Box(t) | Rc(t) | Arc(t) | Ref(t), x) => self.enc(t, x, f)?,
            (Weekday, Val::Weekday(d)) | (Month, Val::Month(d)) => f.fixed(&[*d]),
            (FixedOffset, Val::Offset(s)) => {
                f.u8(SiteKind::Tag, 0);
                f.vi32(SiteKind::LeafVarI, *s)
            }
            (Tz, Val::Tz(n)) => {
                f.u8(SiteKind::Tag, 1);
                self.string(n, f)
            }
            (NaiveDate, Val::Date(y, m, d)) => {
                f.vu32(SiteKind::LeafVarU, *y as u32);
                f.fixed(&[*m]);
                f.fixed(&[*d]);
            }
            (NaiveTime, Val::Time(h, m, s, n)) => {
                f.fixed(&[*h, *m, *s]);
                f.vu32(SiteKind::LeafVarU, *n);
            }
            (NaiveDateTime | DtLocal, Val::Tuple(xs)) if xs.len() == 2 => {
                self.enc(&NaiveDate, &xs[0], f)?;
                self.enc(&NaiveTime, &xs[1], f)?;
            }
            (DtUtc, Val::Tuple(xs)) if xs.len() == 2 => {
                f.fixed(&(xs[0].as_int() as i64).to_be_bytes());
                f.fixed(&(xs[1].as_int() as u32).to_be_bytes());
            }
            (DtFixed, Val::Tuple(xs)) if xs.len() == 3 => {
                self.enc(&NaiveDate, &xs[0], f)?;
                self.enc(&NaiveTime, &xs[1], f)?;
                self.enc(&FixedOffset, &xs[2], f)?;
            }
            (DtTz, Val::Tuple(xs)) if xs.len() == 3 => {
                self.enc(&NaiveDate, &xs[0], f)?;
                self.enc(&NaiveTime, &xs[1], f)?;
                self.enc(&Tz, &xs[2], f)?;
            }
            (BigDecimal, Val::Str(s)) => self.string(s, f),
            (Adt(d), x) => {
                self.decls.push(d.clone());
                let r = self.enc_decl(&d.clone(), x, f);
                self.decls.pop();
                r?
            }
            (Rec(name), x) => {
                let d = self.decls.iter().rev().find(|d| &d.name == name).cloned().ok_or_else(shape)?;
                self.decls.push(d.clone());
                let r = self.enc_decl(&d, x, f);
                self.decls.pop();
                r?
            }
            _ => return Err(shape()),
        }
        Ok(())
    }

    fn enc_decl(&mut self, d: &Arc<Decl>, v: &Val, f: &mut Frag) -> Result<(), EncErr> {
        match (&d.body, v) {
            (DeclBody::Struct(r), Val::Rec(fs)) => self.enc_record(r, fs, f),
            (DeclBody::Enum { variants, steps, .. }, Val::Variant(i, fs)) if !steps.is_empty() => {
                // the enum carries evolution steps of its own: version byte, header, and the constructor index with
                // the case's record as the content of chunk 0 (every other chunk is empty: an enum has no fields)
                let var = variants.get(*i).ok_or_else(|| EncErr::Shape("variant index".into()))?;
                f.u8(SiteKind::Version, steps.len() as u8);
                if var.transient {
                    return Err(EncErr::SerializingTransientConstructor { type_name: d.name.clone(), constructor_name: var.name.clone() });
                }
                let removed_set: std::vec::Vec<&str> = steps
                    .iter()
                    .filter_map(|s| match s {
                        Step::Removed { name } | Step::MadeTransient { name } => Some(name.as_str()),
                        _ => None,
                    })
                    .collect();
                enum H {
                    Chunk0,
                    Empty,
                    Removed(i32, bool, String),
                }
                let mut header = vec![H::Chunk0];
                for s in steps {
                    match s {
                        Step::Added { .. } => header.push(H::Empty),
                        Step::MadeOptional { name } if !removed_set.contains(&name.as_str()) => return Err(EncErr::UnknownFieldReferenceInEvolutionStep(name.clone())),
                        Step::MadeOptional { name } | Step::Removed { name } | Step::MadeTransient { name } => {
                            let (id, new) = self.intern(name);
                            header.push(H::Removed(id, new, name.clone()));
                        }
                    }
                }
                let mut chunk = Frag::default();
                chunk.vu32(SiteKind::CtorIdx, d.ctor_index(*i) as u32);
                self.enc_record(&var.record, fs, &mut chunk)?;
                for h in header {
                    match h {
                        H::Chunk0 => f.vi32(SiteKind::ChunkSize, chunk.bytes.len() as i32),
                        H::Empty => f.vi32(SiteKind::ChunkSize, 0),
                        H::Removed(id, new, name) => {
                            f.vi32(SiteKind::StepCode, -2);
                            let st = f.bytes.len();
                            if new {
                                self.string(&name, f)
                            } else {
                                f.vi32(SiteKind::DedupRef, -id)
                            }
                            f.site(SiteKind::RemovedName, st, 0);
                        }
                    }
                }
                let st = f.bytes.len();
                f.append(chunk);
                f.site(SiteKind::Chunk, st, 0);
                Ok(())
            }
            (DeclBody::Enum { variants, .. }, Val::Variant(i, fs)) => {
                let var = variants.get(*i).ok_or_else(|| EncErr::Shape("variant index".into()))?;
                // the enum's own record: version 0, no header
                f.u8(SiteKind::Version, 0);
                if var.transient {
                    return Err(EncErr::SerializingTransientConstructor { type_name: d.name.clone(), constructor_name: var.name.clone() });
                }
                f.vu32(SiteKind::CtorIdx, d.ctor_index(*i) as u32);
                self.enc_record(&var.record, fs, f)
            }
            _ => Err(EncErr::Shape(format!("decl {} vs {}", d.name, v.brief()))),
        }
    }

    /// DESIGN §4.3
    pub fn enc_record(&mut self, r: &Record, fs: &[Val], f: &mut Frag) -> Result<(), EncErr> {
        if fs.len() != r.fields.len() {
            return Err(EncErr::Shape("record arity".into()));
        }
        let n = r.steps.len();
        f.u8(SiteKind::Version, n as u8);
        if n == 0 {
            for (i, fld) in r.serialized_fields() {
                let st = f.bytes.len();
                self.enc(&fld.ty, &fs[i], f)?;
                f.site(SiteKind::Elem, st, 0);
            }
            return Ok(());
        }
        // which names does the header carry as removed entries, in step order
        let written = |name: &str| r.fields.iter().any(|fl| fl.name == name && fl.transient.is_none());
        let removed_set: std::vec::Vec<&str> = r
            .steps
            .iter()
            .filter_map(|s| match s {
                Step::Removed { name } | Step::MadeTransient { name } => Some(name.as_str()),
                _ => None,
            })
            .collect();
        enum H {
            Size(usize),
            Opt(u8),
            Removed(i32, bool, String),
        }
        let mut header: std::vec::Vec<H> = vec![H::Size(0)];
        // positions among fields written to chunk 0
        let pos_in_chunk0 = |name: &str| -> usize { r.serialized_fields().filter(|(_, fl)| r.chunk_of(&fl.name) == 0).position(|(_, fl)| fl.name == name).unwrap() };
        for (si, s) in r.steps.iter().enumerate() {
            match s {
                Step::Added { .. } => header.push(H::Size(si + 1)),
                Step::MadeOptional { name } => {
                    if written(name) {
                        let c = r.chunk_of(name);
                        let b = if c == 0 { (-(pos_in_chunk0(name) as i8)) as u8 } else { c as u8 };
                        header.push(H::Opt(b));
                    } else if removed_set.contains(&name.as_str()) {
                        let (id, new) = self.intern(name);
                        header.push(H::Removed(id, new, name.clone()));
                    } else {
                        return Err(EncErr::UnknownFieldReferenceInEvolutionStep(name.clone()));
                    }
                }
                Step::Removed { name } | Step::MadeTransient { name } => {
                    let (id, new) = self.intern(name);
                    header.push(H::Removed(id, new, name.clone()));
                }
            }
        }
        // fields, in declaration order, each into the chunk of the step that added it
        let mut chunks: std::vec::Vec<Frag> = (0..=n).map(|_| Frag::default()).collect();
        for (i, fld) in r.serialized_fields() {
            let c = r.chunk_of(&fld.name);
            let st = chunks[c].bytes.len();
            let mut tmp = std::mem::take(&mut chunks[c]);
            let res = self.enc(&fld.ty, &fs[i], &mut tmp);
            tmp.site(SiteKind::Elem, st, 0);
            chunks[c] = tmp;
            res?;
        }
        for h in header {
            match h {
                H::Size(c) => f.vi32(SiteKind::ChunkSize, chunks[c].bytes.len() as i32),
                H::Opt(b) => {
                    f.vi32(SiteKind::StepCode, -1);
                    f.u8(SiteKind::Position, b);
                }
                H::Removed(id, new, name) => {
                    f.vi32(SiteKind::StepCode, -2);
                    let st = f.bytes.len();
                    if new {
                        self.string(&name, f)
                    } else {
                        f.vi32(SiteKind::DedupRef, -id)
                    }
                    f.site(SiteKind::RemovedName, st, 0);
                }
            }
        }
        for c in chunks {
            let st = f.bytes.len();
            f.append(c);
            f.site(SiteKind::Chunk, st, 0);
        }
        Ok(())
    }
}

/// the writer's form: what `desert::serialize*` must produce
pub fn ref_encode(ty: &Ty, v: &Val) -> Result<Frag, EncErr> {
    let mut forms = WriterForms;
    let mut e = Enc::new(&mut forms);
    let mut f = Frag::default();
    e.enc(ty, v, &mut f)?;
    Ok(f)
}

pub fn ref_encode_forms(ty: &Ty, v: &Val, forms: &mut dyn Forms) -> Result<Frag, EncErr> {
    let mut e = Enc::new(forms);
    let mut f = Frag::default();
    e.enc(ty, v, &mut f)?;
    Ok(f)
}

// ------------------------------------------------------------------------------------------------
// decoder

#[derive(Clone, Debug, PartialEq, Eq, Serialize, Deserialize)]
pub enum DecErr {
    /// a read, length, chunk size or skip would cross the end of its window
    Overrun,
    BadTag(u8),
    BadChar(u16),
    BadUtf8,
    NegativeLength(i64),
    BadStepCode(i64),
    BadCount(i64),
    WrongArrayLen { expected: usize, got: usize },
    BadStringId(i64),
    BadValue(String),
    FieldRemoved(String),
    FieldMissingNoDefault(String),
    NonOptionalNone(String),
    BadCtor(u32),
    TransientCtor(String),
    /// excluded from the quantifier (known finding F12): zero-width elements with a huge count
    ZeroWidthFlood(i64),
    /// recursion deeper than the model follows
    TooDeep,
    Shape(String),
}

pub const ZERO_WIDTH_LIMIT: i64 = 256;

pub struct Dec<'a> {
    data: &'a [u8],
    pos: usize,
    end: usize,
    strings: Vec<String>,
    decls: Vec<Arc<Decl>>,
    depth: usize,
    pub max_depth: usize,
    /// (offset of the back-reference, Some(string it resolved to) | None for an id the table lacks)
    pub backrefs: Vec<(usize, Option<String>)>,
}

type DR<T> = Result<T, DecErr>;

impl<'a> Dec<'a> {
    pub fn new(data: &'a [u8]) -> Self {
        Dec { data, pos: 0, end: data.len(), strings: Vec::new(), decls: Vec::new(), depth: 0, max_depth: 3000, backrefs: Vec::new() }
    }
    pub fn pos(&self) -> usize {
        self.pos
    }
    fn take(&mut self, n: usize) -> DR<&'a [u8]> {
        if n > self.end - self.pos {
            return Err(DecErr::Overrun);
        }
        let s = &self.data[self.pos..self.pos + n];
        self.pos += n;
        Ok(s)
    }
    fn u8(&mut self) -> DR<u8> {
        Ok(self.take(1)?[0])
    }
    fn vu32(&mut self) -> DR<u32> {
        let mut r: u32 = 0;
        for i in 0..5 {
            let b = self.u8()?;
            r |= ((b & 0x7f) as u32).wrapping_shl(7 * i) & if i == 4 { 0xF000_0000 } else { u32::MAX };
            if i < 4 && b & 0x80 == 0 {
                return Ok(r);
            }
        }
        Ok(r)
    }
    fn vi32(&mut self) -> DR<i32> {
        Ok(unzigzag(self.vu32()?))
    }
    fn intern(&mut self, s: &str) {
        if !self.strings.iter().any(|x| x == s) {
            self.strings.push(s.to_string());
        }
    }
    fn string_body(&mut self, len: i32) -> DR<String> {
        if len < 0 {
            return Err(DecErr::NegativeLength(len as i64));
        }
        let b = self.take(len as usize)?;
        String::from_utf8(b.to_vec()).map_err(|_| DecErr::BadUtf8)
    }
    fn string(&mut self) -> DR<String> {
        let len = self.vi32()?;
        self.string_body(len)
    }
    fn dedup(&mut self) -> DR<String> {
        let at = self.pos;
        let n = self.vi32()?;
        if n < 0 {
            let id = -(n as i64);
            if id >= 1 && (id as usize) <= self.strings.len() {
                self.backrefs.push((at, Some(self.strings[id as usize - 1].clone())));
                Ok(self.strings[id as usize - 1].clone())
            } else {
                self.backrefs.push((at, None));
                Err(DecErr::BadStringId(id))
            }
        } else {
            let s = self.string_body(n)?;
            self.intern(&s);
            Ok(s)
        }
    }
    fn byte_array(&mut self) -> DR<Vec<u8>> {
        let n = self.vu32()?;
        Ok(self.take(n as usize)?.to_vec())
    }

    fn seq(&mut self, elem: &Ty) -> DR<Vec<Val>> {
        let n = self.vi32()?;
        let mut out = Vec::new();
        if n == -1 {
            loop {
                match self.u8()? {
                    0 => break,
                    1 => out.push(self.dec(elem)?),
                    t => return Err(DecErr::BadTag(t)),
                }
                if elem.zero_width() && out.len() as i64 > ZERO_WIDTH_LIMIT {
                    return Err(DecErr::ZeroWidthFlood(out.len() as i64));
                }
            }
        } else if n < 0 {
            return Err(DecErr::BadCount(n as i64));
        } else {
            if elem.zero_width() && n as i64 > ZERO_WIDTH_LIMIT {
                return Err(DecErr::ZeroWidthFlood(n as i64));
            }
            for _ in 0..n {
                out.push(self.dec(elem)?);
            }
        }
        Ok(out)
    }

    pub fn dec(&mut self, ty: &Ty) -> DR<Val> {
        self.depth += 1;
        if self.depth > self.max_depth {
            return Err(DecErr::TooDeep);
        }
        let r = self.dec_inner(ty);
        self.depth -= 1;
        r
    }

    fn be<const N: usize>(&mut self) -> DR<[u8; N]> {
        let s = self.take(N)?;
        let mut a = [0u8; N];
        a.copy_from_slice(s);
        Ok(a)
    }

    fn dec_inner(&mut self, ty: &Ty) -> DR<Val> {
        use Ty::*;
        Ok(match ty {
            U8 => Val::Int(self.u8()? as i128),
            I8 => Val::Int(self.u8()? as i8 as i128),
            U16 => Val::Int(u16::from_be_bytes(self.be()?) as i128),
            I16 => Val::Int(i16::from_be_bytes(self.be()?) as i128),
            U32 => Val::Int(u32::from_be_bytes(self.be()?) as i128),
            I32 => Val::Int(i32::from_be_bytes(self.be()?) as i128),
            U64 => Val::Int(u64::from_be_bytes(self.be()?) as i128),
            I64 => Val::Int(i64::from_be_bytes(self.be()?) as i128),
            I128 => Val::Int(i128::from_be_bytes(self.be()?)),
            U128 => Val::U128(u128::from_be_bytes(self.be()?)),
            F32 => Val::F32(u32::from_be_bytes(self.be()?)),
            F64 => Val::F64(u64::from_be_bytes(self.be()?)),
            Bool => Val::Bool(self.u8()? != 0),
            Unit | Phantom => Val::Unit,
            Char => {
                let u = u16::from_be_bytes(self.be()?);
                if (0xD800..0xE000).contains(&u) {
                    return Err(DecErr::BadChar(u));
                }
                Val::Char(u as u32)
            }
            Str => Val::Str(self.string()?),
            Dedup => Val::Str(self.dedup()?),
            VarU32 => Val::Int(self.vu32()? as i128),
            Duration => {
                let s = u64::from_be_bytes(self.be()?);
                let n = u32::from_be_bytes(self.be()?);
                let s2 = s.checked_add((n / 1_000_000_000) as u64).ok_or_else(|| DecErr::BadValue("duration overflow".into()))?;
                Val::Duration(s2, n % 1_000_000_000)
            }
            Option(t) => match self.u8()? {
                0 => Val::None,
                1 => Val::some(self.dec(t)?),
                x => return Err(DecErr::BadTag(x)),
            },
            Result(t, e) => match self.u8()? {
                0 => Val::Err(std::boxed::Box::new(self.dec(e)?)),
                1 => Val::Ok(std::boxed::Box::new(self.dec(t)?)),
                x => return Err(DecErr::BadTag(x)),
            },
            Tuple(ts) => {
                let names: std::vec::Vec<String> = (0..ts.len()).map(|i| format!("_{i}")).collect();
                let fields: std::vec::Vec<RField> = ts.iter().zip(&names).map(|(t, n)| RField { name: n, ty: t, chunk: 0, declared_opt: false, opt_since: 0, default: None, transient: None }).collect();
                Val::Tuple(self.read_record(0, &fields)?)
            }
            Vec(e) if **e == U8 => Val::Bytes(self.byte_array()?),
            Array(e, n) if **e == U8 => {
                let b = self.byte_array()?;
                if b.len() != *n {
                    return Err(DecErr::WrongArrayLen { expected: *n, got: b.len() });
                }
                Val::Bytes(b)
            }
            Bytes => Val::Bytes(self.byte_array()?),
            BigInt => Val::Bytes(normalize_signed_be(&self.byte_array()?)),
            Uuid => Val::Bytes(self.take(16)?.to_vec()),
            Vec(e) | LinkedList(e) | HashSet(e) | BTreeSet(e) => Val::Seq(self.seq(e)?),
            Array(e, n) => {
                let xs = self.seq(e)?;
                if xs.len() != *n {
                    return Err(DecErr::WrongArrayLen { expected: *n, got: xs.len() });
                }
                Val::Seq(xs)
            }
            HashMap(k, w) | BTreeMap(k, w) => {
                let pair = Tuple(vec![(**k).clone(), (**w).clone()]);
                let xs = self.seq(&pair)?;
                Val::Map(
                    xs.into_iter()
                        .map(|p| match p {
                            Val::Tuple(mut kv) => {
                                let b = kv.pop().unwrap();
                                let a = kv.pop().unwrap();
                                (a, b)
                            }
                            _ => unreachable!(),
                        })
                        .collect(),
                )
            }
            Box(t) | Rc(t) | Arc(t) => self.dec(t)?,
            Weekday => {
                let b = self.u8()?;
                if (1..=7).contains(&b) {
                    Val::Weekday(b)
                } else {
                    return Err(DecErr::BadValue(format!("weekday {b}")));
                }
            }
            Month => {
                let b = self.u8()?;
                if (1..=12).contains(&b) {
                    Val::Month(b)
                } else {
                    return Err(DecErr::BadValue(format!("month {b}")));
                }
            }
            FixedOffset => {
                let t = self.u8()?;
                if t != 0 {
                    return Err(DecErr::BadTag(t));
                }
                let s = self.vi32()?;
                if chrono::FixedOffset::east_opt(s).is_none() {
                    return Err(DecErr::BadValue(format!("offset {s}")));
                }
                Val::Offset(s)
            }
            Tz => {
                let t = self.u8()?;
                if t != 1 {
                    return Err(DecErr::BadTag(t));
                }
                let name = self.string()?;
                let tz: chrono_tz::Tz = name.parse().map_err(|_| DecErr::BadValue(format!("tz {name}")))?;
                Val::Tz(tz.name().to_string())
            }
            NaiveDate => {
                let y = self.vu32()? as i32;
                let m = self.u8()?;
                let d = self.u8()?;
                if chrono::NaiveDate::from_ymd_opt(y, m as u32, d as u32).is_none() {
                    return Err(DecErr::BadValue(format!("date {y}-{m}-{d}")));
                }
                Val::Date(y, m, d)
            }
            NaiveTime => {
                let h = self.u8()?;
                let m = self.u8()?;
                let s = self.u8()?;
                let n = self.vu32()?;
                if chrono::NaiveTime::from_hms_nano_opt(h as u32, m as u32, s as u32, n).is_none() {
                    return Err(DecErr::BadValue(format!("time {h}:{m}:{s}.{n}")));
                }
                Val::Time(h, m, s, n)
            }
            NaiveDateTime => Val::Tuple(vec![self.dec(&NaiveDate)?, self.dec(&NaiveTime)?]),
            DtLocal => {
                // TZ=UTC is pinned by ./check: every representable local time is unambiguous
                let d = self.dec(&NaiveDate)?;
                let t = self.dec(&NaiveTime)?;
                let ndt = to_ndt(&d, &t);
                use chrono::TimeZone;
                if chrono::Utc.from_local_datetime(&ndt).single().is_none() {
                    return Err(DecErr::BadValue("local datetime".into()));
                }
                Val::Tuple(vec![d, t])
            }
            DtUtc => {
                let s = i64::from_be_bytes(self.be()?);
                let n = u32::from_be_bytes(self.be()?);
                if chrono::DateTime::<chrono::Utc>::from_timestamp(s, n).is_none() {
                    return Err(DecErr::BadValue(format!("timestamp {s} {n}")));
                }
                Val::Tuple(vec![Val::Int(s as i128), Val::Int(n as i128)])
            }
            DtFixed => {
                let d = self.dec(&NaiveDate)?;
                let t = self.dec(&NaiveTime)?;
                let o = self.dec(&FixedOffset)?;
                let off = match &o {
                    Val::Offset(s) => chrono::FixedOffset::east_opt(*s).unwrap(),
                    _ => unreachable!(),
                };
                use chrono::TimeZone;
                if off.from_local_datetime(&to_ndt(&d, &t)).single().is_none() {
                    return Err(DecErr::BadValue("fixed-offset datetime out of range".into()));
                }
                Val::Tuple(vec![d, t, o])
            }
            DtTz => {
                let d = self.dec(&NaiveDate)?;
                let t = self.dec(&NaiveTime)?;
                let z = self.dec(&Tz)?;
                Val::Tuple(vec![d, t, z])
            }
            BigDecimal => {
                let s = self.string()?;
                let bd: bigdecimal::BigDecimal = s.parse().map_err(|_| DecErr::BadValue(format!("bigdecimal {s}")))?;
                Val::Str(bd.to_string())
            }
            Adt(d) => {
                self.decls.push(d.clone());
                let r = self.dec_decl(&d.clone());
                self.decls.pop();
                r?
            }
            Rec(name) => {
                let d = self.decls.iter().rev().find(|d| &d.name == name).cloned().ok_or_else(|| DecErr::Shape("rec".into()))?;
                self.decls.push(d.clone());
                let r = self.dec_decl(&d);
                self.decls.pop();
                r?
            }
            Slice(_) | StrRef | Ref(_) | RcStr | RcSlice(_) => return Err(DecErr::Shape("serialize-only type".into())),
        })
    }

    fn dec_decl(&mut self, d: &Arc<Decl>) -> DR<Val> {
        match &d.body {
            DeclBody::Struct(r) => {
                let fields = rfields(r, Shape::Struct);
                Ok(Val::Rec(self.read_record(r.steps.len(), &fields)?))
            }
            DeclBody::Enum { variants, .. } => {
                // the enum's own record: declared version 0, the constructor index and the body live in "chunk 0"
                let w = self.u8()?;
                let outer = if w == 0 { None } else { Some(self.read_header(w)?) };
                let (saved_pos, saved_end) = (self.pos, self.end);
                if let Some(h) = &outer {
                    self.pos = h.windows[0].0;
                    self.end = h.windows[0].1;
                }
                let res = (|| {
                    let idx = self.vu32()?;
                    let vi = d.variant_by_ctor_index(idx as usize).ok_or(DecErr::BadCtor(idx))?;
                    let var = &variants[vi];
                    if var.transient {
                        return Err(DecErr::TransientCtor(var.name.clone()));
                    }
                    let fields = rfields(&var.record, var.shape);
                    Ok(Val::Variant(vi, self.read_record(var.record.steps.len(), &fields)?))
                })();
                if let Some(h) = &outer {
                    self.pos = h.after;
                    self.end = saved_end;
                    let _ = saved_pos;
                }
                res
            }
        }
    }

    /// parses `w + 1` header entries and cuts the chunk windows; leaves the cursor after all chunks
    fn read_header(&mut self, w: u8) -> DR<Header> {
        let mut entries = Vec::new();
        for _ in 0..=(w as usize) {
            let code = self.vi32()?;
            entries.push(match code {
                0 => HEntry::Unknown,
                -1 => {
                    let b = self.u8()? as i8;
                    // byte < 0: position -b in chunk 0 (0x80 denotes position 128, which no reader field can have);
                    // byte >= 0: chunk b, position 0
                    if b < 0 {
                        HEntry::Opt(0, (-(b as i16)) as u8)
                    } else {
                        HEntry::Opt(b as u8, 0)
                    }
                }
                -2 => HEntry::Removed(self.dedup()?),
                s if s > 0 => HEntry::Size(s as usize),
                s => return Err(DecErr::BadStepCode(s as i64)),
            });
        }
        let mut windows = Vec::new();
        let mut opt = Vec::new();
        let mut removed = Vec::new();
        for (ei, e) in entries.iter().enumerate() {
            match e {
                HEntry::Size(s) => {
                    let st = self.pos;
                    self.take(*s)?;
                    windows.push((st, st + s));
                }
                HEntry::Opt(c, p) => {
                    opt.push((*c, *p));
                    windows.push((self.pos, self.pos));
                }
                HEntry::Removed(n) => {
                    removed.push((ei, n.clone()));
                    windows.push((self.pos, self.pos));
                }
                HEntry::Unknown => windows.push((self.pos, self.pos)),
            }
        }
        Ok(Header { windows, opt, removed, after: self.pos })
    }

    /// DESIGN §4.3 "Reading with a declaration of version r data of stored version w".
    /// Returns one value per declared field (transient ones take their default).
    fn read_record(&mut self, _reader_version: usize, fields: &[RField]) -> DR<Vec<Val>> {
        let w = self.u8()?;
        if w == 0 {
            let mut out = Vec::new();
            for f in fields {
                if let Some(d) = f.transient {
                    out.push(d.clone());
                    continue;
                }
                if f.chunk > 0 {
                    out.push(f.default.cloned().ok_or_else(|| DecErr::FieldMissingNoDefault(f.name.to_string()))?);
                    continue;
                }
                // stored version 0 < opt_since: bare value wrapped in Some
                out.push(if f.declared_opt && f.opt_since > 0 {
                    match f.ty {
                        Ty::Option(inner) => Val::some(self.dec(inner)?),
                        _ => unreachable!(),
                    }
                } else {
                    self.dec(f.ty)?
                });
            }
            return Ok(out);
        }
        let h = self.read_header(w)?;
        let outer_end = self.end;
        let mut cursors: Vec<usize> = h.windows.iter().map(|w| w.0).collect();
        let mut idx_in_chunk: HashMap<usize, u8> = HashMap::new();
        let mut out = Vec::new();
        let mut result = Ok(());
        for f in fields {
            if let Some(d) = f.transient {
                out.push(d.clone());
                continue;
            }
            // a removal concerns the field as the reader knows it only if it came after the step that added that field
            // (a name may be removed and added again later: the new field lives in the chunk of its own step)
            if h.removed.iter().any(|(at, n)| n == f.name && *at > f.chunk) {
                if f.declared_opt {
                    out.push(Val::None);
                    continue;
                } else {
                    result = Err(DecErr::FieldRemoved(f.name.to_string()));
                    break;
                }
            }
            let my_index = {
                let e = idx_in_chunk.entry(f.chunk).or_insert(0);
                let v = *e;
                *e = e.wrapping_add(1);
                v
            };
            if f.chunk > w as usize {
                match f.default {
                    Some(d) => {
                        out.push(d.clone());
                        continue;
                    }
                    None => {
                        result = Err(DecErr::FieldMissingNoDefault(f.name.to_string()));
                        break;
                    }
                }
            }
            // read inside chunk window f.chunk
            self.pos = cursors[f.chunk];
            self.end = h.windows[f.chunk].1;
            let r = if !f.declared_opt {
                if h.opt.iter().any(|(c, p)| *c as usize == f.chunk && *p == my_index) {
                    match self.u8() {
                        Ok(0) => Err(DecErr::NonOptionalNone(f.name.to_string())),
                        Ok(_) => self.dec(f.ty),
                        Err(e) => Err(e),
                    }
                } else {
                    self.dec(f.ty)
                }
            } else if (w as usize) < f.opt_since {
                match f.ty {
                    Ty::Option(inner) => self.dec(inner).map(Val::some),
                    _ => unreachable!(),
                }
            } else {
                self.dec(f.ty)
            };
            cursors[f.chunk] = self.pos;
            match r {
                Ok(v) => out.push(v),
                Err(e) => {
                    result = Err(e);
                    break;
                }
            }
        }
        self.pos = h.after;
        self.end = outer_end;
        result.map(|_| out)
    }
}

enum HEntry {
    Size(usize),
    Opt(u8, u8),
    Removed(String),
    Unknown,
}

struct Header {
    windows: Vec<(usize, usize)>,
    opt: Vec<(u8, u8)>,
    removed: Vec<(usize, String)>,
    after: usize,
}

/// reader-side view of one declared field
struct RField<'a> {
    name: &'a str,
    ty: &'a Ty,
    chunk: usize,
    declared_opt: bool,
    opt_since: usize,
    default: Option<&'a Val>,
    transient: Option<&'a Val>,
}

fn rfields(r: &Record, _shape: Shape) -> Vec<RField<'_>> {
    r.fields
        .iter()
        .map(|f| RField {
            name: &f.name,
            ty: &f.ty,
            chunk: r.chunk_of(&f.name),
            declared_opt: f.is_option(),
            opt_since: r.made_optional_at(&f.name),
            default: r.default_of(&f.name),
            transient: f.transient.as_ref(),
        })
        .collect()
}

fn to_ndt(d: &Val, t: &Val) -> chrono::NaiveDateTime {
    match (d, t) {
        (Val::Date(y, m, dd), Val::Time(h, mi, s, n)) => chrono::NaiveDateTime::new(
            chrono::NaiveDate::from_ymd_opt(*y, *m as u32, *dd as u32).unwrap(),
            chrono::NaiveTime::from_hms_nano_opt(*h as u32, *mi as u32, *s as u32, *n).unwrap(),
        ),
        _ => unreachable!(),
    }
}

/// minimal two's-complement big-endian form (zero = [0])
pub fn normalize_signed_be(b: &[u8]) -> Vec<u8> {
    if b.is_empty() {
        return vec![0];
    }
    let mut i = 0;
    while i + 1 < b.len() && ((b[i] == 0x00 && b[i + 1] & 0x80 == 0) || (b[i] == 0xFF && b[i + 1] & 0x80 != 0)) {
        i += 1;
    }
    b[i..].to_vec()
}

/// strict reference decoding of a top-level value; returns the value and the number of bytes consumed
pub fn ref_decode(ty: &Ty, data: &[u8]) -> Result<(Val, usize), DecErr> {
    let mut d = Dec::new(data);
    let v = d.dec(ty)?;
    Ok((v, d.pos))
}

/// The string-id hazard of cross-version reading (finding F17): `bytes` written with the definition `writer` are read
/// with the definition `reader`, and every back-reference the reader resolves is compared with the string the writer
/// meant. Some(description) when one of them resolves to a different string or to nothing, i.e. when the reader
/// skipped (unknown chunk, removed field's bytes) the first occurrence of a deduplicated string — a removed-field
/// name in a nested record's header counts — and its id table is shifted against the writer's.
pub fn shadowed_string_ids(writer: &Ty, bytes: &[u8], reader: &Ty) -> Option<String> {
    // what every back-reference means: the stream read with the definition that wrote it (all chunks are visited)
    let mut dw = Dec::new(bytes);
    dw.dec(writer).ok()?;
    let mut dr = Dec::new(bytes);
    let _ = dr.dec(reader);
    for (off, got) in &dr.backrefs {
        let meant = dw.backrefs.iter().find(|(o, _)| o == off).and_then(|(_, m)| m.clone());
        match (meant, got) {
            (Some(m), Some(g)) if m == *g => {}
            (Some(m), g) => return Some(format!("the back-reference at offset {off} means {m:?} and the reader resolves it to {g:?}")),
            // the reader interprets bytes at an offset where the writer put no back-reference: its cursor is not the writer's
            (None, _) => return Some(format!("the reader meets a back-reference at offset {off} where the writer wrote none")),
        }
    }
    None
}

/// does any record header or field below `ty` carry a deduplicated string (user-level DeduplicatedString or the name
/// of a removed / transient-made field)?
pub fn has_dedup_sources(ty: &Ty) -> bool {
    ty.any(&|t| match t {
        Ty::Dedup => true,
        Ty::Adt(d) => {
            let recs: Vec<&Record> = match &d.body {
                DeclBody::Struct(r) => vec![r],
                DeclBody::Enum { variants, .. } => variants.iter().map(|v| &v.record).collect(),
            };
            let own = match &d.body {
                DeclBody::Enum { steps, .. } => steps.iter().any(|s| matches!(s, Step::Removed { .. } | Step::MadeTransient { .. })),
                _ => false,
            };
            own || recs.iter().any(|r| r.steps.iter().any(|s| matches!(s, Step::Removed { .. } | Step::MadeTransient { .. })))
        }
        _ => false,
    })
}

/// several values written back to back into one stream (one string table)
pub fn ref_encode_many(items: &[(Ty, Val)]) -> Result<Frag, EncErr> {
    let mut forms = WriterForms;
    let mut e = Enc::new(&mut forms);
    let mut f = Frag::default();
    for (ty, v) in items {
        e.enc(ty, v, &mut f)?;
    }
    Ok(f)
}
