pub mod declgen;
pub mod evidence;
pub mod gen;
pub mod refcodec;
pub mod render;
pub mod tamper;
pub mod ty;
pub mod typelists;
pub mod val;

pub use ty::{Decl, DeclBody, Field, Record, Shape, Step, Ty, Variant};
pub use val::{canon, dynamized, hex, unhex, with_transient_defaults, Val};

use serde::{Deserialize, Serialize};

/// Mirror of `desert::Error` on the model side: variant name plus its rendered payload.
#[derive(Clone, Debug, PartialEq, Eq, Hash, Serialize, Deserialize)]
pub struct ErrInfo {
    pub kind: String,
    pub detail: String,
}

impl ErrInfo {
    pub fn new(kind: &str, detail: &str) -> Self {
        ErrInfo { kind: kind.to_string(), detail: detail.to_string() }
    }
}

/// FNV-1a, stable across runs and platforms (std's DefaultHasher is not guaranteed stable across releases)
pub fn fnv64(data: &[u8]) -> u64 {
    let mut h: u64 = 0xcbf29ce484222325;
    for b in data {
        h ^= *b as u64;
        h = h.wrapping_mul(0x100000001b3);
    }
    h
}

pub fn hash_json<T: Serialize>(v: &T) -> u64 {
    fnv64(serde_json::to_string(v).unwrap().as_bytes())
}

/// seed derivation: (VERIF_SEED, property, shard, stream) -> 32-byte proptest seed
pub fn derive_seed(seed: u64, property: &str, shard: u64, stream: u64) -> [u8; 32] {
    let mut out = [0u8; 32];
    let base = format!("{seed}/{property}/{shard}/{stream}");
    for i in 0..4 {
        let h = fnv64(format!("{base}#{i}").as_bytes());
        // extra mixing (splitmix64 finaliser)
        let mut z = h.wrapping_add(0x9e3779b97f4a7c15);
        z = (z ^ (z >> 30)).wrapping_mul(0xbf58476d1ce4e5b9);
        z = (z ^ (z >> 27)).wrapping_mul(0x94d049bb133111eb);
        z ^= z >> 31;
        out[i * 8..i * 8 + 8].copy_from_slice(&z.to_le_bytes());
    }
    out
}
