//! Type expressions and declarations of the model. No dependency on desert.
use crate::val::Val;
use serde::{Deserialize, Serialize};
use std::sync::Arc;

#[derive(Clone, Debug, PartialEq, Eq, Hash, PartialOrd, Ord, Serialize, Deserialize)]
pub enum Ty {
    U8,
    I8,
    U16,
    I16,
    U32,
    I32,
    U64,
    I64,
    U128,
    I128,
    F32,
    F64,
    Bool,
    Unit,
    Char,
    Str,
    Duration,
    Option(Arc<Ty>),
    Result(Arc<Ty>, Arc<Ty>),
    Tuple(Vec<Ty>),
    Vec(Arc<Ty>),
    Array(Arc<Ty>, usize),
    Bytes,
    LinkedList(Arc<Ty>),
    HashSet(Arc<Ty>),
    BTreeSet(Arc<Ty>),
    HashMap(Arc<Ty>, Arc<Ty>),
    BTreeMap(Arc<Ty>, Arc<Ty>),
    Box(Arc<Ty>),
    Rc(Arc<Ty>),
    Arc(Arc<Ty>),
    Phantom,
    Uuid,
    Weekday,
    Month,
    FixedOffset,
    Tz,
    NaiveDate,
    NaiveTime,
    NaiveDateTime,
    DtUtc,
    DtLocal,
    DtFixed,
    DtTz,
    BigInt,
    BigDecimal,
    /// desert::DeduplicatedString
    Dedup,
    /// a u32 carried as a bare var-u32 (user codecs do this through BinaryOutput::write_var_u32, e.g. the
    /// StackTraceElement codec of the golden test)
    VarU32,
    // ---- serialize-only shapes (no BinaryDeserializer impl exists) ----
    Slice(Arc<Ty>),
    StrRef,
    Ref(Arc<Ty>),
    RcStr,
    RcSlice(Arc<Ty>),
    /// a derived (or dynamically interpreted) declaration
    Adt(Arc<Decl>),
    /// reference to the enclosing declaration with that name (recursive types)
    Rec(String),
}

#[derive(Clone, Debug, PartialEq, Eq, Hash, PartialOrd, Ord, Serialize, Deserialize)]
pub struct Decl {
    pub name: String,
    pub body: DeclBody,
}

#[derive(Clone, Debug, PartialEq, Eq, Hash, PartialOrd, Ord, Serialize, Deserialize)]
pub enum DeclBody {
    Struct(Record),
    Enum {
        sorted: bool,
        variants: Vec<Variant>,
        /// evolution steps declared on the enum itself (its own version; the constructor then lives in chunk 0)
        #[serde(default)]
        steps: Vec<Step>,
    },
}

#[derive(Clone, Debug, PartialEq, Eq, Hash, PartialOrd, Ord, Serialize, Deserialize)]
pub struct Record {
    /// all declared fields in declaration order, including transient ones
    pub fields: Vec<Field>,
    /// evolution steps after the implicit InitialVersion
    pub steps: Vec<Step>,
}

#[derive(Clone, Debug, PartialEq, Eq, Hash, PartialOrd, Ord, Serialize, Deserialize)]
pub struct Field {
    pub name: String,
    pub ty: Ty,
    /// `#[transient(default)]`
    pub transient: Option<Val>,
    /// how an Option type is spelled in generated source: 0 `Option`, 1 `std::option::Option`, 2 `core::option::Option`
    pub opt_spelling: u8,
}

impl Field {
    pub fn new(name: &str, ty: Ty) -> Field {
        Field { name: name.to_string(), ty, transient: None, opt_spelling: 0 }
    }
    pub fn is_option(&self) -> bool {
        matches!(self.ty, Ty::Option(_))
    }
}

#[derive(Clone, Debug, PartialEq, Eq, Hash, PartialOrd, Ord, Serialize, Deserialize)]
pub enum Step {
    Added { name: String, default: Val },
    MadeOptional { name: String },
    Removed { name: String },
    MadeTransient { name: String },
}

impl Step {
    pub fn name(&self) -> &str {
        match self {
            Step::Added { name, .. } | Step::MadeOptional { name } | Step::Removed { name } | Step::MadeTransient { name } => name,
        }
    }
}

#[derive(Clone, Copy, Debug, PartialEq, Eq, Hash, PartialOrd, Ord, Serialize, Deserialize)]
pub enum Shape {
    Unit,
    Tuple,
    Struct,
}

#[derive(Clone, Debug, PartialEq, Eq, Hash, PartialOrd, Ord, Serialize, Deserialize)]
pub struct Variant {
    pub name: String,
    pub shape: Shape,
    pub transient: bool,
    pub record: Record,
}

impl Record {
    pub fn version(&self) -> usize {
        self.steps.len()
    }
    /// chunk of a field: index (1-based over steps) of its FieldAdded step, else 0
    pub fn chunk_of(&self, name: &str) -> usize {
        // the real metadata keeps the *last* FieldAdded with that name (HashMap collect); histories never add a name twice
        let mut c = 0;
        for (i, s) in self.steps.iter().enumerate() {
            if let Step::Added { name: n, .. } = s {
                if n == name {
                    c = i + 1;
                }
            }
        }
        c
    }
    pub fn made_optional_at(&self, name: &str) -> usize {
        let mut c = 0;
        for (i, s) in self.steps.iter().enumerate() {
            if let Step::MadeOptional { name: n } = s {
                if n == name {
                    c = i + 1;
                }
            }
        }
        c
    }
    pub fn default_of(&self, name: &str) -> Option<&Val> {
        let mut d = None;
        for s in &self.steps {
            if let Step::Added { name: n, default } = s {
                if n == name {
                    d = Some(default);
                }
            }
        }
        d
    }
    pub fn serialized_fields(&self) -> impl Iterator<Item = (usize, &Field)> {
        self.fields.iter().enumerate().filter(|(_, f)| f.transient.is_none())
    }
}

impl Decl {
    /// constructor indices: position in declaration order, or rank by name when sorted. Transient constructors count.
    pub fn ctor_index(&self, decl_idx: usize) -> usize {
        match &self.body {
            DeclBody::Enum { sorted, variants, .. } => {
                if *sorted {
                    let mut names: Vec<(&str, usize)> = variants.iter().enumerate().map(|(i, v)| (v.name.as_str(), i)).collect();
                    names.sort(); // stable, by name (names are unique)
                    names.iter().position(|(_, i)| *i == decl_idx).unwrap()
                } else {
                    decl_idx
                }
            }
            _ => panic!("not an enum"),
        }
    }
    pub fn variant_by_ctor_index(&self, idx: usize) -> Option<usize> {
        match &self.body {
            DeclBody::Enum { variants, .. } => (0..variants.len()).find(|i| self.ctor_index(*i) == idx),
            _ => None,
        }
    }
}

impl Ty {
    /// does any node of the type expression (through declarations, cut at recursion) satisfy `p`
    pub fn any(&self, p: &dyn Fn(&Ty) -> bool) -> bool {
        fn go(t: &Ty, p: &dyn Fn(&Ty) -> bool, seen: &mut Vec<String>) -> bool {
            use Ty::*;
            if p(t) {
                return true;
            }
            match t {
                Option(a) | Vec(a) | Array(a, _) | LinkedList(a) | HashSet(a) | BTreeSet(a) | Box(a) | Rc(a) | Arc(a) | Slice(a) | Ref(a) | RcSlice(a) => go(a, p, seen),
                Result(a, b) | HashMap(a, b) | BTreeMap(a, b) => go(a, p, seen) || go(b, p, seen),
                Tuple(ts) => ts.iter().any(|t| go(t, p, seen)),
                Adt(d) => {
                    if seen.contains(&d.name) {
                        return false;
                    }
                    seen.push(d.name.clone());
                    match &d.body {
                        DeclBody::Struct(r) => r.fields.iter().any(|f| go(&f.ty, p, seen)),
                        DeclBody::Enum { variants, .. } => variants.iter().flat_map(|v| v.record.fields.iter()).any(|f| go(&f.ty, p, seen)),
                    }
                }
                _ => false,
            }
        }
        go(self, p, &mut Vec::new())
    }
    pub fn opt(t: Ty) -> Ty {
        Ty::Option(Arc::new(t))
    }
    pub fn vec(t: Ty) -> Ty {
        Ty::Vec(Arc::new(t))
    }
    pub fn depth(&self) -> usize {
        use Ty::*;
        match self {
            Option(a) | Vec(a) | Array(a, _) | LinkedList(a) | HashSet(a) | BTreeSet(a) | Box(a) | Rc(a) | Arc(a) | Slice(a) | Ref(a) | RcSlice(a) => 1 + a.depth(),
            Result(a, b) | HashMap(a, b) | BTreeMap(a, b) => 1 + a.depth().max(b.depth()),
            Tuple(ts) => 1 + ts.iter().map(|t| t.depth()).max().unwrap_or(0),
            Adt(d) => {
                1 + match &d.body {
                    DeclBody::Struct(r) => r.fields.iter().map(|f| f.ty.depth()).max().unwrap_or(0),
                    DeclBody::Enum { variants, .. } => variants.iter().flat_map(|v| v.record.fields.iter()).map(|f| f.ty.depth()).max().unwrap_or(0),
                }
            }
            _ => 0,
        }
    }
    /// true if the encoding of every value of this type is empty (zero-width): (), PhantomData and arrays/boxes thereof
    pub fn zero_width(&self) -> bool {
        use Ty::*;
        match self {
            Unit | Phantom => true,
            Box(a) | Rc(a) | Arc(a) | Ref(a) => a.zero_width(),
            _ => false,
        }
    }
    /// no BinaryDeserializer exists for this shape
    pub fn ser_only(&self) -> bool {
        use Ty::*;
        match self {
            Slice(_) | StrRef | Ref(_) | RcStr | RcSlice(_) => true,
            Option(a) | Vec(a) | Array(a, _) | LinkedList(a) | HashSet(a) | BTreeSet(a) | Box(a) | Rc(a) | Arc(a) => a.ser_only(),
            Result(a, b) | HashMap(a, b) | BTreeMap(a, b) => a.ser_only() || b.ser_only(),
            Tuple(ts) => ts.iter().any(|t| t.ser_only()),
            _ => false,
        }
    }
    /// Rust-ish rendering, used in evidence samples and by vgen
    pub fn render(&self) -> String {
        use Ty::*;
        match self {
            U8 => "u8".into(),
            I8 => "i8".into(),
            U16 => "u16".into(),
            I16 => "i16".into(),
            U32 => "u32".into(),
            I32 => "i32".into(),
            U64 => "u64".into(),
            I64 => "i64".into(),
            U128 => "u128".into(),
            I128 => "i128".into(),
            F32 => "f32".into(),
            F64 => "f64".into(),
            Bool => "bool".into(),
            Unit => "()".into(),
            Char => "char".into(),
            Str => "String".into(),
            Duration => "Duration".into(),
            Option(a) => format!("Option<{}>", a.render()),
            Result(a, b) => format!("Result<{}, {}>", a.render(), b.render()),
            Tuple(ts) => {
                if ts.len() == 1 {
                    format!("({},)", ts[0].render())
                } else {
                    format!("({})", ts.iter().map(|t| t.render()).collect::<std::vec::Vec<_>>().join(", "))
                }
            }
            Vec(a) => format!("Vec<{}>", a.render()),
            Array(a, n) => format!("[{}; {}]", a.render(), n),
            Bytes => "Bytes".into(),
            LinkedList(a) => format!("LinkedList<{}>", a.render()),
            HashSet(a) => format!("HashSet<{}>", a.render()),
            BTreeSet(a) => format!("BTreeSet<{}>", a.render()),
            HashMap(a, b) => format!("HashMap<{}, {}>", a.render(), b.render()),
            BTreeMap(a, b) => format!("BTreeMap<{}, {}>", a.render(), b.render()),
            Box(a) => format!("Box<{}>", a.render()),
            Rc(a) => format!("Rc<{}>", a.render()),
            Arc(a) => format!("Arc<{}>", a.render()),
            Phantom => "PhantomData<u64>".into(),
            Uuid => "Uuid".into(),
            Weekday => "Weekday".into(),
            Month => "Month".into(),
            FixedOffset => "FixedOffset".into(),
            Tz => "Tz".into(),
            NaiveDate => "NaiveDate".into(),
            NaiveTime => "NaiveTime".into(),
            NaiveDateTime => "NaiveDateTime".into(),
            DtUtc => "DateTime<Utc>".into(),
            DtLocal => "DateTime<Local>".into(),
            DtFixed => "DateTime<FixedOffset>".into(),
            DtTz => "DateTime<Tz>".into(),
            BigInt => "BigInt".into(),
            BigDecimal => "BigDecimal".into(),
            Dedup => "DS".into(),
            VarU32 => "VarU32".into(),
            Slice(a) => format!("[{}]", a.render()),
            StrRef => "str".into(),
            Ref(a) => format!("&{}", a.render()),
            RcStr => "Rc<str>".into(),
            RcSlice(a) => format!("Rc<[{}]>", a.render()),
            Adt(d) => d.name.clone(),
            Rec(n) => n.clone(),
        }
    }
}
