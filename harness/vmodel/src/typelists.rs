//! Fixed type lists shared by the exhaustive enumerators (vcheck) and the libFuzzer targets (fuzz/).
use crate::ty::Ty;

/// the fixed type list of the exhaustive sub-space: every leaf, every constructor over small children, and
/// hand-written derived declarations covering every evolution step kind
pub fn exhaustive_types() -> Vec<Ty> {
    use crate::ty::Ty::*;
    let a = |t: Ty| std::sync::Arc::new(t);
    let mut v = crate::gen::leaf_tys();
    v.push(Dedup);
    for e in [U8, U16, Str, Unit, Bool] {
        v.push(Option(a(e.clone())));
        v.push(Vec(a(e.clone())));
        v.push(LinkedList(a(e.clone())));
        v.push(HashSet(a(e.clone())));
        v.push(BTreeSet(a(e.clone())));
        v.push(Array(a(e.clone()), 0));
        v.push(Array(a(e.clone()), 1));
        v.push(Array(a(e.clone()), 2));
        v.push(Box(a(e.clone())));
        v.push(Tuple(vec![e.clone()]));
        v.push(Tuple(vec![e.clone(), U8]));
        v.push(HashMap(a(e.clone()), a(U8)));
        v.push(BTreeMap(a(e.clone()), a(Str)));
        v.push(Result(a(e.clone()), a(U8)));
    }
    v.push(Array(a(U8), 17));
    v.push(Array(a(U16), 3));
    v.push(Vec(a(Vec(a(U8)))));
    v.push(Vec(a(Option(a(Unit)))));
    v.push(Tuple(vec![U8, U8, U8, U8, U8, U8, U8, U8]));
    v.push(Rc(a(Str)));
    v.push(Arc(a(Vec(a(I8)))));
    for d in crate::declgen::fixed_decls() {
        v.push(Adt(d.clone()));
        v.push(Vec(a(Adt(d.clone()))));
    }
    v
}


/// types whose decoders contain unsafe code (arrays, byte vectors) and their neighbours
pub fn unsafe_path_types() -> Vec<Ty> {
    use crate::ty::Ty::*;
    let a = |t: Ty| std::sync::Arc::new(t);
    let mut v: std::vec::Vec<Ty> = std::vec::Vec::new();
    for e in [U8, U32, Str, Vec(a(U16)), Option(a(Box(a(U64)))), I8, Bool, Unit] {
        for n in [0usize, 1, 3, 16, 17, 33] {
            v.push(Array(a(e.clone()), n));
        }
        v.push(Vec(a(e.clone())));
    }
    v.push(Vec(a(Array(a(U8), 3))));
    v.push(Tuple(vec![Array(a(U8), 17), U32, Array(a(Str), 3)]));
    v.push(Bytes);
    v.push(BigInt);
    // the per-stream string table (entries registered, looked up and moved as the table grows)
    v.push(Vec(a(Dedup)));
    v.push(Tuple(vec![Dedup, Vec(a(Dedup)), Dedup, Option(a(Dedup))]));
    for d in crate::declgen::fixed_decls() {
        if d.name == "FixTr" || d.name == "FixPoint" {
            v.push(Vec(a(Adt(d))));
        }
    }
    v
}

