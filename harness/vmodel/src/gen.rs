//! Generators (DESIGN §3.1, §3.2): type expressions and values, as proptest strategies so that
//! shrinking and seeded replay work. Construction, not rejection.
use crate::ty::{DeclBody, Ty};
use crate::val::Val;
use proptest::prelude::*;
use proptest::sample::select;
use proptest::strategy::{BoxedStrategy, Just, Strategy};
use std::sync::Arc;

#[derive(Clone, Copy, Debug)]
pub struct ValCfg {
    /// allow chars above U+FFFF (not encodable: C17 domain)
    pub non_bmp: bool,
    /// maximum collection length at the top level (shrinks with depth)
    pub max_len: usize,
    /// allow the long strings / sequences of the boundary pools (63/64/65, 8191/8192)
    pub long: bool,
    /// draw every string from a six-string alphabet (C09: repeats must be frequent)
    pub small_alphabet: bool,
    /// also draw values of #[transient] enum constructors (their encoding is an error by design)
    pub transient_ctors: bool,
}

pub const SMALL_ALPHABET: [&str; 6] = ["", "a", "gone", "héllo wörld", "日本", "a rather long string that repeats, so that a back-reference is visibly shorter"];

impl Default for ValCfg {
    fn default() -> Self {
        ValCfg { non_bmp: false, max_len: 12, long: true, small_alphabet: false, transient_ctors: false }
    }
}

pub fn leaf_tys() -> Vec<Ty> {
    use Ty::*;
    vec![
        U8, I8, U16, I16, U32, I32, U64, I64, U128, I128, F32, F64, Bool, Unit, Char, Str, Duration, Bytes, Phantom, VarU32, Uuid, Weekday, Month, FixedOffset, Tz, NaiveDate, NaiveTime,
        NaiveDateTime, DtUtc, DtLocal, DtFixed, DtTz, BigInt, BigDecimal,
    ]
}

/// leaves usable as set elements / map keys (Eq + Hash + Ord in Rust, and whose equality is structural)
pub fn key_leaf_tys() -> Vec<Ty> {
    use Ty::*;
    vec![U8, I8, U16, I16, U32, I32, U64, I64, U128, I128, Bool, Unit, Char, Str, Duration, Uuid, NaiveDate, NaiveTime, NaiveDateTime, DtUtc, BigInt]
}

fn arc(t: Ty) -> Arc<Ty> {
    Arc::new(t)
}

pub fn key_ty(depth: u32) -> BoxedStrategy<Ty> {
    let leaf = select(key_leaf_tys()).boxed();
    if depth == 0 {
        return leaf;
    }
    let inner = key_ty(depth - 1);
    prop_oneof![
        4 => leaf,
        1 => inner.clone().prop_map(|t| Ty::Option(arc(t))),
        1 => inner.clone().prop_map(|t| Ty::Vec(arc(t))),
        1 => inner.clone().prop_map(|t| Ty::BTreeSet(arc(t))),
        1 => inner.clone().prop_map(|t| Ty::Box(arc(t))),
        1 => (inner.clone(), inner.clone()).prop_map(|(a, b)| Ty::Tuple(vec![a, b])),
        1 => (inner.clone(), select(vec![0usize, 1, 2, 3])).prop_map(|(t, n)| Ty::Array(arc(t), n)),
        1 => (inner.clone(), inner).prop_map(|(a, b)| Ty::Result(arc(a), arc(b))),
    ]
    .boxed()
}

pub const ARRAY_LENS: [usize; 8] = [0, 1, 2, 3, 16, 17, 32, 33];
/// byte arrays also around the sizes where the length prefix changes width
pub const BYTE_ARRAY_LENS: [usize; 12] = [0, 1, 2, 3, 16, 17, 32, 33, 127, 128, 255, 256];

/// every built-in type constructor at the root, recursively up to `depth`
pub fn any_ty(depth: u32) -> BoxedStrategy<Ty> {
    let leaf = select(leaf_tys()).boxed();
    if depth == 0 {
        return leaf;
    }
    let inner = any_ty(depth - 1);
    let key = key_ty((depth - 1).min(1));
    prop_oneof![
        3 => leaf,
        2 => inner.clone().prop_map(|t| Ty::Option(arc(t))),
        1 => (inner.clone(), inner.clone()).prop_map(|(a, b)| Ty::Result(arc(a), arc(b))),
        3 => proptest::collection::vec(inner.clone(), 1..=8).prop_map(Ty::Tuple),
        3 => inner.clone().prop_map(|t| Ty::Vec(arc(t))),
        2 => (inner.clone(), select(ARRAY_LENS.to_vec())).prop_map(|(t, n)| Ty::Array(arc(t), n)),
        1 => select(BYTE_ARRAY_LENS.to_vec()).prop_map(|n| Ty::Array(arc(Ty::U8), n)),
        1 => key.clone().prop_map(|t| Ty::LinkedList(arc(t))),
        1 => inner.clone().prop_map(|t| Ty::LinkedList(arc(t))),
        2 => key.clone().prop_map(|t| Ty::HashSet(arc(t))),
        2 => key.clone().prop_map(|t| Ty::BTreeSet(arc(t))),
        2 => (key.clone(), inner.clone()).prop_map(|(k, v)| Ty::HashMap(arc(k), arc(v))),
        2 => (key, inner.clone()).prop_map(|(k, v)| Ty::BTreeMap(arc(k), arc(v))),
        1 => inner.clone().prop_map(|t| Ty::Box(arc(t))),
        1 => inner.clone().prop_map(|t| Ty::Rc(arc(t))),
        1 => inner.prop_map(|t| Ty::Arc(arc(t))),
    ]
    .boxed()
}

fn int_pool(lo: i128, hi: i128) -> Vec<i128> {
    let mut p = vec![0i128, 1, -1, 2, lo, hi, lo + 1, hi - 1];
    for k in [6u32, 7, 8, 13, 14, 15, 16, 20, 21, 27, 28, 31, 32, 63, 64] {
        let b = 1i128 << k;
        for d in [-1i128, 0, 1] {
            p.push(b + d);
            p.push(-(b + d));
        }
    }
    p.retain(|v| *v >= lo && *v <= hi);
    p.sort();
    p.dedup();
    p
}

pub fn int_strategy(lo: i128, hi: i128) -> BoxedStrategy<Val> {
    prop_oneof![
        2 => select(int_pool(lo, hi)),
        3 => lo..=hi,
        1 => (-100i128).max(lo)..=100i128.min(hi),
    ]
    .prop_map(Val::Int)
    .boxed()
}

pub fn int_range(ty: &Ty) -> Option<(i128, i128)> {
    use Ty::*;
    Some(match ty {
        U8 => (0, u8::MAX as i128),
        I8 => (i8::MIN as i128, i8::MAX as i128),
        U16 => (0, u16::MAX as i128),
        I16 => (i16::MIN as i128, i16::MAX as i128),
        U32 => (0, u32::MAX as i128),
        I32 => (i32::MIN as i128, i32::MAX as i128),
        U64 => (0, u64::MAX as i128),
        I64 => (i64::MIN as i128, i64::MAX as i128),
        I128 => (i128::MIN, i128::MAX),
        VarU32 => (0, u32::MAX as i128),
        _ => return None,
    })
}

pub const STRING_POOL: [&str; 10] = ["", "a", "ab", "z", "gone", "héllo", "日本語", "\u{0}", "\u{7ff}\u{800}\u{ffff}", "😀 non-bmp"];

pub fn string_strategy(cfg: ValCfg) -> BoxedStrategy<String> {
    if cfg.small_alphabet {
        // rarely a string above 64 KiB (tables and buffers have thresholds of their own)
        return prop_oneof![80 => select(SMALL_ALPHABET.to_vec()).prop_map(|s| s.to_string()), 1 => Just("0123456789abcdef".repeat(4400))].boxed();
    }
    let long = if cfg.long {
        prop_oneof![
            3 => select(vec![62usize, 63, 64, 65, 127, 128]).prop_flat_map(|n| proptest::collection::vec(select(vec!['a', 'b', 'é', 'x']), n..=n).prop_map(|cs| {
                // byte length, not char length, decides the varint width: build exactly n bytes where possible
                let mut s = String::new();
                for c in cs { if s.len() + c.len_utf8() <= 128 { s.push(c); } }
                s
            })),
            1 => select(vec![8191usize, 8192, 8193]).prop_map(|n| "q".repeat(n)),
            // one contiguous write of 256 KiB and more (buffering layers have thresholds too)
            1 => select(vec![262_143usize, 262_144, 300_000]).prop_map(|n| "w".repeat(n)),
        ]
        .boxed()
    } else {
        Just(String::new()).boxed()
    };
    prop_oneof![
        4 => select(STRING_POOL.to_vec()).prop_map(|s| s.to_string()),
        4 => "[a-z]{0,8}",
        3 => "\\PC{0,12}",
        2 => proptest::collection::vec(any::<char>(), 0..6).prop_map(|v| v.into_iter().collect::<String>()),
        1 => long,
    ]
    .boxed()
}

fn len_strategy(cfg: ValCfg, depth: u32) -> BoxedStrategy<usize> {
    let max = match depth {
        0 => cfg.max_len,
        1 => cfg.max_len.min(5),
        _ => cfg.max_len.min(3),
    };
    if depth == 0 && cfg.long {
        prop_oneof![
            10 => 0..=max,
            3 => select(vec![0usize, 1, 2]),
            1 => select(vec![63usize, 64, 65]),
        ]
        .boxed()
    } else {
        prop_oneof![3 => 0..=max, 2 => select(vec![0usize, 1, 2])].boxed()
    }
}

fn date_strategy() -> BoxedStrategy<Val> {
    let (ymin, ymax) = (chrono::NaiveDate::MIN.year_ce_i32(), chrono::NaiveDate::MAX.year_ce_i32());
    let years = prop_oneof![
        3 => select(vec![ymin, ymin + 1, -1, 0, 1, 63, 64, 1969, 1970, 2000, 2024, 9999, 10000, 16383, 16384, ymax - 1, ymax]),
        2 => 1900i32..2100,
        2 => ymin..=ymax,
        // leap and century years on both sides of year 0 (ordinal 60 is 29 February exactly then)
        2 => (-30i32..30, select(vec![0i32, 4, 96, 100, 104, 196, 200, 296, 300, 304, 396])).prop_map(|(c, r)| c * 400 + r),
        1 => (-30i32..30, select(vec![0i32, 4, 96, 100, 104, 196, 200, 296, 300, 304, 396])).prop_map(|(c, r)| -(c * 400 + r)),
    ];
    (years, prop_oneof![2 => select(vec![1u32, 2, 59, 60, 61, 365, 366]), 3 => 1u32..=366]).prop_map(|(y, o)| {
        let d = chrono::NaiveDate::from_yo_opt(y, o).or_else(|| chrono::NaiveDate::from_yo_opt(y, 365)).unwrap();
        use chrono::Datelike;
        Val::Date(d.year(), d.month() as u8, d.day() as u8)
    })
    .boxed()
}

trait YearCe {
    fn year_ce_i32(&self) -> i32;
}
impl YearCe for chrono::NaiveDate {
    fn year_ce_i32(&self) -> i32 {
        use chrono::Datelike;
        self.year()
    }
}

fn time_strategy() -> BoxedStrategy<Val> {
    let nanos = prop_oneof![2 => select(vec![0u32, 1, 127, 128, 16383, 16384, 999_999_999]), 3 => 0u32..1_000_000_000];
    prop_oneof![
        8 => (0u8..24, 0u8..60, 0u8..60, nanos).prop_map(|(h, m, s, n)| Val::Time(h, m, s, n)),
        1 => (0u8..24, 0u8..60, 1_000_000_000u32..2_000_000_000).prop_map(|(h, m, n)| Val::Time(h, m, 59, n)),
        1 => select(vec![Val::Time(0, 0, 0, 0), Val::Time(23, 59, 59, 999_999_999), Val::Time(23, 59, 59, 1_999_999_999)]),
    ]
    .boxed()
}

fn offset_strategy() -> BoxedStrategy<Val> {
    prop_oneof![2 => select(vec![0i32, 1, -1, 63, 64, -64, -65, 3600, -3600, 19800, 86399, -86399]), 3 => -86399i32..=86399]
        .prop_map(Val::Offset)
        .boxed()
}

fn tz_strategy() -> BoxedStrategy<Val> {
    let n = chrono_tz::TZ_VARIANTS.len();
    (0..n).prop_map(|i| Val::Tz(chrono_tz::TZ_VARIANTS[i].name().to_string())).boxed()
}

pub fn split_ndt(ndt: &chrono::NaiveDateTime) -> (Val, Val) {
    use chrono::{Datelike, Timelike};
    (
        Val::Date(ndt.date().year(), ndt.date().month() as u8, ndt.date().day() as u8),
        Val::Time(ndt.time().hour() as u8, ndt.time().minute() as u8, ndt.time().second() as u8, ndt.time().nanosecond()),
    )
}

pub fn join_ndt(d: &Val, t: &Val) -> chrono::NaiveDateTime {
    match (d, t) {
        (Val::Date(y, m, dd), Val::Time(h, mi, s, n)) => chrono::NaiveDateTime::new(
            chrono::NaiveDate::from_ymd_opt(*y, *m as u32, *dd as u32).expect("valid date"),
            chrono::NaiveTime::from_hms_nano_opt(*h as u32, *mi as u32, *s as u32, *n).expect("valid time"),
        ),
        _ => panic!("join_ndt"),
    }
}

fn bigint_bytes() -> BoxedStrategy<Vec<u8>> {
    prop_oneof![
        2 => select(vec![
            vec![0u8], vec![1], vec![0xff], vec![0x7f], vec![0x80], vec![0x00, 0x80], vec![0xff, 0x7f], vec![0x00, 0xff],
            vec![0x7f, 0xff, 0xff, 0xff, 0xff, 0xff, 0xff, 0xff], vec![0x80, 0, 0, 0, 0, 0, 0, 0], vec![0x00, 0x80, 0, 0, 0, 0, 0, 0, 0], vec![0x01, 0, 0, 0, 0, 0, 0, 0, 0, 0, 0, 0, 0, 0, 0, 0, 0],
        ]),
        3 => proptest::collection::vec(any::<u8>(), 1..24).prop_map(|b| crate::refcodec::normalize_signed_be(&b)),
        // the corners of every width: -2^(8k-1), 2^(8k-1), -256^k and its neighbours (carry chains), 256^k - 1
        2 => (1usize..=17, 0u8..6).prop_map(|(k, kind)| {
            let zeros = |n: usize| std::iter::repeat(0u8).take(n);
            let b: Vec<u8> = match kind {
                0 => std::iter::once(0x80).chain(zeros(k - 1)).collect(),
                1 => [0x00, 0x80].into_iter().chain(zeros(k - 1)).collect(),
                2 => std::iter::once(0xff).chain(zeros(k)).collect(),
                3 => std::iter::once(0xfe).chain(std::iter::repeat(0xff).take(k)).collect(),
                4 => std::iter::once(0xff).chain(zeros(k - 1)).chain(std::iter::once(0x01)).collect(),
                _ => std::iter::once(0x00).chain(std::iter::repeat(0xff).take(k)).collect(),
            };
            crate::refcodec::normalize_signed_be(&b)
        }),
    ]
    .boxed()
}

fn bigdecimal_strategy() -> BoxedStrategy<Val> {
    // scales far outside what fits 32 bits, up to the ends of i64 (the text form copes: 7E-9223372036854775807)
    let far = select(vec![i32::MAX as i64, i32::MAX as i64 + 1, i32::MIN as i64, i32::MIN as i64 - 1, 1i64 << 40, -(1i64 << 40), i64::MAX, i64::MAX - 1, i64::MIN, i64::MIN + 1, i64::MIN + 2, i64::MIN + 3]);
    (any::<i128>(), prop_oneof![4 => select(vec![0i64, 1, -1, 2, 10, 38, 39, -10]), 6 => -40i64..60, 1 => far], 0u8..5)
        .prop_map(|(digits, scale, small)| {
            let digits = match small {
                // trailing zeros (what a normalising step would strip)
                4 => (digits % 1000) * 100,
                0 => digits % 1000,
                1 => digits % 1_000_000_000_000,
                _ => digits,
            };
            let bd = bigdecimal::BigDecimal::new(bigdecimal::num_bigint::BigInt::from(digits), scale);
            Val::Str(bd.to_string())
        })
        .boxed()
}

pub fn val_strategy(ty: &Ty, cfg: ValCfg) -> BoxedStrategy<Val> {
    val_in(ty, cfg, 0, &mut Vec::new())
}

fn val_in(ty: &Ty, cfg: ValCfg, depth: u32, decls: &mut Vec<Arc<crate::ty::Decl>>) -> BoxedStrategy<Val> {
    use Ty::*;
    if let Some((lo, hi)) = int_range(ty) {
        return int_strategy(lo, hi);
    }
    match ty {
        U128 => prop_oneof![1 => select(vec![0u128, 1, u128::MAX, u128::MAX - 1, 1 << 64, (1 << 64) - 1, 1 << 127]), 2 => any::<u128>()].prop_map(Val::U128).boxed(),
        F32 => prop_oneof![
            2 => select(vec![0u32, 0x8000_0000, 0x7f80_0000, 0xff80_0000, 1, 0x007f_ffff, 0x0080_0000, 0x7f7f_ffff, 0x7fc0_0000, 0x7fa0_0000, 0xffc0_0001, 0x7fff_ffff, 0x3f80_0000]),
            3 => any::<u32>(),
        ]
        .prop_map(Val::F32)
        .boxed(),
        F64 => prop_oneof![
            2 => select(vec![0u64, 1 << 63, 0x7ff0 << 48, 0xfff0 << 48, 1, 0x000f_ffff_ffff_ffff, 0x7ff8 << 48, (0x7ff4 << 48) | 7, u64::MAX, 0x3ff0 << 48]),
            3 => any::<u64>(),
        ]
        .prop_map(Val::F64)
        .boxed(),
        Bool => any::<bool>().prop_map(Val::Bool).boxed(),
        Unit | Phantom => Just(Val::Unit).boxed(),
        Char => {
            let bmp = prop_oneof![
                2 => select(vec![0u32, 0x41, 0x7f, 0x80, 0x7ff, 0x800, 0xd7ff, 0xe000, 0xfffd, 0xffff]),
                2 => 0u32..0xd800,
                1 => 0xe000u32..0x10000,
            ];
            if cfg.non_bmp {
                prop_oneof![3 => bmp, 2 => 0x10000u32..0x110000, 1 => select(vec![0x10000u32, 0x10ffff, 0x1f600])].prop_map(Val::Char).boxed()
            } else {
                bmp.prop_map(Val::Char).boxed()
            }
        }
        Str | StrRef | RcStr | Dedup => string_strategy(cfg).prop_map(Val::Str).boxed(),
        Duration => (
            prop_oneof![2 => select(vec![0u64, 1, u64::MAX, u64::MAX - 1, 1 << 32, 86_400]), 2 => any::<u64>()],
            prop_oneof![1 => select(vec![0u32, 1, 999_999_999, 500_000_000]), 2 => 0u32..1_000_000_000],
        )
            .prop_map(|(s, n)| Val::Duration(s, n))
            .boxed(),
        Option(t) => {
            let inner = val_in(t, cfg, depth + 1, decls);
            prop_oneof![1 => Just(Val::None), 3 => inner.prop_map(Val::some)].boxed()
        }
        Result(t, e) => {
            let a = val_in(t, cfg, depth + 1, decls);
            let b = val_in(e, cfg, depth + 1, decls);
            prop_oneof![a.prop_map(|x| Val::Ok(std::boxed::Box::new(x))), b.prop_map(|x| Val::Err(std::boxed::Box::new(x)))].boxed()
        }
        Tuple(ts) => {
            let ss: std::vec::Vec<BoxedStrategy<Val>> = ts.iter().map(|t| val_in(t, cfg, depth + 1, decls)).collect();
            ss.prop_map(Val::Tuple).boxed()
        }
        Vec(e) | Slice(e) | RcSlice(e) if **e == U8 => bytes_strategy(cfg, depth),
        Bytes => bytes_strategy(cfg, depth),
        Array(e, n) if **e == U8 => proptest::collection::vec(any::<u8>(), *n..=*n).prop_map(Val::Bytes).boxed(),
        Uuid => prop_oneof![1 => select(vec![vec![0u8; 16], vec![0xffu8; 16]]), 3 => proptest::collection::vec(any::<u8>(), 16..=16)].prop_map(Val::Bytes).boxed(),
        BigInt => bigint_bytes().prop_map(Val::Bytes).boxed(),
        Array(e, n) => {
            let inner = val_in(e, cfg, depth + 1, decls);
            proptest::collection::vec(inner, *n..=*n).prop_map(Val::Seq).boxed()
        }
        Vec(e) | Slice(e) | RcSlice(e) | LinkedList(e) | HashSet(e) | BTreeSet(e) => {
            let inner = val_in(e, cfg, depth + 1, decls);
            len_strategy(cfg, depth).prop_flat_map(move |n| proptest::collection::vec(inner.clone(), n..=n)).prop_map(Val::Seq).boxed()
        }
        HashMap(k, v) | BTreeMap(k, v) => {
            let ks = val_in(k, cfg, depth + 1, decls);
            let vs = val_in(v, cfg, depth + 1, decls);
            len_strategy(cfg, depth).prop_flat_map(move |n| proptest::collection::vec((ks.clone(), vs.clone()), n..=n)).prop_map(Val::Map).boxed()
        }
        Box(t) | Rc(t) | Arc(t) | Ref(t) => val_in(t, cfg, depth, decls),
        Weekday => (1u8..=7).prop_map(Val::Weekday).boxed(),
        Month => (1u8..=12).prop_map(Val::Month).boxed(),
        FixedOffset => offset_strategy(),
        Tz => tz_strategy(),
        NaiveDate => date_strategy(),
        NaiveTime => time_strategy(),
        NaiveDateTime | DtLocal => (date_strategy(), time_strategy()).prop_map(|(d, t)| Val::Tuple(vec![d, t])).boxed(),
        DtUtc => {
            let lo = chrono::DateTime::<chrono::Utc>::MIN_UTC.timestamp();
            let hi = chrono::DateTime::<chrono::Utc>::MAX_UTC.timestamp();
            (
                prop_oneof![2 => select(vec![lo, lo + 1, -1, 0, 1, 59, hi - 1, hi, 1_700_000_000]), 3 => lo..=hi, 2 => -4_000_000_000i64..4_000_000_000],
                prop_oneof![1 => select(vec![0u32, 1, 999_999_999]), 2 => 0u32..1_000_000_000],
                any::<bool>(),
            )
                .prop_map(|(s, n, leap)| {
                    let n = if leap && s.rem_euclid(60) == 59 { n + 1_000_000_000 } else { n };
                    Val::Tuple(vec![Val::Int(s as i128), Val::Int(n as i128)])
                })
                .boxed()
        }
        DtFixed => (date_strategy(), time_strategy(), offset_strategy())
            .prop_map(|(d, t, o)| {
                // (d, t) is drawn as the UTC instant; the wire carries the local time
                let utc = join_ndt(&d, &t);
                let secs = match o {
                    Val::Offset(s) => s,
                    _ => unreachable!(),
                };
                let off = chrono::FixedOffset::east_opt(secs).unwrap();
                match utc.checked_add_offset(off) {
                    Some(local) => {
                        let (ld, mut lt) = split_ndt(&local);
                        // a leap second shifted by an offset that is not a whole minute lands on a second != 59, which
                        // chrono cannot build from fields (NaiveTime::from_hms_nano_opt): keep the instant, drop the leap
                        if let Val::Time(h, m, s, n) = lt {
                            if n >= 1_000_000_000 && s != 59 {
                                lt = Val::Time(h, m, s, n - 1_000_000_000);
                            }
                        }
                        Val::Tuple(vec![ld, lt, Val::Offset(secs)])
                    }
                    None => Val::Tuple(vec![d, t, Val::Offset(0)]),
                }
            })
            .boxed(),
        DtTz => (date_strategy(), time_strategy(), tz_strategy()).prop_map(|(d, t, z)| Val::Tuple(vec![d, t, z])).boxed(),
        BigDecimal => bigdecimal_strategy(),
        Adt(d) => {
            decls.push(d.clone());
            let r = decl_val(d, cfg, depth, decls);
            decls.pop();
            r
        }
        Rec(name) => {
            // recursion: bounded by depth; beyond the bound the strategy must bottom out through an Option/Vec above it
            let d = decls.iter().rev().find(|d| &d.name == name).cloned().expect("Rec target in scope");
            decls.push(d.clone());
            let r = decl_val(&d, cfg, depth, decls);
            decls.pop();
            r
        }
        _ => unreachable!("val_in {:?}", ty),
    }
}

const REC_DEPTH_LIMIT: u32 = 5;

fn decl_val(d: &Arc<crate::ty::Decl>, cfg: ValCfg, depth: u32, decls: &mut Vec<Arc<crate::ty::Decl>>) -> BoxedStrategy<Val> {
    // cut recursion: when too deep, Option fields become None and sequences empty (handled by field_val)
    match &d.body {
        DeclBody::Struct(r) => {
            let ss: Vec<BoxedStrategy<Val>> = r.fields.iter().map(|f| field_val(&f.ty, cfg, depth + 1, decls)).collect();
            ss.prop_map(Val::Rec).boxed()
        }
        DeclBody::Enum { variants, .. } => {
            let mut alts: Vec<BoxedStrategy<Val>> = Vec::new();
            // beyond the depth bound only constructors without recursive fields are drawn
            let bottom = depth > REC_DEPTH_LIMIT && variants.iter().any(|v| !v.record.fields.iter().any(|f| contains_rec(&f.ty)));
            for (i, v) in variants.iter().enumerate() {
                if bottom && v.record.fields.iter().any(|f| contains_rec(&f.ty)) {
                    continue;
                }
                if v.transient && !cfg.transient_ctors && variants.iter().any(|x| !x.transient) {
                    continue;
                }
                let ss: Vec<BoxedStrategy<Val>> = v.record.fields.iter().map(|f| field_val(&f.ty, cfg, depth + 1, decls)).collect();
                alts.push(ss.prop_map(move |fs| Val::Variant(i, fs)).boxed());
            }
            proptest::strategy::Union::new(alts).boxed()
        }
    }
}

fn contains_rec(ty: &Ty) -> bool {
    use Ty::*;
    match ty {
        Rec(_) => true,
        Option(a) | Vec(a) | Array(a, _) | LinkedList(a) | HashSet(a) | BTreeSet(a) | Box(a) | Rc(a) | Arc(a) => contains_rec(a),
        Result(a, b) | HashMap(a, b) | BTreeMap(a, b) => contains_rec(a) || contains_rec(b),
        Tuple(ts) => ts.iter().any(contains_rec),
        _ => false,
    }
}

fn field_val(ty: &Ty, cfg: ValCfg, depth: u32, decls: &mut Vec<Arc<crate::ty::Decl>>) -> BoxedStrategy<Val> {
    if depth > REC_DEPTH_LIMIT && contains_rec(ty) {
        return match ty {
            Ty::Option(_) => Just(Val::None).boxed(),
            Ty::Vec(_) | Ty::LinkedList(_) => Just(Val::Seq(vec![])).boxed(),
            Ty::Box(inner) => field_val(inner, cfg, depth, decls),
            Ty::Rec(_) => val_in(ty, cfg, depth, decls),
            other => panic!("recursive field {other:?} cannot bottom out"),
        };
    }
    val_in(ty, cfg, depth, decls)
}

fn bytes_strategy(cfg: ValCfg, depth: u32) -> BoxedStrategy<Val> {
    let long = if cfg.long && depth == 0 {
        prop_oneof![
            6 => select(vec![127usize, 128, 129, 16383, 16384]).prop_flat_map(|n| proptest::collection::vec(any::<u8>(), n..=n)),
            1 => (select(vec![262_143usize, 262_144, 300_000]), any::<u8>()).prop_map(|(n, b)| vec![b; n]),
        ]
        .boxed()
    } else {
        Just(vec![]).boxed()
    };
    prop_oneof![
        2 => select(vec![vec![], vec![0u8], vec![0xff], vec![1, 2, 3]]),
        6 => proptest::collection::vec(any::<u8>(), 0..40),
        1 => long,
    ]
    .prop_map(Val::Bytes)
    .boxed()
}

/// monotone index mapping so that shrinking moves toward earlier choices
pub fn pick(idx: u16, len: usize) -> usize {
    ((idx as usize) * len) >> 16
}

/// One strategy per root constructor (every tuple arity, every array length, every container), children random.
/// Used so that "every constructor at the root" is covered by construction, not by luck.
pub fn rooted_tys(depth: u32) -> Vec<(String, BoxedStrategy<Ty>)> {
    let d = depth.saturating_sub(1);
    let inner = any_ty(d);
    let key = key_ty(d.min(1));
    let mut out: Vec<(String, BoxedStrategy<Ty>)> = Vec::new();
    for l in leaf_tys() {
        out.push((l.render(), Just(l).boxed()));
    }
    out.push(("Option".into(), inner.clone().prop_map(|t| Ty::Option(arc(t))).boxed()));
    out.push(("Result".into(), (inner.clone(), inner.clone()).prop_map(|(a, b)| Ty::Result(arc(a), arc(b))).boxed()));
    for n in 1..=8usize {
        out.push((format!("Tuple{n}"), proptest::collection::vec(inner.clone(), n..=n).prop_map(Ty::Tuple).boxed()));
    }
    out.push(("Vec".into(), inner.clone().prop_map(|t| Ty::Vec(arc(t))).boxed()));
    out.push(("Vec<u8>".into(), Just(Ty::Vec(arc(Ty::U8))).boxed()));
    out.push(("Vec<i8|bool|()>".into(), select(vec![Ty::I8, Ty::Bool, Ty::Unit]).prop_map(|t| Ty::Vec(arc(t))).boxed()));
    for n in ARRAY_LENS {
        out.push((format!("[T;{n}]"), inner.clone().prop_map(move |t| Ty::Array(arc(t), n)).boxed()));
    }
    // arrays around the lengths at which the count needs a second var-int byte (zig-zag: 64) and beyond one byte: only
    // as roots (nested under other arrays they multiply into millions of elements)
    for n in [63usize, 64, 65, 127, 128] {
        out.push((format!("[T;{n}]"), select(vec![Ty::U16, Ty::Bool, Ty::I8, Ty::Str, Ty::Option(arc(Ty::U8)), Ty::U64]).prop_map(move |t| Ty::Array(arc(t), n)).boxed()));
    }
    for n in BYTE_ARRAY_LENS {
        out.push((format!("[u8;{n}]"), Just(Ty::Array(arc(Ty::U8), n)).boxed()));
    }
    out.push(("[i8|bool|();N]".into(), (select(vec![Ty::I8, Ty::Bool, Ty::Unit]), select(ARRAY_LENS.to_vec())).prop_map(|(t, n)| Ty::Array(arc(t), n)).boxed()));
    out.push(("LinkedList".into(), prop_oneof![inner.clone(), key.clone()].prop_map(|t| Ty::LinkedList(arc(t))).boxed()));
    // containers whose element (or entry) type has no size at all
    out.push((
        "containers of zero-sized elements".into(),
        select(vec![Ty::HashSet(arc(Ty::Unit)), Ty::BTreeSet(arc(Ty::Unit)), Ty::LinkedList(arc(Ty::Unit)), Ty::HashMap(arc(Ty::Unit), arc(Ty::Unit)), Ty::BTreeMap(arc(Ty::Unit), arc(Ty::Unit)), Ty::HashSet(arc(Ty::Phantom))]).boxed(),
    ));
    out.push(("HashSet".into(), key.clone().prop_map(|t| Ty::HashSet(arc(t))).boxed()));
    out.push(("BTreeSet".into(), key.clone().prop_map(|t| Ty::BTreeSet(arc(t))).boxed()));
    out.push(("HashMap".into(), (key.clone(), inner.clone()).prop_map(|(k, v)| Ty::HashMap(arc(k), arc(v))).boxed()));
    out.push(("BTreeMap".into(), (key, inner.clone()).prop_map(|(k, v)| Ty::BTreeMap(arc(k), arc(v))).boxed()));
    out.push(("Box".into(), inner.clone().prop_map(|t| Ty::Box(arc(t))).boxed()));
    out.push(("Rc".into(), inner.clone().prop_map(|t| Ty::Rc(arc(t))).boxed()));
    out.push(("Arc".into(), inner.prop_map(|t| Ty::Arc(arc(t))).boxed()));
    out
}

pub fn root_class(ty: &Ty) -> String {
    use Ty::*;
    match ty {
        Option(_) => "Option".into(),
        Result(..) => "Result".into(),
        Tuple(ts) => format!("Tuple{}", ts.len()),
        Vec(e) if **e == U8 => "Vec<u8>".into(),
        Vec(_) => "Vec".into(),
        Array(e, n) if **e == U8 => format!("[u8;{n}]"),
        Array(_, n) => format!("[T;{n}]"),
        LinkedList(_) => "LinkedList".into(),
        HashSet(_) => "HashSet".into(),
        BTreeSet(_) => "BTreeSet".into(),
        HashMap(..) => "HashMap".into(),
        BTreeMap(..) => "BTreeMap".into(),
        Box(_) => "Box".into(),
        Rc(_) => "Rc".into(),
        Arc(_) => "Arc".into(),
        Slice(_) => "[T]".into(),
        Ref(_) => "&T".into(),
        RcSlice(_) => "Rc<[T]>".into(),
        Adt(d) => format!("derived:{}", match d.body { DeclBody::Struct(_) => "struct", DeclBody::Enum { .. } => "enum" }),
        other => other.render(),
    }
}
