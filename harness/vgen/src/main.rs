fn main(){}
